"""Finding 27 (C11 B8): the C _getcache/_subcache probe and fill the cache
dictionaries while they hold only a borrowed reference to them.  Hashing the key
can run Python code (`provided` is any hashable object; `name` may be an instance
of a str subclass with its own __hash__); if that code calls changed() on the
lookup - which is what every registration does - the dictionary is freed under
PyDict_GetItem/PyDict_SetItem and the fill is written into freed memory.  CPython
recycles freed dicts through a free list, so the stray write shows up in the next
dictionary that gets allocated.  Exits 1 while the defect is present (C
accelerator), 0 in PURE_PYTHON mode / when repaired."""
import sys
from zope.interface import Interface
from zope.interface.adapter import AdapterRegistry


class IR(Interface):
    pass


class IP(Interface):
    pass


reg = AdapterRegistry()
reg.register((IR,), IP, 'nm', 'x')
victims = []


class Name(str):
    armed = False

    def __hash__(self):
        if Name.armed:
            Name.armed = False
            reg.changed(None)        # what any register()/unregister() does
            victims.extend({} for _ in range(8))   # likely to reuse the freed dict objects
        return str.__hash__(self)


n = Name('nm')
hash(n)
Name.armed = True
res = reg.lookup((IR,), IP, n)
bad = [v for v in victims if v]
if bad:
    print('an unrelated fresh dict now contains the cache fill:', bad)
    sys.exit(1)
print('ok', res)
