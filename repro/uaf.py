"""Use of a freed cache dict: _uncached_lookup re-enters and mutates the registry."""
import subprocess, sys, os
CHILD = r'''
import gc; gc.disable()
from zope.interface import Interface
from zope.interface import adapter
from zope.interface.adapter import AdapterRegistry, AdapterLookup
assert adapter.LookupBase is not adapter.LookupBaseFallback
class IFoo(Interface): pass
class IBar(Interface): pass
spies = []
class Lookup(AdapterLookup):
    armed = False
    def _uncached_lookup(self, required, provided, name=''):
        r = AdapterLookup._uncached_lookup(self, required, provided, name)
        if Lookup.armed:
            Lookup.armed = False
            self._registry.register([IFoo], IBar, 'other', 'x')   # -> changed() frees the caches
            spies.extend([{} for _ in range(200)])
        return r
    def _uncached_lookupAll(self, required, provided):
        r = AdapterLookup._uncached_lookupAll(self, required, provided)
        if Lookup.armed:
            Lookup.armed = False
            self._registry.register([IFoo], IBar, 'other2', 'x')
            spies.extend([{} for _ in range(200)])
        return r
    def _uncached_subscriptions(self, required, provided):
        r = AdapterLookup._uncached_subscriptions(self, required, provided)
        if Lookup.armed:
            Lookup.armed = False
            self._registry.register([IFoo], IBar, 'other3', 'x')
            spies.extend([{} for _ in range(200)])
        return r
class Reg(AdapterRegistry):
    LookupClass = Lookup
reg = Reg()
reg.register([IFoo], IBar, '', 'A')
for call in (lambda: reg.lookup([IFoo], IBar), lambda: reg.lookupAll([IFoo], IBar), lambda: reg.subscriptions([IFoo], IBar)):
    del spies[:]
    Lookup.armed = True
    call()
    polluted = [d for d in spies if d]
    assert not polluted, "lookup wrote into a freed dict: %r" % polluted[:1]
print("CHILD-OK")
'''
p = subprocess.run([sys.executable, '-c', CHILD], capture_output=True, text=True)
print(p.stdout[-300:], p.stderr[-600:])
sys.exit(0 if 'CHILD-OK' in p.stdout else 1)
