"""Finding 26 (C17 R17.6): an implementation whose keyword-only parameter has no
default binds none of the calls the interface describes, yet verifyClass and
verifyObject accept it (the method description has no notion of keyword-only
parameters, so _incompat never sees them).  Exits 1 while the defect is present."""
import sys
from zope.interface import Interface, implementer
from zope.interface.verify import verifyClass, verifyObject


class I(Interface):
    def m(a):
        pass


@implementer(I)
class K:
    def m(self, a, *, key):
        pass


bad = 0
for f, c in ((verifyClass, K), (verifyObject, K())):
    try:
        ok = f(I, c)
    except Exception as e:  # rejected: the desired behaviour
        print(f.__name__, 'rejects:', type(e).__name__)
        continue
    try:
        c.m(1) if not isinstance(c, type) else c().m(1)
    except TypeError as e:
        print('%s accepted %r although the described call m(1) fails: %s' % (f.__name__, c, e))
        bad += 1
sys.exit(1 if bad else 0)
