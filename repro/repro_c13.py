import pickle, sys
from zope.interface import Interface, implementer_only, implementer, implementedBy, classImplementsOnly
class I(Interface): pass
class J(Interface): pass
@implementer(J)
class Base: pass
@implementer_only(I)
class P(Base): pass
class Q(Base): pass
@implementer(I)
def factory(): pass
for proto in range(pickle.HIGHEST_PROTOCOL + 1):
    for ob in (Base, P, Q, factory):
        s = implementedBy(ob)
        s2 = pickle.loads(pickle.dumps(s, proto))
        assert s2 is s, (proto, ob, s2, s)
classImplementsOnly(Q, I)
assert pickle.loads(pickle.dumps(implementedBy(Q))) is implementedBy(Q)
print('ok')
