import subprocess, sys
CODE = r'''
from zope.interface import Interface, interface
hooks = interface.adapter_hooks
saved = list(hooks)
class I(Interface): pass
def h1(iface, ob):
    del hooks[:]          # a hook that uninstalls all hooks while it runs
    return None
hooks[:] = [h1] + [lambda i, o: None] * 50
try:
    print(I(object(), 'alternate'))
finally:
    hooks[:] = saved
'''
for env in ({}, {'PURE_PYTHON': '1'}):
    import os
    e = dict(os.environ); e.update(env)
    r = subprocess.run([sys.executable, '-c', CODE], capture_output=True, text=True, env=e)
    print(env, 'exit', r.returncode, r.stdout.strip(), r.stderr.strip()[-200:])
