import gc, sys
from zope.interface import Interface
from zope.interface import adapter
from zope.interface.adapter import AdapterRegistry
assert adapter.LookupBase is not adapter.LookupBaseFallback
class IFoo(Interface): pass
reg = AdapterRegistry()
class Key: pass
def leaked(fn):
    k = Key()
    before = sys.getrefcount(k)
    for i in range(50):
        try:
            fn(k)
        except TypeError:
            pass
    return sys.getrefcount(k) - before
# unhashable `provided` makes the cache fetch fail after `required` was turned into a tuple
assert leaked(lambda k: reg.lookup([k], [], '')) == 0, "lookup leaks required"
assert leaked(lambda k: reg.lookupAll([k], [])) == 0, "lookupAll leaks required"
assert leaked(lambda k: reg.subscriptions([k], [])) == 0, "subscriptions leaks required"
# getObjectSpecification: a non-specification __provides__ is leaked on every call
from zope.interface.declarations import getObjectSpecification
class P: pass
marker = Key()
class Ob:
    pass
ob = Ob(); ob.__provides__ = marker
before = sys.getrefcount(marker)
for i in range(50): getObjectSpecification(ob)
assert sys.getrefcount(marker) - before == 0, "getObjectSpecification leaks a non-spec __provides__ (%d)" % (sys.getrefcount(marker) - before)
print('ok')
