"""C16 known finding: registerAdapter emits Registered for a no-op and no
Unregistered for a replaced registration (registerUtility handles both)."""
import sys, types
events = []
ev = types.ModuleType('zope.event'); ev.notify = events.append
sys.modules['zope.event'] = ev
import zope; zope.event = ev
from zope.interface import Interface
from zope.interface.registry import Components
from zope.interface.interfaces import Registered, Unregistered
class IR(Interface): pass
class IP(Interface): pass
def f1(o): return 1
def f2(o): return 2
c = Components()
c.registerAdapter(f1, (IR,), IP)
n0 = len(events)
c.registerAdapter(f1, (IR,), IP)          # nothing added
noop_events = events[n0:]
n1 = len(events)
c.registerAdapter(f2, (IR,), IP)          # replaces f1
repl = events[n1:]
print('no-op emitted:', [type(e).__name__ for e in noop_events])
print('replace emitted:', [type(e).__name__ for e in repl])
assert not noop_events, "Registered emitted although nothing was added"
assert [type(e).__name__ for e in repl] == ['Unregistered', 'Registered']
