from zope.interface import Interface, implementer, directlyProvides, classImplementsOnly, providedBy
class I(Interface): pass
class J(Interface): pass
@implementer(I)
class B: pass
b1, b2 = B(), B()
directlyProvides(b1, I)      # redundant now: may be dropped
classImplementsOnly(B, J)    # B no longer implements I
directlyProvides(b2, I)      # NOT redundant at the moment it is made
assert I.providedBy(b2), list(providedBy(b2))
assert I in providedBy(b2)
print('ok')
