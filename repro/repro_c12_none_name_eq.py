"""Finding 25 (C12 R12.6 / C10 F14, fixed in /repo): == / != of an interface whose __name__ is None
against a named one: C answers (False / True), PURE_PYTHON raises TypeError.
usage: python repro_c12_none_name_eq.py ; PURE_PYTHON=1 python repro_c12_none_name_eq.py"""
from zope.interface.interface import InterfaceClass
a = InterfaceClass('two words', __module__='m')   # Element.__init__: name with a space and no doc -> __name__ None
b = InterfaceClass('IB', __module__='m')
print('names', a.__name__, b.__name__)
for op in ('==', '!=', '<', '<=', '>', '>='):
    try:
        print(op, eval('a %s b' % op), end='; ')
    except Exception as e:
        print(op, type(e).__name__, end='; ')
print()
print('hash ok', hash(a) == hash((a.__name__, a.__module__)))
