"""Python LookupBase.lookup/lookupAll/subscriptions fetch their cache dict
*before* `tuple(required)`.  If iterating `required` runs code that changes
the registry, `changed()` clears the outer cache but the already fetched inner
dict is detached and still holds the old entry: the call answers from it.
The C accelerator resolves `required` first and answers from the new state."""
import os, sys
os.environ.setdefault('PURE_PYTHON', '1')
from zope.interface import Interface
from zope.interface.adapter import AdapterRegistry

class IR(Interface): pass
class IP(Interface): pass

reg = AdapterRegistry()
reg.register([IR], IP, '', 'old')
assert reg.lookup([IR], IP) == 'old'          # warm the cache

class Lazy:
    fired = False
    def __iter__(self):
        if not Lazy.fired:
            Lazy.fired = True
            reg.register([IR], IP, '', 'new')  # mutation while resolving `required`
        return iter((IR,))

got = reg.lookup(Lazy(), IP)
after = reg.lookup([IR], IP)
print('lookup during mutation:', got, '| afterwards:', after)
reg.subscribe([IR], IP, 's-old')
assert reg.subscriptions([IR], IP) == ['s-old']
class Lazy2:
    fired = False
    def __iter__(self):
        if not Lazy2.fired:
            Lazy2.fired = True
            reg.subscribe([IR], IP, 's-new')
        return iter((IR,))
got2 = reg.subscriptions(Lazy2(), IP)
print('subscriptions during mutation:', got2)
sys.exit(0 if (got == 'new' and got2 == ['s-old', 's-new']) else 1)
