"""C10 F4: the C providedBy swallowed every exception from ob.__provides__ /
cls.__provides__ / the `extends` probe; the Python reference only swallows
AttributeError."""
import os, subprocess, sys
CHILD = r'''
from zope.interface.declarations import providedBy
class NotASpec:
    pass                      # no `extends`: the legacy branch is taken
class Ob:
    __providedBy__ = NotASpec()
    @property
    def __provides__(self):
        raise ValueError("boom")
try:
    r = providedBy(Ob())
    print("RETURNED", r)
except ValueError:
    print("RAISED")
class Weird:
    def __getattr__(self, name):
        if name == 'extends':
            raise KeyError(name)
        raise AttributeError(name)
class Ob2:
    __providedBy__ = Weird()
try:
    r = providedBy(Ob2())
    print("RETURNED2", r)
except KeyError:
    print("RAISED2")
'''
outs = {}
for mode in ('0', '1'):
    env = dict(os.environ, PURE_PYTHON=mode)
    outs[mode] = subprocess.run([sys.executable, '-c', CHILD], env=env, capture_output=True, text=True).stdout.split('\n')
    outs[mode] = [l.split()[0] for l in outs[mode] if l]
print(outs)
assert outs['0'] == outs['1'], "C and Python disagree: C %s, Python %s" % (outs['0'], outs['1'])
