"""Finding 19 (C10): ObjectSpecificationDescriptor.__get__(inst) / (inst, None)
in the C accelerator passed a NULL owner to implementedBy() and crashed the
interpreter when `inst` has no __provides__; the Python reference answers
implementedBy(None) for (inst, None).  Run against the pre-fix tree (parent of
141b6d9) this script reports the crash (child exit -11); on the fixed tree both
calls print the empty declaration."""
import subprocess
import sys

CODE = r'''
from zope.interface.declarations import ObjectSpecificationDescriptor as D
class X: pass
print(D().__get__(X()))
print(D().__get__(X(), None))
'''
r = subprocess.run([sys.executable, '-c', CODE], capture_output=True, text=True)
print('exit', r.returncode)
print(r.stdout, r.stderr[-300:])
sys.exit(0 if r.returncode == 0 else 1)
