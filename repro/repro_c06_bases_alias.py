from zope.interface.adapter import AdapterRegistry
from zope.interface import Interface
class IR(Interface): pass
class IP(Interface): pass
t1, t2 = AdapterRegistry(), AdapterRegistry()
lst = [t1]
b = AdapterRegistry(lst)
lst[0] = t2
b.__bases__ = lst
assert b.lookup((IR,), IP) is None
t2.register((IR,), IP, '', 'from-t2')
got = b.lookup((IR,), IP)
print('lookup after registering in the new base:', got)
assert got == 'from-t2', 'stale: the registry never linked itself to its new base'
