from zope.interface import Interface
from zope.interface.interface import InterfaceClass

class IA(Interface): pass
class IX(Interface): pass

def make():
    return InterfaceClass('ITwin', (IA,), {}, __module__='pkg.mod')

t1, t2 = make(), make()
print('equal', t1 == t2, 'same', t1 is t2)
IA.__bases__ = (IX,)
print('t1 sro', [i.__name__ for i in t1.__sro__])
print('t2 sro', [i.__name__ for i in t2.__sro__])
print('t1 extends IX', t1.extends(IX), ' t2 extends IX', t2.extends(IX))
