from zope.interface import Interface
from zope.interface.adapter import AdapterRegistry
class IR(Interface): pass
class IP(Interface): pass
base = AdapterRegistry()
child = AdapterRegistry((base,))
base.register([IR], IP, '', 'A')
assert child.lookup([IR], IP) == 'A'
base.rebuild()
assert child.lookup([IR], IP) == 'A'
base.register([IR], IP, '', 'B')
got = child.lookup([IR], IP)
assert got == 'B', got
print("ok")
