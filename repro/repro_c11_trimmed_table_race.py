"""Finding 23 (C11 B7, fixed in /repo cd29dfd): a lookup racing with
unregister()/unsubscribe() raised IndexError.

usage: [PURE_PYTHON=1] python repro_c11_trimmed_table_race.py <seconds>
exit 1 and a traceback ending in `byorder[order]` on the unrepaired tree
(f29afd3); exit 0 on the repaired one.  Not part of any registered check."""
import sys, threading, time
sys.setswitchinterval(1e-6)
from zope.interface import Interface
from zope.interface.adapter import AdapterRegistry
class IR(Interface): pass
class IP(Interface): pass
reg = AdapterRegistry()
reg.subscribe([IR], IP, 'low')          # order 1 stays
stop = False
errors = []
def mutator():
    while not stop:
        reg.subscribe([IR, IR], IP, 'hi')      # order 2 appears
        reg.unsubscribe([IR, IR], IP, 'hi')    # ... and is trimmed again
def looker(kind):
    while not stop:
        try:
            if kind == 's':
                r = reg.subscriptions([IR, IR], IP)
                assert r in ([], ['hi']), r
            elif kind == 'l':
                r = reg.lookup([IR, IR], IP, '')
            else:
                r = reg.lookupAll([IR, IR], IP)
        except Exception as e:
            import traceback; errors.append((kind, repr(e), traceback.format_exc()))
            return
ts = [threading.Thread(target=mutator)] + [threading.Thread(target=looker, args=(k,)) for k in 'sla']
for t in ts: t.start()
t0 = time.time()
while time.time() - t0 < float(sys.argv[1]) and not errors:
    time.sleep(0.05)
stop = True
for t in ts: t.join()
print('errors:', errors)
sys.exit(1 if errors else 0)
