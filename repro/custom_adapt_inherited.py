"""C14: an inherited custom __adapt__ (interfacemethod) is ignored by the C
__call__ when the sub-interface defines another interfacemethod."""
from zope.interface import Interface, interfacemethod
class IWithAdapt(Interface):
    @interfacemethod
    def __adapt__(self, obj):
        return 42
class IDer(IWithAdapt):
    @interfacemethod
    def other(self):
        return 1
assert IWithAdapt(object()) == 42
got = IDer(object(), 'alternate')
assert got == 42, got
print('ok')
