import sys, gc
from zope.interface import adapter
assert adapter.VerifyingBase is not adapter.VerifyingBaseFallback
class Reg:
    _generation = 1
class Holder: pass
base = Reg()
class VB(adapter.VerifyingBase):
    depth = 0
    @property
    def _registry(self):
        h = Holder(); h.ro = [None, base]
        if VB.depth == 0:
            VB.depth = 1
            self.changed(None)      # re-enters verify_changed and fills the fields
            VB.depth = 0
        return h
vb = VB()
before = sys.getrefcount(base)
for i in range(100):
    vb.changed(None)
delta = sys.getrefcount(base) - before
assert delta <= 1, "verify_changed leaks the re-entrantly stored tuples: %d" % delta
print('ok')
