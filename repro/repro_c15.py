from zope.interface import Interface, Attribute
class IBase(Interface):
    def foo(): "base"
class IBase1(IBase): pass
class IBase2(IBase):
    def foo(): "base2"
class ISub(IBase1, IBase2): pass
assert ISub['foo'].interface is IBase2
d = dict(ISub.namesAndDescriptions(all=True))
assert d['foo'] is ISub['foo'], (d['foo'].interface, ISub['foo'].interface)
assert set(d) == set(ISub.names(all=True))
for n in ISub: assert d[n] is ISub[n]
print('ok')
