"""fromMethod / fromFunction(imlevel=1) on a method whose implied `self` is
received through *args (`def update(*args, **kw)`): the level was subtracted
from co_argcount (0) giving negative indices into co_varnames."""
import inspect, sys
from zope.interface.interface import fromMethod

class A:
    def m(*args, **kw): pass
    def n(*args): pass
    def k(self, a, *rest): pass

ok = True
for name in ('m', 'n', 'k'):
    bound = getattr(A(), name)
    want = str(inspect.signature(bound))
    try:
        got = fromMethod(bound).getSignatureString()
    except Exception as e:
        got = 'ERR %s: %s' % (type(e).__name__, e)
    print(name, 'inspect:', want, '| described:', got)
    ok = ok and got == want
sys.exit(0 if ok else 1)
