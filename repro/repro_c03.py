from zope.interface import Interface
from zope.interface import ro
class I0(Interface): pass
class I1(I0): pass
try:
    class I3(I0, I1): pass
except Exception as e:
    print("class creation raised", e); raise
assert ro.is_consistent(I1)
try:
    ro.ro(I3, strict=True)
    strict_ok = True
except ro.InconsistentResolutionOrderError:
    strict_ok = False
assert not strict_ok
assert ro.is_consistent(I3) == strict_ok, "is_consistent(I3) is True but strict mode raises"
class I4(I3): pass   # inconsistency inherited from a base
assert not ro.is_consistent(I4)
print('ok')
