"""verifyClass described a @staticmethod found on the class as an unbound
method (imlevel=1) and stripped its first real parameter: a class whose
staticmethod matches the interface was rejected, while verifyObject on an
instance accepted it."""
import sys
from zope.interface import Interface, implementer
from zope.interface.verify import verifyClass, verifyObject
from zope.interface.exceptions import Invalid

class I(Interface):
    def make(a): pass
    def plain(a): pass

@implementer(I)
class Good:
    @staticmethod
    def make(a): pass
    def plain(self, a): pass

@implementer(I)
class Bad:
    @staticmethod
    def make(): pass          # really lacks the argument
    def plain(self, a): pass

ok = True
try:
    verifyObject(I, Good()); verifyClass(I, Good)
except Invalid as e:
    print('Good rejected:', e); ok = False
for f, arg in ((verifyObject, Bad()), (verifyClass, Bad)):
    try:
        f(I, arg); print('Bad accepted by', f.__name__); ok = False
    except Invalid:
        pass
sys.exit(0 if ok else 1)
