from zope.interface.interface import fromFunction, fromMethod
def f(a, b=1, *args, k=1, **kw): pass
m = fromFunction(f)
assert m.getSignatureString() == "(a, b=1, *args, **kw)", m.getSignatureString()
def g(a, *, k, **kw): pass
m = fromFunction(g)
assert (m.varargs, m.kwargs) == (None, 'kw'), (m.varargs, m.kwargs)
class C:
    def h(self, x, *rest, key=None): pass
m = fromMethod(C().h)
assert m.varargs == 'rest' and m.kwargs is None and m.positional == ('x',)
from zope.interface.common.collections import ISequence
info = ISequence['index'].getSignatureInfo()
assert info['positional'] == ('value','start','stop'), info
assert info['required'] == ('value',), info
print('ok')
