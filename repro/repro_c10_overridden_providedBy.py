"""Finding 24 (C10 F13 / C14 R14.8, fixed in /repo): an interface that overrides
providedBy with @interfacemethod was adapted differently with and without the C
optimizations (the C __adapt__ inlines the default providedBy).

usage: python repro_c10_overridden_providedBy.py  vs  PURE_PYTHON=1 python ...
The two printed lists differ on the unrepaired tree (cd29dfd) in the first five
entries and are identical on the repaired one.  Not part of any registered check."""
from zope.interface import Interface, interfacemethod
from zope.interface import interface as zi
out = []
class IFoo(Interface):
    @interfacemethod
    def providedBy(self, obj):
        return getattr(obj, 'is_foo', False)
class X: is_foo = True
class Y: pass
def call(I, o):
    try:
        r = I(o)
        return 'obj' if r is o else repr(r)
    except TypeError as e:
        return 'TypeError'
out.append(('IFoo(X)', call(IFoo, X())))
out.append(('IFoo(Y)', call(IFoo, Y())))
out.append(('IFoo.__adapt__', IFoo.__adapt__(X()) is not None))
class IBar(IFoo): pass
out.append(('IBar(X)', call(IBar, X())))
class IBaz(IFoo):
    @interfacemethod
    def other(self): return 1
out.append(('IBaz(X)', call(IBaz, X())))
# custom __adapt__ inherited, providedBy overridden later
class IA(Interface):
    @interfacemethod
    def __adapt__(self, obj):
        return 'custom-adapt'
class IB(IA):
    @interfacemethod
    def providedBy(self, obj):
        return True
out.append(('IB(X)', call(IB, X())))
# hooks still consulted
zi.adapter_hooks.append(lambda i, o: 'hooked' if i is IFoo else None)
out.append(('IFoo(Y) hooked', call(IFoo, Y())))
zi.adapter_hooks.pop()
print(out)
