"""Statement-level control-flow graph for Python functions, with the
queries the rules need: reachability avoiding a set of nodes (must-pass /
dominance style questions) and bounded path enumeration.
"""
import ast

from .core import AnalysisError, norm_src
from .pyfront import FUNC


class Node:
    __slots__ = ('id', 'kind', 'ast', 'succ', 'pred', 'label', 'revisit')

    def __init__(self, nid, kind, node=None, label=''):
        self.id = nid
        self.kind = kind      # entry exit raise stmt test iter dispatch
        self.ast = node
        self.succ = []        # [(Node, edge label)]
        self.pred = []
        self.label = label
        self.revisit = False

    def __repr__(self):
        s = norm_src(self.ast).split('\n')[0][:60] if self.ast is not None \
            else ''
        return '<%d %s %s>' % (self.id, self.kind, s)

    @property
    def lineno(self):
        return getattr(self.ast, 'lineno', 0)


class CFG:
    def __init__(self, func, exc_edges=True, atomic=True):
        self.func = func
        self.atomic = atomic
        self.nodes = []
        self.entry = self._new('entry')
        self.exit = self._new('exit')
        self.raise_exit = self._new('raise')
        self.exc_edges = exc_edges
        self._loops = []      # stack of (continue target, break target)
        self._handlers = [self.raise_exit]
        self._finally = []
        body = func.body if not isinstance(func, ast.Lambda) else \
            [ast.Return(value=func.body)]
        ends = self._seq(body, [(self.entry, '')])
        for n, lab in ends:
            self._edge(n, self.exit, lab or 'fallthrough')
        self.by_ast = {}
        for n in self.nodes:
            if n.ast is not None:
                self.by_ast.setdefault(id(n.ast), []).append(n)

    # -- construction ---------------------------------------------------
    def _new(self, kind, node=None, label=''):
        n = Node(len(self.nodes), kind, node, label)
        self.nodes.append(n)
        return n

    def _edge(self, a, b, label=''):
        a.succ.append((b, label))
        b.pred.append((a, label))

    def _link(self, frontier, node):
        for n, lab in frontier:
            self._edge(n, node, lab)

    def _seq(self, stmts, frontier):
        for st in stmts:
            if not frontier:
                break       # unreachable code
            frontier = self._stmt(st, frontier)
        return frontier

    def _exc(self, node, label='exc'):
        # implicit exception edge for statements inside a try body
        if self.exc_edges and len(self._handlers) > 1:
            self._edge(node, self._handlers[-1], label)

    def _cond(self, test, frontier):
        """Short-circuit decomposition of a condition into atomic test nodes.
        Returns (true frontier, false frontier)."""
        if self.atomic and isinstance(test, ast.BoolOp):
            if isinstance(test.op, ast.And):
                tf = frontier
                falses = []
                for v in test.values:
                    tf, f = self._cond(v, tf)
                    falses += f
                return tf, falses
            ff = frontier
            trues = []
            for v in test.values:
                t, ff = self._cond(v, ff)
                trues += t
            return trues, ff
        if self.atomic and isinstance(test, ast.UnaryOp) and isinstance(test.op, ast.Not):
            t, f = self._cond(test.operand, frontier)
            return f, t
        n = self._new('test', test)
        self._link(frontier, n)
        self._exc(n)
        return [(n, 'T')], [(n, 'F')]

    def _ifexp_stmt(self, st, frontier):
        """`return a if c else b` / `x = a if c else b` as a branch."""
        v = st.value
        t, f = self._cond(v.test, frontier)
        outs = []
        for val, fr in ((v.body, t), (v.orelse, f)):
            if isinstance(st, ast.Return):
                new = ast.Return(value=val)
            else:
                new = ast.Assign(targets=st.targets, value=val)
            ast.copy_location(new, st)
            new.parent = st.parent
            new.desugared_from = st
            outs += self._stmt(new, fr)
        return outs

    def _stmt(self, st, frontier):
        if isinstance(st, ast.If):
            t, f = self._cond(st.test, frontier)
            a = self._seq(st.body, t)
            b = self._seq(st.orelse, f) if st.orelse else f
            return a + b
        if self.atomic and isinstance(st, (ast.Return, ast.Assign)) and \
                isinstance(st.value, ast.IfExp):
            return self._ifexp_stmt(st, frontier)
        if isinstance(st, ast.While):
            head = self._new('stmt', ast.Pass())
            self._link(frontier, head)
            first_new = len(self.nodes)
            t, f = self._cond(st.test, [(head, '')])
            # the condition is evaluated again after the body: its test nodes
            # may be visited twice on an enumerated path (body taken 0 or 1 times)
            for tn in self.nodes[first_new:]:
                tn.revisit = True
            after = []
            self._loops.append((head, after))
            first_body = len(self.nodes)
            body_end = self._seq(st.body, t)
            # one trip around a while loop passes its body nodes once more on
            # the way to an exit inside the body (`while 1: ... if c: return`)
            for tn in self.nodes[first_body:]:
                tn.revisit = True
            self._loops.pop()
            for n, lab in body_end:
                self._edge(n, head, lab or 'loop')
            const_true = isinstance(st.test, ast.Constant) and st.test.value
            out = [] if const_true else f
            if st.orelse:
                out = self._seq(st.orelse, out)
            return out + after
        if isinstance(st, (ast.For, ast.AsyncFor)):
            it = self._new('iter', st)
            self._link(frontier, it)
            self._exc(it)
            after = []
            self._loops.append((it, after))
            body_end = self._seq(st.body, [(it, 'iter')])
            self._loops.pop()
            for n, lab in body_end:
                self._edge(n, it, lab or 'loop')
            out = [(it, 'exhausted')]
            if st.orelse:
                out = self._seq(st.orelse, out)
            return out + after
        if isinstance(st, ast.Break):
            n = self._new('stmt', st)
            self._link(frontier, n)
            self._loops[-1][1].append((n, 'break'))
            return []
        if isinstance(st, ast.Continue):
            n = self._new('stmt', st)
            self._link(frontier, n)
            self._edge(n, self._loops[-1][0], 'continue')
            return []
        if isinstance(st, ast.Return):
            n = self._new('stmt', st)
            self._link(frontier, n)
            self._exc(n)
            if self._finally:
                # run pending finally blocks (innermost first) then exit
                fr = [(n, 'return')]
                for fb in reversed(self._finally):
                    fr = self._seq_copy(fb, fr)
                for m, lab in fr:
                    self._edge(m, self.exit, 'return')
            else:
                self._edge(n, self.exit, 'return')
            return []
        if isinstance(st, ast.Raise):
            n = self._new('stmt', st)
            self._link(frontier, n)
            self._edge(n, self._handlers[-1], 'raise')
            return []
        if isinstance(st, (ast.Try,) + ((ast.TryStar,) if hasattr(ast, 'TryStar') else ())):
            return self._try(st, frontier)
        if isinstance(st, (ast.With, ast.AsyncWith)):
            n = self._new('stmt', st)      # evaluates the context managers
            self._link(frontier, n)
            self._exc(n)
            return self._seq(st.body, [(n, '')])
        if isinstance(st, ast.Match):
            raise AnalysisError('match statement not supported by the CFG')
        # simple statement (incl. nested def/class, assert, expr, assign...)
        n = self._new('stmt', st)
        self._link(frontier, n)
        self._exc(n)
        return [(n, '')]

    def _seq_copy(self, stmts, frontier):
        # a fresh copy of the nodes for a finally body on an abrupt exit
        return self._seq(stmts, frontier)

    def _try(self, st, frontier):
        outer = self._handlers[-1]
        disp = self._new('dispatch', st)
        has_final = bool(st.finalbody)
        if has_final:
            self._finally.append(st.finalbody)
        self._handlers.append(disp)
        body_end = self._seq(st.body, frontier)
        self._handlers.pop()
        if st.orelse:
            body_end = self._seq(st.orelse, body_end)
        ends = list(body_end)
        catch_all = False
        for h in st.handlers:
            hn = self._new('stmt', h)       # the except clause itself
            self._edge(disp, hn, 'except ' + norm_src(h.type))
            if h.type is None or norm_src(h.type) in ('BaseException',):
                catch_all = True
            ends += self._seq(h.body, [(hn, '')])
        if has_final:
            self._finally.pop()
        if not catch_all:
            if has_final:
                fr = self._seq(st.finalbody, [(disp, 'unhandled')])
                for m, lab in fr:
                    self._edge(m, outer, 'reraise')
            else:
                self._edge(disp, outer, 'unhandled')
        if has_final:
            ends = self._seq(st.finalbody, ends)
        return ends

    # -- queries ----------------------------------------------------------
    def nodes_where(self, pred):
        return [n for n in self.nodes if n.ast is not None and pred(n)]

    def node_of(self, astnode):
        """CFG node whose statement/test contains ``astnode``."""
        a = astnode
        while a is not None:
            if id(a) in self.by_ast:
                return self.by_ast[id(a)][0]
            a = getattr(a, 'parent', None)
        raise AnalysisError('no CFG node for %s' % norm_src(astnode)[:60])

    def reach(self, start, avoid=None, forward=True, include_start=False,
              skip_edge=None):
        """Set of nodes reachable from ``start`` (a node or list of nodes)
        without entering nodes for which ``avoid`` is true.  ``skip_edge``
        (node, label) -> bool removes edges."""
        starts = start if isinstance(start, (list, tuple, set)) else [start]
        seen = set()
        todo = []
        for s in starts:
            if include_start:
                if avoid and avoid(s):
                    continue
                seen.add(s.id)
            todo.append(s)
        while todo:
            n = todo.pop()
            for m, lab in (n.succ if forward else n.pred):
                if skip_edge is not None:
                    a, b = (n, m) if forward else (m, n)
                    if skip_edge(a, lab, b):
                        continue
                if m.id in seen:
                    continue
                if avoid and avoid(m):
                    continue
                seen.add(m.id)
                todo.append(m)
        return seen

    def must_pass_after(self, start, pred, target=None, skip_edge=None):
        """Every path start -> target (default normal exit) passes a node
        (strictly after ``start``) satisfying pred."""
        target = target or self.exit
        return target.id not in self.reach(start, avoid=pred,
                                           skip_edge=skip_edge)

    def dominated_by(self, target, pred, skip_edge=None):
        """Every path entry -> target passes a pred node before target."""
        if pred(target) and False:
            return True
        r = self.reach(self.entry, avoid=pred, skip_edge=skip_edge)
        return target.id not in r

    def can_follow(self, a, pred, skip_edge=None):
        """Nodes satisfying pred reachable strictly after node ``a``."""
        r = self.reach(a, skip_edge=skip_edge)
        return [n for n in self.nodes if n.id in r and n.ast is not None
                and pred(n)]

    def normal_nodes(self):
        """Nodes from which the normal exit is reachable and that are
        reachable from entry."""
        f = self.reach(self.entry, include_start=True)
        b = self.reach(self.exit, forward=False, include_start=True)
        return [n for n in self.nodes if n.id in f and n.id in b]

    def paths(self, limit=4096, to_raise=False, loop_twice=False):
        """Enumerate entry->exit paths as lists of (node, edge label taken
        out of node).  Each node is visited at most once per path, loop
        headers at most twice (body taken 0 or 1 times)."""
        out = []
        maxvisit = {}
        for n in self.nodes:
            maxvisit[n.id] = 2 if (n.kind in ('iter',) or isinstance(n.ast, ast.Pass)
                                    or getattr(n, 'revisit', False)) else 1
        targets = {self.exit.id}
        if to_raise:
            targets.add(self.raise_exit.id)

        def rec(n, path, visits):
            if len(out) > limit:
                raise AnalysisError('more than %d paths in %s'
                                    % (limit, self.func.name))
            if n.id in targets:
                out.append(list(path) + [(n, '')])
                return
            if n is self.raise_exit:
                return
            for m, lab in n.succ:
                c = visits.get(m.id, 0)
                if c >= maxvisit[m.id]:
                    continue
                visits[m.id] = c + 1
                path.append((n, lab))
                rec(m, path, visits)
                path.pop()
                visits[m.id] = c
        rec(self.entry, [], {self.entry.id: 1})
        return out


_cfg_cache = {}


def cfg_of(func, exc_edges=True, atomic=True):
    key = (id(func), exc_edges, atomic)
    if key not in _cfg_cache:
        _cfg_cache[key] = CFG(func, exc_edges, atomic)
    return _cfg_cache[key]


def stmt_nodes_matching(cfg, fn):
    """CFG nodes n for which fn(n.ast-part-evaluated-at-n) is true.
    For compound statements only the header expression belongs to the node."""
    out = []
    for n in cfg.nodes:
        if n.ast is None:
            continue
        if fn(header_expr(n)):
            out.append(n)
    return out


def header_expr(n):
    """The AST evaluated *at* CFG node n (for For: the iter expression; for
    With: the items; for except clauses: the type)."""
    a = n.ast
    if n.kind == 'iter':
        return a.iter
    if n.kind == 'dispatch':
        return None
    if isinstance(a, (ast.With, ast.AsyncWith)):
        return ast.Tuple(elts=[i.context_expr for i in a.items], ctx=ast.Load())
    if isinstance(a, ast.ExceptHandler):
        return a.type
    if isinstance(a, FUNC + (ast.ClassDef,)):
        return None
    return a
