"""Reference-ownership and borrowed-reference analyses for the C accelerator.

B1  borrowed reference held across a call that may run arbitrary Python
B2  ownership balance along every path (leak / release of a borrowed
    reference / use after release / unchecked NEW result)

Effect table of the CPython API (frozen, one reason per class):
RUNS_PYTHON  - may execute arbitrary Python code (attribute lookup, calls,
               rich comparison, truth testing, iteration, destructors)
HASHES_KEY   - hashes/compares a key (runs Python only for keys with Python
               __hash__/__eq__: tier 2, informational)
PURE         - never runs Python code
"""
from .core import AnalysisError
from .cfront import (ccfg, show, calls, c_assigned, c_reaching, node_calls,
                     returns, is_var, is_field, witness, E)

RUNS_PYTHON = {
    'PyObject_CallMethodObjArgs', 'PyObject_CallFunctionObjArgs',
    'PyObject_CallObject', 'PyObject_Call', 'PyObject_CallMethod',
    'PyObject_GetAttr', 'PyObject_GetAttrString', 'PyObject_SetAttr',
    'PyObject_GetItem', 'PyObject_RichCompareBool', 'PyObject_RichCompare',
    'PyObject_IsTrue', 'PyObject_IsInstance', 'PyObject_IsSubclass',
    'PyObject_HasAttrString', 'PyObject_HasAttr', 'PySequence_Tuple',
    'PySequence_List', 'PyObject_Hash', 'PyObject_Str', 'PyObject_Repr',
    'PyObject_GetIter', 'PyIter_Next', 'PyImport_ImportModule',
    'PySequence_Fast', 'PySequence_GetItem', 'PySequence_GetSlice', 'PySequence_Size',
    'PySequence_Length', 'PySequence_Contains', 'PyObject_Size', 'PyObject_Length',
    'PyObject_SetItem', 'PyObject_DelItem', 'PyObject_SetAttrString',
    'PyObject_DelAttr', 'PyObject_DelAttrString', 'PyNumber_Add', 'PyNumber_Long',
    'PyObject_Not', 'PyObject_Type', 'PyObject_Dir', 'PyObject_CallNoArgs',
    'PyObject_CallOneArg', 'PyObject_Vectorcall', 'PyObject_CallFunction',
    'PyObject_GenericGetAttr', 'PyObject_GenericSetAttr', 'PyImport_Import',
    'PyImport_ImportModuleLevel', 'PyEval_CallObject', 'PyObject_Format',
    'PyObject_ASCII', 'PyObject_Bytes', 'PySet_Add', 'PySet_Contains', 'PySet_Discard',
    'PyMapping_GetItemString', 'PyMapping_Keys', 'PyObject_GetOptionalAttr',
}
DECREFS = {'Py_DECREF', 'Py_XDECREF', 'Py_CLEAR'}
HASHES_KEY = {'PyDict_GetItem', 'PyDict_SetItem', 'PyDict_DelItem',
              'PyDict_Contains', 'PyDict_GetItemWithError'}
PURE = {
    'PyTuple_GET_ITEM', 'PyTuple_GET_SIZE', 'PyTuple_New', 'PyTuple_SET_ITEM',
    'PyTuple_GetSlice', 'PyDict_New', 'Py_INCREF', 'Py_XINCREF',
    'PyUnicode_Check', 'PyTuple_Check', 'PyType_Check', 'PyDict_Check',
    'PyObject_TypeCheck', 'PyErr_SetString', 'PyErr_Clear', 'PyErr_Occurred',
    'PyErr_ExceptionMatches', 'PyErr_SetObject', 'PyArg_ParseTupleAndKeywords',
    'PyArg_ParseTuple', 'Py_TYPE', 'PyList_GET_SIZE', 'Py_BuildValue',
    'PyDict_GetItemString', 'PyType_GetModule', 'PyModule_GetState',
    'PyType_GetModuleByDef', 'PyUnicode_FromString', 'ASSURE_DICT',
    'Py_VISIT', 'PyObject_GC_UnTrack', 'PyType_HasFeature',
    'PyTuple_Pack', 'PyLong_FromLong', 'PyErr_Format', 'PyDict_Clear',
    'PyObject_GC_Track', 'PyType_IsSubtype', 'PyObject_ClearWeakRefs',
    'PyBool_FromLong', 'PyList_New', 'PyModuleDef_Init', 'PyModule_AddObject',
    'PyType_FromModuleAndSpec', 'PyLong_AsLong', 'PyTuple_Size', 'PyDict_Size',
    'PyList_Append', 'PyErr_NoMemory', 'PyErr_BadInternalCall',
    # plain accessors / libc: never run Python code
    'PyUnicode_DATA', 'PyUnicode_GET_LENGTH', 'PyUnicode_KIND', 'PyUnicode_READY',
    'PyUnicode_Compare', 'PyUnicode_CompareWithASCIIString', 'PyUnicode_AsUTF8',
    'PyUnicode_CheckExact', 'Py_IS_TYPE', 'Py_REFCNT', 'Py_SIZE', 'Py_SET_TYPE',
    'memcmp', 'strcmp', 'strlen', 'memcpy', 'PyLong_Check', 'PyList_Check',
    'PyCallable_Check', 'PyTuple_CheckExact', 'PyDict_CheckExact', 'Py_Is',
    'Py_IsNone', 'Py_NewRef', 'Py_XNewRef', 'PyTuple_GetItem', 'PyList_GET_ITEM',
    'PyList_GetItem', 'PyList_SET_ITEM', 'PyList_Size', 'PyObject_GC_Del',
    'PyObject_GC_New', 'PyErr_WarnEx', 'PyErr_GivenExceptionMatches',
    # more of the stable API that never runs Python code (documented effects)
    'PyUnicode_InternInPlace', 'PyUnicode_InternFromString', 'PyUnicode_FromFormat',
    'PyUnicode_FromStringAndSize', 'PyUnicode_Concat', 'PyUnicode_GetLength',
    'PyLong_FromSsize_t', 'PyLong_AsSsize_t', 'PyLong_FromSize_t',
    'PyLong_FromUnsignedLong', 'PyFloat_FromDouble', 'PyTuple_SetItem',
    'PyList_SetItem', 'PyList_Insert', 'PyList_AsTuple', 'PyList_GetSlice',
    'PyList_CheckExact', 'PySet_New', 'PyFrozenSet_New', 'PySet_Size',
    'PyDict_Copy', 'PyDict_Next', 'PyDict_Keys', 'PyDict_Values', 'PyDict_Items',
    'PyDict_SetItemString', 'PyDict_DelItemString', 'PyErr_Fetch', 'PyErr_Restore',
    'PyErr_SetNone', 'PyErr_NormalizeException', 'PyErr_WriteUnraisable',
    'PyWeakref_NewRef', 'PyWeakref_GetObject', 'PyWeakref_GET_OBJECT',
    'PyCapsule_New', 'PyCapsule_GetPointer', 'PyMem_Malloc', 'PyMem_Free',
    'PyObject_Malloc', 'PyObject_Free', 'PyType_Ready', 'PyType_GenericAlloc',
    'PyType_GenericNew', 'PyModule_GetDict', 'PyModule_AddObjectRef',
    'PyModule_AddIntConstant', 'PyModule_AddStringConstant', 'PyState_FindModule',
    'PyThreadState_Get', 'PyGILState_Ensure', 'PyGILState_Release', 'Py_FatalError',
    'PyBytes_FromString', 'PyBytes_AsString', 'PyBytes_Check', 'PyFloat_Check',
    'PyBool_Check', 'PySuper_Check', 'PyModule_Check', 'PyMethod_Check',
    'PyFunction_Check', 'PyCFunction_Check', 'PyObject_GetAttrId',
    'Py_EnterRecursiveCall', 'Py_LeaveRecursiveCall', 'PyMethod_GET_SELF',
    'PyMethod_GET_FUNCTION', 'PyMethod_Self', 'PyMethod_Function', 'abort', 'assert',
}
NEW = {
    'PySequence_Tuple', 'PySequence_List', 'PyObject_CallMethodObjArgs',
    'PyObject_CallFunctionObjArgs', 'PyObject_CallObject', 'PyObject_Call',
    'PyObject_GetAttr', 'PyObject_GetAttrString', 'PyTuple_New', 'PyDict_New',
    'PyTuple_GetSlice', 'Py_BuildValue', 'PyObject_GetItem',
    'PyObject_RichCompare', 'PyUnicode_FromString', 'PyTuple_Pack',
    'PyLong_FromLong', 'PyImport_ImportModule', 'PyObject_Str',
    'PyBool_FromLong', 'PyList_New', 'PyType_FromModuleAndSpec',
    'Py_NewRef', 'Py_XNewRef', 'PyObject_CallNoArgs', 'PyObject_CallOneArg',
    'PyObject_Vectorcall', 'PyObject_CallFunction', 'PyObject_CallMethod',
    'PyImport_Import', 'PyImport_ImportModuleLevel', 'PyObject_GenericGetAttr',
    'PyObject_Format', 'PyObject_ASCII', 'PyObject_Bytes', 'PyMapping_GetItemString',
    'PyMapping_Keys',
    'PyUnicode_InternFromString', 'PyUnicode_FromFormat',
    'PyUnicode_FromStringAndSize', 'PyUnicode_Concat', 'PyLong_FromSsize_t',
    'PyLong_FromSize_t', 'PyLong_FromUnsignedLong', 'PyFloat_FromDouble',
    'PyList_AsTuple', 'PyList_GetSlice', 'PySet_New', 'PyFrozenSet_New',
    'PyDict_Copy', 'PyDict_Keys', 'PyDict_Values', 'PyDict_Items',
    'PyWeakref_NewRef', 'PyCapsule_New', 'PyType_GenericAlloc', 'PyType_GenericNew',
    'PyBytes_FromString', 'PyObject_Repr', 'PyObject_GetIter', 'PyIter_Next',
    'PySequence_Fast', 'PySequence_GetItem', 'PySequence_GetSlice',
    'PyNumber_Add', 'PyNumber_Long', 'PyObject_Type', 'PyObject_Dir',
}
BORROWED = {'PyDict_GetItem', 'PyTuple_GET_ITEM', 'PyDict_GetItemString',
            'PyDict_GetItemWithError', 'PyTuple_GetItem', 'PyList_GET_ITEM',
            'PyList_GetItem', 'PyWeakref_GetObject', 'PyWeakref_GET_OBJECT',
            'PyModule_GetDict', 'PyMethod_GET_SELF', 'PyMethod_GET_FUNCTION',
            'PyMethod_Self', 'PyMethod_Function', 'PySequence_Fast_GET_ITEM',
            'PyState_FindModule'}
STEALS = {'PyTuple_SET_ITEM': 2}


class Summaries:
    """Bottom-up summaries of the accelerator's own functions."""

    def __init__(self, unit):
        self.u = unit
        self.runs_python = {}
        self.returns = {}        # name -> 'new' | ('borrowed', param idx | 'field') | 'other'
        self.unknown_api = set()
        self._fix()

    def callee_names(self, f):
        out = set()
        for n in ccfg(f).nodes:
            for c in node_calls(n):
                if isinstance(c.a[0], str):
                    out.add(c.a[0])
        return out

    def _decref_runs_python(self, f, g, n, c):
        """Py_DECREF(x) may run a destructor unless x is known to be a fresh
        exact container created in this function."""
        a = c.a[1][0] if c.a[1] else None
        if a is not None and a.k == 'var':
            defs = c_reaching(g, n, a.a[0])
            if defs and all(v is not None and v.k == 'call' and v.a[0] in
                            ('PyDict_New', 'PyTuple_New') for d, v in defs):
                # a fresh dict is pure; a fresh tuple releases its items
                if all(v.a[0] == 'PyDict_New' for d, v in defs):
                    return False
        return True

    def _fix(self):
        fs = self.u.funcs
        direct = {}
        for name, f in fs.items():
            g = ccfg(f)
            d = False
            for n in g.nodes:
                for c in node_calls(n):
                    nm = c.a[0]
                    if not isinstance(nm, str):
                        d = True
                    elif nm in RUNS_PYTHON:
                        d = True
                    elif nm in DECREFS and self._decref_runs_python(f, g, n, c):
                        d = True
            direct[name] = d
        self.runs_python = dict(direct)
        changed = True
        while changed:
            changed = False
            for name, f in fs.items():
                if self.runs_python[name]:
                    continue
                for c in self.callee_names(f):
                    if self.runs_python.get(c):
                        self.runs_python[name] = True
                        changed = True
                        break
        for name, f in fs.items():
            for c in self.callee_names(f):
                if c not in fs and c not in RUNS_PYTHON | DECREFS | HASHES_KEY | PURE | NEW | BORROWED:
                    self.unknown_api.add(c)
        for _ in range(3):
            for name, f in fs.items():
                self.returns[name] = self._ret_kind(f)
        # parameters a static helper releases on every path (it takes over the
        # caller's reference, like a stealing API)
        self.consumes = {}
        self.handback = {}
        for name, f in fs.items():
            g = ccfg(f)
            idx = set()
            for k, (pname, ptype) in enumerate(getattr(f, 'params', []) or []):
                if 'PyObject' not in ptype or '**' in ptype:
                    continue
                rel = lambda n, pname=pname: any(
                    c.a[1] and is_var(c.a[1][0], pname)
                    for c in node_calls(n, 'Py_DECREF') + node_calls(n, 'Py_XDECREF')
                    + node_calls(n, 'Py_CLEAR'))
                reb = [n for n in g.nodes if pname in c_assigned(n)]
                if not reb and g.must_pass_after(g.entry, rel):
                    idx.add(k)
                elif not reb and 'PyObject' in f.ret:
                    # release-or-hand-back: on every exit the parameter was
                    # either released or is itself the (non-NULL) value
                    # returned - the caller's reference is used up either way
                    ok = True
                    some_rel = False
                    rets_ = returns(g)
                    for r in rets_:
                        v = r.e.a[0]
                        if v is not None and v.k == 'var' and v.a[0] == pname:
                            continue
                        if g.must_pass_after(g.entry, rel, target=r):
                            some_rel = True
                            continue
                        ok = False
                        break
                    if ok and some_rel and rets_:
                        idx.add(k)
                        self.handback.setdefault(name, set()).add(pname)
            if idx:
                self.consumes[name] = idx
        if self.handback:
            for _ in range(2):
                for name, f in fs.items():
                    self.returns[name] = self._ret_kind(f)

    def may_run_python(self, callee, strict=True):
        """strict: DECREF-class calls count (destructors)."""
        if callee in RUNS_PYTHON:
            return True
        if callee in DECREFS:
            return strict
        if callee in self.u.funcs:
            return self.runs_python[callee]
        return False

    def _ret_kind(self, f):
        g = ccfg(f)
        kinds = set()
        rets = []
        for r in returns(g):
            v = r.e.a[0]
            if v is not None and v.k == 'cond':
                rets += [(r, v.a[1]), (r, v.a[2])]
            else:
                rets.append((r, v))
        for r, v in rets:
            if v is None or v.k in ('null', 'const'):
                continue
            if v.k == 'call':
                if v.a[0] in self.u.funcs and v.a[0] != f.name:
                    kinds.add('borrowed' if self.returns.get(v.a[0]) == 'borrowed'
                              else 'new')
                elif v.a[0] == f.name:
                    pass
                else:
                    kinds.add('borrowed' if v.a[0] in BORROWED else 'new')
                continue
            if v.k != 'var':
                kinds.add('new')
                continue
            var = v.a[0]
            if var in ('Py_None', 'Py_True', 'Py_False', 'Py_NotImplemented'):
                kinds.add('new')
                continue
            inc = lambda n, var=var: any(
                is_var(c.a[1][0], var) for c in node_calls(n, 'Py_INCREF') +
                node_calls(n, 'Py_XINCREF'))
            for d, val in c_reaching(g, r, var):
                inc0 = inc
                inc = lambda n, inc0=inc0, var=var, d=d: inc0(n) or (
                    n is not d and var in c_assigned(n))
                if d is not g.entry and g.must_pass_after(d, inc, target=r):
                    kinds.add('new')
                    continue
                if d is g.entry:
                    # parameter returned: new iff INCREF'd on the way - or the
                    # caller's own reference is handed back (release-or-return)
                    kinds.add('new' if (g.must_pass_after(g.entry, inc, target=r) or
                                        var in getattr(self, 'handback', {}).get(f.name, ()))
                              else 'borrowed')
                    continue
                if val is None:
                    kinds.add('new')
                elif val.k == 'call' and val.a[0] in BORROWED:
                    kinds.add('borrowed')
                elif val.k == 'call' and val.a[0] in self.u.funcs and \
                        val.a[0] != f.name:
                    kinds.add('borrowed' if self.returns.get(val.a[0]) == 'borrowed'
                              else 'new')
                elif val.k == 'call' and val.a[0] == f.name:
                    pass
                elif val.k == 'call':
                    stored = lambda n, var=var: any(
                        len(c.a[1]) == 3 and is_var(c.a[1][2], var)
                        for c in node_calls(n, 'PyDict_SetItem'))
                    dropped = lambda n, var=var: any(
                        is_var(c.a[1][0], var) for c in node_calls(n, 'Py_DECREF'))
                    xdropped = lambda n, var=var: any(
                        is_var(c.a[1][0], var) for c in node_calls(n, 'Py_DECREF') +
                        node_calls(n, 'Py_XDECREF'))
                    pnames = {p for p, t in (getattr(f, 'params', []) or [])}
                    if g.must_pass_after(d, stored, target=r) and \
                            g.must_pass_after(d, dropped, target=r):
                        kinds.add('borrowed')
                    elif val.a[0] == 'PyObject_GetAttr' and len(val.a[1]) == 2 and \
                            val.a[1][0] is not None and val.a[1][0].k == 'var' and \
                            val.a[1][0].a[0] in pnames and \
                            show(val.a[1][1]) == 'str__self__' and \
                            g.must_pass_after(d, xdropped, target=r):
                        # the co-owned __self__ of a super parameter, handed
                        # back after our own reference was dropped
                        kinds.add('borrowed')
                    else:
                        kinds.add('new')
                elif val.k == 'var':
                    # alias of another local: follow one step.  A fresh object that
                    # was stored into a dictionary and whose own reference is dropped
                    # before the return is handed out borrowed (the dictionary keeps
                    # it alive) - under either name
                    src = val.a[0]
                    names_ = (src, var)
                    stored2 = lambda n: any(
                        len(c.a[1]) == 3 and any(is_var(c.a[1][2], x) for x in names_)
                        for c in node_calls(n, 'PyDict_SetItem'))
                    dropped2 = lambda n: any(
                        any(is_var(c.a[1][0], x) for x in names_)
                        for c in node_calls(n, 'Py_DECREF'))
                    srcdefs = [(d2, v2) for d2, v2 in c_reaching(g, d, src)]
                    fresh = bool(srcdefs) and all(
                        v2 is not None and v2.k == 'call' and v2.a[0] in NEW
                        for d2, v2 in srcdefs)
                    # the store may precede the aliasing assignment (it is tested there)
                    was_stored = fresh and all(
                        g.must_pass_after(d2, lambda n: stored2(n) or n is d, target=r) and
                        any(stored2(n) for n in g.nodes)
                        for d2, v2 in srcdefs)
                    if fresh and was_stored and g.must_pass_after(d, dropped2, target=r):
                        kinds.add('borrowed')
                    else:
                        kinds.add('new')
                else:
                    kinds.add('new')
        if not kinds:
            return 'new'
        if kinds == {'borrowed'}:
            return 'borrowed'
        if 'borrowed' in kinds:
            return 'mixed'
        return 'new'


def volatile_fields(unit, tables=('LB_methods', 'VB_methods')):
    """struct fields that a function callable from Python stores or clears."""
    reach = set()
    todo = []
    for t in tables:
        for name, fn, _ in unit.method_table(t):
            if fn:
                todo.append(fn)
    while todo:
        fn = todo.pop()
        if fn in reach or fn not in unit.funcs:
            continue
        reach.add(fn)
        for n in ccfg(unit.funcs[fn]).nodes:
            for c in node_calls(n):
                if isinstance(c.a[0], str) and c.a[0] in unit.funcs:
                    todo.append(c.a[0])
    vol = set()
    for fn in reach:
        for n in ccfg(unit.funcs[fn]).nodes:
            if n.e is None:
                continue
            for x in n.e.walk():
                if x.k == 'call' and x.a[0] == 'Py_CLEAR' and x.a[1] and \
                        x.a[1][0].k == 'field':
                    vol.add(x.a[1][0].a[1])
                if x.k == 'assign' and x.a[1] is not None and x.a[1].k == 'field' \
                        and is_var(x.a[1].a[0], 'self'):
                    vol.add(x.a[1].a[1])
    return vol, reach


def mentions(e, var):
    return any(x.k == 'var' and x.a[0] == var for x in e.walk()) if e is not None else False


def uses_of(node, var):
    """expressions at CFG node that *use* (dereference / pass on) var;
    comparisons with NULL / Py_None and plain (re)assignment targets are not
    uses."""
    out = []
    e = node.e
    if e is None:
        return out
    for x in e.walk():
        if x.k == 'var' and x.a[0] == var:
            p = x.parent
            if p is not None and p.k == 'assign' and p.a[1] is x:
                continue
            if p is not None and p.k == 'decl':
                continue
            if p is not None and p.k == 'bin' and p.a[0] in ('==', '!=') and \
                    (p.a[1].k in ('null',) or p.a[2].k in ('null',) or
                     is_var(p.a[1], 'Py_None') or is_var(p.a[2], 'Py_None')):
                continue
            if node.kind == 'test' and p is None:
                continue            # `if (x)` truth test of the pointer
            if p is not None and p.k == 'addr':
                continue
            out.append(x)
    return out


class Borrow:
    def __init__(self, unit, summ, vol):
        self.u, self.s, self.vol = unit, summ, vol

    def is_volatile_expr(self, e, vvars):
        """expression denotes (a borrowed pointer into) volatile state"""
        if e is None:
            return False
        if e.k == 'field' and e.a[1] in self.vol:
            return True
        if e.k == 'var' and e.a[0] in vvars:
            return True
        return False

    def borrowed_volatile_def(self, val, vvars):
        """value expression yields a borrowed reference out of volatile state"""
        if val is not None and val.k == 'field' and val.a[1] in self.vol:
            return True         # plain read of a volatile field
        if val is None or val.k != 'call':
            return False
        name = val.a[0]
        args = val.a[1]
        if name in BORROWED and args and self.is_volatile_expr(args[0], vvars):
            return True
        if name in self.u.funcs and self.s.returns.get(name) == 'borrowed':
            # helper returning a borrowed pointer: out of its container
            # argument, or out of a volatile field of self
            if any(self.is_volatile_expr(a, vvars) for a in args):
                return True
            f = self.u.funcs[name]
            for n in ccfg(f).nodes:
                if n.e is not None and any(
                        x.k == 'field' and x.a[1] in self.vol for x in n.e.walk()):
                    return True
        return False

    def analyse(self, fname):
        f = self.u.func(fname)
        g = ccfg(f)
        findings = []
        # volatile-borrowed locals: fixpoint over definitions
        vvars = set()
        defs = {}
        changed = True
        while changed:
            changed = False
            for n in g.nodes:
                for var, val in c_assigned(n).items():
                    if self.borrowed_volatile_def(val, vvars):
                        defs.setdefault(var, []).append(n)
                        if var not in vvars:
                            vvars.add(var)
                            changed = True
        for var in vvars:
            dnodes = list({d.id: d for d in defs[var]}.values())
            for d in dnodes:
                # protected once INCREF'd; killed by redefinition
                srcval = c_assigned(d).get(var)
                srcfield = show(srcval) if srcval is not None and srcval.k in ('field', 'deref') \
                    else None

                def stop(n, var=var, d=d, srcfield=srcfield):
                    if n is d:
                        return False
                    if var in c_assigned(n):
                        return True
                    for c in node_calls(n, 'Py_INCREF') + node_calls(n, 'Py_XINCREF'):
                        if is_var(c.a[1][0], var):
                            return True
                    if srcfield is not None and n.e is not None:
                        # `x = self->f; self->f = NULL;`: x owns what the field held
                        for x in n.e.walk():
                            if x.k == 'assign' and x.a[0] == '=' and x.a[1] is not None and \
                                    show(x.a[1]) == srcfield and x.a[2] is not None and \
                                    x.a[2].k == 'null':
                                return True
                    return False
                def null_edge(n, lab, m, var=var):
                    # leaving a test along the edge on which `var` is NULL: the
                    # pointer is not dangling there, it is absent
                    if n.kind != 'test' or n.e is None or lab not in ('T', 'F'):
                        return False
                    t, truth = n.e, lab == 'T'
                    while t.k == 'un' and t.a[0] == '!':
                        t, truth = t.a[1], not truth
                    if t.k == 'var' and t.a[0] == var:
                        return not truth
                    if t.k == 'bin' and t.a[0] in ('==', '!=') and is_var(t.a[1], var) \
                            and t.a[2] is not None and t.a[2].k == 'null':
                        return truth if t.a[0] == '==' else not truth
                    return False

                def reach_incl(start):
                    inner = g.reach(start, avoid=stop, skip_edge=null_edge)
                    out = set(inner)
                    for n in g.nodes:
                        if n.id in inner or n is start:
                            for m, lab in n.succ:
                                out.add(m.id)
                    return out
                reach1 = g.reach(d, avoid=stop, skip_edge=null_edge)
                for cnode in g.nodes:
                    if cnode.id not in reach1:
                        continue
                    cb = self.callbacks(cnode, exclude_var=None)
                    if not cb:
                        continue
                    tier1 = [c for c, tier in cb if tier == 1]
                    tier2 = [c for c, tier in cb if tier == 2]
                    reach2 = reach_incl(cnode)
                    # use in the callback node itself (passed to the callee)
                    for c, tier in cb:
                        if any(mentions(a, var) for a in c.a[1]) and tier == 1:
                            if isinstance(c.a[0], str) and c.a[0] in self.u.funcs and all(
                                    self.callee_owns(c.a[0], j) for j, a in enumerate(c.a[1])
                                    if mentions(a, var)):
                                continue
                            findings.append(dict(
                                kind='passed-to-callback', fn=fname, var=var,
                                tier=1, defined=show(d.e), line=cnode.line,
                                callback=show(c)[:90], use=show(c)[:90]))
                    for un in g.nodes:
                        if un.id not in reach2 or un is cnode:
                            continue
                        us = uses_of(un, var)
                        if not us:
                            continue
                        tier = 1 if tier1 else 2
                        c = (tier1 or tier2)[0]
                        findings.append(dict(
                            kind='use-after-callback', fn=fname, var=var, tier=tier,
                            defined=show(d.e), line=un.line,
                            callback=show(c)[:90], use=show(un.e)[:90]))
        # volatile fields passed directly to callees that run Python
        for n in g.nodes:
            for c in node_calls(n):
                name = c.a[0]
                if not isinstance(name, str):
                    continue
                if name in DECREFS or name in ('Py_VISIT', 'ASSURE_DICT',
                                               'Py_INCREF', 'Py_XINCREF'):
                    continue
                for a in c.a[1]:
                    if a is not None and a.k == 'field' and a.a[1] in self.vol \
                            and is_var(a.a[0], 'self'):
                        if self.s.may_run_python(name, strict=False):
                            findings.append(dict(
                                kind='field-passed-to-callback', fn=fname,
                                var='self->' + a.a[1], tier=1,
                                defined='field read', line=n.line,
                                callback=show(c)[:90], use=show(c)[:90]))
        # dedupe by (kind, var, tier)
        uniq = {}
        for fd in findings:
            k = (fd['kind'], fd['var'], fd['tier'])
            uniq.setdefault(k, fd)
        return list(uniq.values()), sorted(vvars)

    def callee_owns(self, name, j):
        """the static function takes its own reference to parameter j before
        anything in it can run Python code (Py_INCREF(param) lies on every path
        from its entry to every may-run-Python call, DECREFs included)"""
        memo = self.__dict__.setdefault('_owns', {})
        if (name, j) in memo:
            return memo[(name, j)]
        f = self.u.funcs[name]
        params = [p for p, _t in f.params]
        ok = False
        if j < len(params):
            pn = params[j]
            g = ccfg(f)

            def inc(m):
                return any(c.a[1] and is_var(c.a[1][0], pn) for c in
                           node_calls(m, 'Py_INCREF') + node_calls(m, 'Py_XINCREF'))
            reach = set(g.reach(g.entry, avoid=inc)) | {g.entry.id}
            ok = any(inc(m) for m in g.nodes)
            for m in g.nodes:
                if m.id in reach and not inc(m) and self.callbacks(m):
                    # a callback (tier 1 or the hashing tier) before owning it
                    ok = False
        memo[(name, j)] = ok
        return ok

    # -- B8: hashing a key into a dictionary that is only borrowed ---------------
    def hashes_into_param(self):
        """{(function, param index)}: the static function hands that parameter
        to a key-hashing dictionary API (directly or through another such
        function) without owning it first (no Py_INCREF of the parameter that
        dominates the call)"""
        memo = getattr(self, '_hip', None)
        if memo is not None:
            return memo
        out = set()
        changed = True
        while changed:
            changed = False
            for fname, f in self.u.funcs.items():
                params = [p for p, _t in f.params]
                g = ccfg(f)
                for i, pn in enumerate(params):
                    if (fname, i) in out:
                        continue
                    for n in g.nodes:
                        hit = False
                        for c in node_calls(n):
                            name = c.a[0]
                            if not isinstance(name, str) or not c.a[1]:
                                continue
                            for j, a in enumerate(c.a[1]):
                                if not is_var(a, pn):
                                    continue
                                if (name in HASHES_KEY and j == 0) or (name, j) in out:
                                    hit = True
                        if not hit:
                            continue
                        # owned if every path from entry to n passes Py_INCREF(pn)
                        def inc(m, pn=pn):
                            return any(is_var(c.a[1][0], pn) for c in
                                       node_calls(m, 'Py_INCREF') + node_calls(m, 'Py_XINCREF')
                                       if c.a[1])
                        reach = g.reach(g.entry, avoid=inc)
                        if n.id in reach or n is g.entry:
                            out.add((fname, i))
                            changed = True
                            break
        self._hip = out
        return out

    def hash_into_borrowed(self, fname):
        """calls in fname that hash a key into a dictionary the function does
        not own: a volatile field of self, or a local still borrowed out of
        volatile state (no Py_INCREF since it was fetched)"""
        f = self.u.func(fname)
        g = ccfg(f)
        hip = self.hashes_into_param()
        fs, vvars = self.analyse(fname)
        # unprotected region per volatile-borrowed local (as in analyse)
        unprot = {}
        for var in vvars:
            ids = set()
            for d in g.nodes:
                if var in c_assigned(d) and self.borrowed_volatile_def(c_assigned(d)[var], set(vvars)):
                    def stop(n, var=var, d=d):
                        if n is d:
                            return False
                        if var in c_assigned(n):
                            return True
                        return any(is_var(c.a[1][0], var) for c in
                                   node_calls(n, 'Py_INCREF') + node_calls(n, 'Py_XINCREF') if c.a[1])
                    inner = set(g.reach(d, avoid=stop))
                    ids |= inner
                    # a node that rebinds the local still evaluates its right-hand
                    # side with the old, borrowed value (`cache = _subcache(cache, name)`)
                    for n in g.nodes:
                        if (n.id in inner or n is d) and True:
                            for m, lab in n.succ:
                                if var in c_assigned(m) and m is not d:
                                    ids.add(m.id)
            unprot[var] = ids
        out = []
        for n in g.nodes:
            for c in node_calls(n):
                name = c.a[0]
                if not isinstance(name, str) or not c.a[1]:
                    continue
                for j, a in enumerate(c.a[1]):
                    if not ((name in HASHES_KEY and j == 0) or (name, j) in hip):
                        continue
                    if a is None:
                        continue
                    if a.k == 'field' and a.a[1] in self.vol:
                        out.append(dict(fn=fname, dict_expr='self->' + a.a[1], call=show(c)[:90],
                                        line=n.line, how='volatile field passed unowned'))
                    elif a.k == 'var' and a.a[0] in vvars and n.id in unprot.get(a.a[0], ()):
                        out.append(dict(fn=fname, dict_expr='local', call=show(c)[:90], line=n.line,
                                        how='local `%s` borrowed out of the caches, not yet owned'
                                            % a.a[0]))
        uniq = {}
        for o in out:
            uniq.setdefault((o['fn'], o['dict_expr']), o)
        return list(uniq.values())

    def callbacks(self, node, exclude_var=None):
        out = []
        for c in node_calls(node):
            name = c.a[0]
            if not isinstance(name, str):
                out.append((c, 1))
                continue
            if name in RUNS_PYTHON:
                out.append((c, 1))
            elif name in DECREFS:
                out.append((c, 1))
            elif name in self.u.funcs and self.s.runs_python.get(name):
                out.append((c, 1))
            elif name in HASHES_KEY:
                out.append((c, 2))
        return out


# ---------------------------------------------------------------------------
# B2: ownership balance, path sensitive

class Balance:
    def __init__(self, unit, summ):
        self.u, self.s = unit, summ

    def call_kind(self, c):
        name = c.a[0]
        if not isinstance(name, str):
            return 'new'
        if name in NEW:
            return 'new'
        if name in BORROWED:
            return 'borrowed'
        if name in self.u.funcs:
            k = self.s.returns.get(name)
            t = self.u.funcs[name].ret
            if 'PyObject' not in t and 'PyTypeObject' not in t:
                return 'none'
            if name.startswith('_get_'):
                return 'borrowed'
            return 'borrowed' if k == 'borrowed' else 'new'
        return 'none'

    def analyse(self, fname, accepted=()):
        f = self.u.func(fname)
        g = ccfg(f)
        paths = g.paths()
        npaths = 0
        findings = {}
        ptr_locals = set()
        for n in g.nodes:
            if n.e is not None and n.e.k == 'decl' and '*' in n.e.a[1] and \
                    'char' not in n.e.a[1]:
                ptr_locals.add(n.e.a[0])
        params = [p for p, t in f.params if '*' in t]

        def note(kind, var, path, node, extra=''):
            k = (kind, var)
            if k in findings:
                return
            findings[k] = dict(kind=kind, fn=fname, var=var, line=node.line,
                               at=show(node.e)[:90], extra=extra,
                               path=[show(n.e)[:60] + ((' [%s]' % l) if l else '')
                                     for n, l in path if n.e is not None][-14:])

        for path in paths:
            st = {}       # var -> 'owned' | 'borrowed' | 'null' | 'released' | 'moved'
            unchecked = {}   # var -> node where a NEW result was bound, untested
            none_alias = set()
            self.alias = {}
            self.falias = {}
            self.held = set()
            self.params = set(params)
            self.rebound = set()
            self.ints = {}
            self.nonnull = set()
            own = {f.params[k][0] for k in self.s.consumes.get(fname, set())
                   if k < len(f.params)}
            for p in params:
                st[p] = 'owned' if p in own else 'borrowed'
            if not self._feasible(path):
                continue
            npaths += 1
            for i, (n, lab) in enumerate(path):
                e = n.e
                if e is None:
                    continue
                if n.kind == 'test':
                    if any(x.k in ('call', 'assign') for x in e.walk()):
                        self._effects(e, st, unchecked, none_alias, note, path[:i + 1], n,
                                      fname, accepted)
                    self._test(e, lab, st, unchecked, none_alias)
                    # dereference of an unchecked NEW result inside the test
                    continue
                if e.k == 'loophead':
                    continue
                # uses after release / of unchecked results
                for x in e.walk():
                    if x.k == 'call':
                        nm = x.a[0]
                        for ai, a in enumerate(x.a[1]):
                            if a is not None and a.k == 'var':
                                v = a.a[0]
                                if st.get(v) == 'released' and nm not in (
                                        'Py_XDECREF',) and (fname, v) not in accepted:
                                    note('use-after-release', v, path[:i + 1], n)
                                if v in unchecked and nm not in (
                                        'Py_XDECREF', 'Py_XINCREF'):
                                    note('unchecked-new-result', v, path[:i + 1], n,
                                         'result of %s used without a NULL test'
                                         % show(unchecked[v].e)[:60])
                                    unchecked.pop(v, None)
                self._effects(e, st, unchecked, none_alias, note, path[:i + 1], n,
                              fname, accepted)
                if e.k == 'return':
                    v = e.a[0]
                    retvars = []
                    if v is not None and v.k == 'var':
                        retvars = [v.a[0]]
                    elif v is not None and v.k == 'cond':
                        retvars = [x.a[0] for x in (v.a[1], v.a[2])
                                   if x is not None and x.k == 'var']
                    for retvar in retvars:
                        s = st.get(retvar)
                        src = self.alias.get(retvar)
                        if s == 'borrowed' and src and st.get(src) == 'owned':
                            st[src] = 'moved'
                            s = 'moved'
                        if s == 'owned':
                            st[retvar] = 'moved'
                        elif s == 'released' and (fname, retvar) not in accepted:
                            note('return-after-release', retvar, path[:i + 1], n)
                        elif s == 'borrowed' and retvar not in (
                                'Py_None', 'Py_True', 'Py_False') and \
                                self.s.returns.get(fname) != 'borrowed' and \
                                'PyObject' in f.ret:
                            note('return-borrowed', retvar, path[:i + 1], n)
                    for var, s in st.items():
                        if s == 'owned':
                            note('leak', var, path[:i + 1], n,
                                 'owned reference not released on this exit')
        return list(findings.values()), npaths

    def _feasible(self, path):
        """False when the path contradicts itself on (a) an int local holding
        a known constant, or (b) the NULL-ness of a pointer local that was
        tested (or set to NULL / Py_CLEARed) and not rebound since."""
        ints, null = {}, {}
        for n, lab in path:
            e = n.e
            if e is None:
                continue
            if n.kind == 'test':
                if lab not in ('T', 'F'):
                    continue
                t, truth = e, lab == 'T'
                while t.k == 'un' and t.a[0] == '!':
                    t, truth = t.a[1], not truth
                if t.k == 'var' and t.a[0] in ints:
                    if (ints[t.a[0]] != 0) != truth:
                        return False
                    continue
                if t.k == 'bin' and t.a[0] in ('<', '>', '<=', '>=', '==', '!=') and \
                        t.a[1] is not None and t.a[1].k == 'var' and t.a[1].a[0] in ints \
                        and t.a[2] is not None and t.a[2].k in ('const', 'un'):
                    c = t.a[2]
                    val = None
                    if c.k == 'const' and isinstance(c.a[0], int):
                        val = c.a[0]
                    elif c.k == 'un' and c.a[0] == '-' and c.a[1].k == 'const':
                        val = -c.a[1].a[0]
                    if val is not None:
                        x = ints[t.a[1].a[0]]
                        r = {'<': x < val, '>': x > val, '<=': x <= val, '>=': x >= val,
                             '==': x == val, '!=': x != val}[t.a[0]]
                        if r != truth:
                            return False
                    continue
                var = None
                if t.k == 'var':
                    var, isnull = t.a[0], not truth
                elif t.k == 'bin' and t.a[0] in ('==', '!=') and t.a[1] is not None and \
                        t.a[1].k == 'var' and t.a[2] is not None and t.a[2].k == 'null':
                    var = t.a[1].a[0]
                    isnull = truth if t.a[0] == '==' else not truth
                if var is not None:
                    if var in null and null[var] != isnull:
                        return False
                    null[var] = isnull
                continue
            for var, val in c_assigned(n).items():
                ints.pop(var, None)
                null.pop(var, None)
                if val is not None and val.k == 'const' and isinstance(val.a[0], int):
                    ints[var] = val.a[0]
                elif val is not None and val.k == 'null':
                    null[var] = True
            for c in node_calls(n, 'Py_CLEAR'):
                if c.a[1] and c.a[1][0].k == 'var':
                    null[c.a[1][0].a[0]] = True
        return True

    def _test(self, e, lab, st, unchecked, none_alias):
        # normalise (x == NULL), (x != NULL), x, (x == Py_None)
        var = None
        isnull_when = None
        if e.k == 'var':
            var, isnull_when = e.a[0], 'F'
        elif e.k == 'bin' and e.a[0] in ('==', '!=') and e.a[1] is not None and \
                e.a[1].k == 'var' and e.a[2] is not None and e.a[2].k == 'null':
            var = e.a[1].a[0]
            isnull_when = 'T' if e.a[0] == '==' else 'F'
        elif e.k == 'bin' and e.a[0] in ('==', '!=') and e.a[1] is not None and \
                e.a[1].k == 'field' and e.a[2] is not None and e.a[2].k == 'null':
            return
        if var is not None:
            unchecked.pop(var, None)
            if lab == isnull_when:
                st[var] = 'null'
            return
        if e.k == 'bin' and e.a[0] in ('==', '!=') and is_var(e.a[2], 'Py_None') \
                and e.a[1].k == 'var':
            v = e.a[1].a[0]
            is_none = (lab == 'T') == (e.a[0] == '==')
            if is_none:
                # equal to Py_None: in particular not NULL
                unchecked.pop(v, None)
                none_alias.add(v)
            else:
                none_alias.discard(v)
        # status tests: `x < 0`, `x == -1` carry no ownership information

    def _effects(self, e, st, unchecked, none_alias, note, path, node, fname, accepted):
        for x in e.walk():
            if x.k == 'call':
                nm = x.a[0]
                args = x.a[1]
                if nm in ('Py_DECREF', 'Py_XDECREF', 'Py_CLEAR') and args:
                    a = args[0]
                    if a.k == 'var':
                        v = a.a[0]
                        if v == 'Py_None':
                            done = False
                            for w in list(none_alias):
                                if st.get(w) == 'owned':
                                    st[w] = 'released'
                                    done = True
                                    break
                            continue
                        s = st.get(v)
                        src = self.alias.get(v)
                        if s == 'owned' and nm == 'Py_CLEAR':
                            st[v] = 'null'         # released, and the local is NULL
                        elif s == 'owned' and v in self.held:
                            st[v] = 'borrowed'     # the container keeps it alive
                        elif s == 'owned':
                            st[v] = 'null' if nm == 'Py_CLEAR' else 'released'
                        elif s == 'borrowed' and src and st.get(src) == 'owned':
                            st[src] = 'released'
                            st[v] = 'released'
                        elif s == 'borrowed':
                            note('release-of-borrowed', v, path, node)
                        elif s == 'released' and (fname, v) not in accepted:
                            note('double-release', v, path, node)
                elif nm in ('Py_INCREF', 'Py_XINCREF') and args:
                    a = args[0]
                    if a.k == 'var':
                        v = a.a[0]
                        if v in ('Py_None', 'Py_True', 'Py_False', 'Py_NotImplemented'):
                            st[v] = 'owned'
                        elif st.get(v) in ('borrowed', None):
                            st[v] = 'owned'
                elif nm == 'PyDict_SetItem' and len(args) == 3 and args[2].k == 'var':
                    self.held.add(args[2].a[0])
                elif nm in getattr(self.s, 'consumes', {}):
                    for k in self.s.consumes[nm]:
                        if k < len(args) and args[k] is not None and args[k].k == 'var':
                            v = args[k].a[0]
                            if st.get(v) == 'owned':
                                st[v] = 'moved'
                            elif st.get(v) == 'borrowed' and self.alias.get(v) and \
                                    st.get(self.alias[v]) == 'owned':
                                st[self.alias[v]] = 'moved'
                elif nm in STEALS and len(args) > STEALS[nm]:
                    a = args[STEALS[nm]]
                    if a.k == 'var' and st.get(a.a[0]) == 'owned':
                        st[a.a[0]] = 'moved'
                elif nm == 'PyArg_ParseTupleAndKeywords' or nm == 'PyArg_ParseTuple':
                    for a in args:
                        if a is not None and a.k == 'addr' and a.a[0].k == 'var':
                            st[a.a[0].a[0]] = 'borrowed'
        # assignments (after the calls of the same statement)
        for x in e.walk():
            tgt = val = None
            if x.k == 'assign' and x.a[0] == '=':
                tgt, val = x.a[1], x.a[2]
                while val is not None and val.k == 'assign':
                    val = val.a[2]
            elif x.k == 'decl' and x.a[2] is not None:
                tgt, val = E('var', x.a[0]), x.a[2]
            if tgt is None:
                continue
            if tgt.k in ('field', 'deref'):
                if val is not None and val.k == 'var' and st.get(val.a[0]) == 'owned':
                    st[val.a[0]] = 'moved'
                if val is not None and val.k == 'null':
                    # `x = self->f; self->f = NULL;`: the local takes over the
                    # reference the field held (Py_CLEAR spelled by hand)
                    for w, src in list(getattr(self, 'falias', {}).items()):
                        if src == show(tgt) and st.get(w) == 'borrowed':
                            st[w] = 'owned'
                            self.falias.pop(w, None)
                continue
            if tgt.k != 'var':
                continue
            v = tgt.a[0]
            if v in getattr(self, 'params', ()):
                self.rebound.add(v)
            if st.get(v) == 'owned' and not (val is not None and mentions(val, v)):
                heirs = [w for w, src in self.alias.items()
                         if src == v and st.get(w) == 'borrowed']
                if heirs:
                    # another local still refers to the object: it carries the
                    # reference from here on (`unstored = result; result = NULL`)
                    st[heirs[0]] = 'owned'
                    self.alias.pop(heirs[0], None)
                else:
                    note('leak', v, path, node, 'owned reference overwritten')
            unchecked.pop(v, None)
            none_alias.discard(v)
            self.alias.pop(v, None)
            if val is None:
                st[v] = None
            elif val.k == 'null':
                st[v] = 'null'
            elif val.k == 'call':
                k = self.call_kind(val)
                if k == 'new':
                    st[v] = 'owned'
                    unchecked[v] = node
                    # the one co-ownership idiom (DESIGN C11): the __self__ of a
                    # super object that is itself a parameter (kept alive by the
                    # caller for the whole call; super.__self__ is read-only), so
                    # releasing our own reference leaves a valid borrowed one
                    if val.a[0] == 'PyObject_GetAttr' and len(val.a[1]) == 2 and \
                            val.a[1][0] is not None and val.a[1][0].k == 'var' and \
                            val.a[1][0].a[0] in self.params and \
                            show(val.a[1][1]) == 'str__self__' and \
                            val.a[1][0].a[0] not in self.rebound:
                        self.held.add(v)
                elif k == 'borrowed':
                    st[v] = 'borrowed'
                else:
                    st[v] = None
            elif val.k == 'var':
                if val.a[0] in ('Py_None', 'Py_True', 'Py_False', 'Py_NotImplemented'):
                    if st.get(val.a[0]) == 'owned':
                        st[val.a[0]] = None
                        st[v] = 'owned'
                        if val.a[0] == 'Py_None':
                            none_alias.add(v)
                    else:
                        st[v] = 'borrowed'
                elif st.get(val.a[0]) == 'released':
                    st[v] = 'released'
                else:
                    st[v] = 'borrowed'
                    self.alias[v] = val.a[0]
            elif val.k == 'cond':
                st[v] = 'borrowed'
            else:
                st[v] = 'borrowed'
                if val.k in ('field', 'deref'):
                    if not hasattr(self, 'falias'):
                        self.falias = {}
                    self.falias[v] = show(val)
