"""Python front end: lookups of definitions, a small structural pattern
matcher with metavariables, evaluation-order traversal, class table / MRO.
"""
import ast
import re

from .core import AnalysisError, norm_src

FUNC = (ast.FunctionDef, ast.AsyncFunctionDef)


def clone(node):
    """Structural copy of an AST (fields and positions only; never follows
    the ``parent`` back links, unlike copy.deepcopy)."""
    if isinstance(node, ast.AST):
        new = node.__class__()
        for f in node._fields:
            if hasattr(node, f):
                setattr(new, f, clone(getattr(node, f)))
        for a in ('lineno', 'col_offset', 'end_lineno', 'end_col_offset'):
            if hasattr(node, a):
                setattr(new, a, getattr(node, a))
        return new
    if isinstance(node, list):
        return [clone(x) for x in node]
    return node


# ---------------------------------------------------------------------------
# definitions

def body_defs(body):
    for st in body:
        if isinstance(st, FUNC + (ast.ClassDef,)):
            yield st
        elif isinstance(st, (ast.If, ast.Try)):
            # definitions nested in module-level conditionals
            for sub in ast.iter_child_nodes(st):
                if isinstance(sub, FUNC + (ast.ClassDef,)):
                    yield sub


_inl_cache = {}


def _module_of(node):
    n = node
    while n is not None and not isinstance(n, ast.Module):
        n = getattr(n, 'parent', None)
    return n


def inlined(func):
    """The function with calls of NEW private helpers (not present in the
    reference tree) replaced by their bodies; see inline.py."""
    if not isinstance(func, FUNC):
        return func
    key = id(func)
    if key in _inl_cache:
        return _inl_cache[key]
    mod = _module_of(func)
    res = func
    if mod is not None and getattr(mod, 'relpath', None):
        from .inline import Inliner
        cls = getattr(func, 'parent', None)
        cls = cls if isinstance(cls, ast.ClassDef) else None
        inl = Inliner(mod, mod.relpath, cls)
        try:
            new = inl.inline_function(func)
            if inl.inlined:
                res = new
        except RecursionError:
            res = func
        from .normalize import normalize
        res = normalize(res)
        # normal forms can expose further helper calls (f(*map(helper, xs)) is
        # f(*[helper(x) for x in xs])): one more round
        if res is not func:
            try:
                if not hasattr(res, 'parent') or res.parent is None:
                    res.parent = getattr(func, 'parent', None)
                inl2 = Inliner(mod, mod.relpath, cls)
                new2 = inl2.inline_function(res)
                if inl2.inlined:
                    new2.inlined_helpers = list(getattr(res, 'inlined_helpers', [])) + \
                        list(inl2.inlined)
                    res = normalize(new2)
                    if not hasattr(res, 'inlined_helpers'):
                        res.inlined_helpers = new2.inlined_helpers
            except RecursionError:
                pass
    _inl_cache[key] = res
    _inl_cache[id(res)] = res
    return res


def find_def(mod, qualname, required=True, raw=False):
    """``Class.method`` / ``func`` / ``Class`` -> def node (functions come
    with new private helpers inlined unless raw)."""
    node = _find_def_raw(mod, qualname, required)
    if node is not None and not raw:
        return inlined(node)
    return node


def _find_def_raw(mod, qualname, required=True):
    parts = qualname.split('.')
    scope = mod.body
    node = None
    for i, p in enumerate(parts):
        node = None
        for st in body_defs(scope):
            if st.name == p:
                node = st
        if node is None:
            if required:
                raise AnalysisError('anchor vanished: %s not found in %s'
                                    % (qualname, getattr(mod, 'relpath', '?')))
            return None
        scope = node.body
    return node


def class_attr_assign(cls, name):
    """Value node of a class-level ``name = value`` (last one), else None."""
    val = None
    for st in cls.body:
        if isinstance(st, ast.Assign):
            for t in st.targets:
                if isinstance(t, ast.Name) and t.id == name:
                    val = st.value
    return val


def property_accessors(cls, name):
    """{'get': func, 'set': func} of a class-level property `name`, whichever
    way it is spelled: name = property(g, s) with lambdas or method names, or
    @property / @name.setter methods.  Lambdas are wrapped into a synthetic
    function that returns their body."""
    out = {}

    def as_func(node, kind):
        if isinstance(node, ast.Lambda):
            f = ast.FunctionDef(name='%s_%s' % (name, kind), args=node.args,
                                body=[ast.Return(value=node.body)], decorator_list=[],
                                returns=None, type_comment=None, type_params=[])
            ast.copy_location(f, node)
            ast.fix_missing_locations(f)
            for parent in ast.walk(f):
                for child in ast.iter_child_nodes(parent):
                    child.parent = parent
            f.parent = cls
            return f
        if isinstance(node, ast.Name):
            for st in cls.body:
                if isinstance(st, FUNC) and st.name == node.id:
                    return inlined(st)
        return None
    v = class_attr_assign(cls, name)
    if isinstance(v, ast.Call) and isinstance(v.func, ast.Name) and v.func.id == 'property':
        args = list(v.args)
        kw = {k.arg: k.value for k in v.keywords}
        g = args[0] if args else kw.get('fget')
        s_ = args[1] if len(args) > 1 else kw.get('fset')
        if g is not None:
            out['get'] = as_func(g, 'get')
        if s_ is not None:
            out['set'] = as_func(s_, 'set')
    for st in cls.body:
        if isinstance(st, FUNC) and st.name == name:
            for d in st.decorator_list:
                if isinstance(d, ast.Name) and d.id == 'property':
                    out['get'] = inlined(st)
                elif isinstance(d, ast.Attribute) and isinstance(d.value, ast.Name) and \
                        d.value.id == name and d.attr in ('setter', 'getter'):
                    out['set' if d.attr == 'setter' else 'get'] = inlined(st)
    return {k: f for k, f in out.items() if f is not None}


def methods_of(cls, raw=False):
    if raw:
        return {st.name: st for st in cls.body if isinstance(st, FUNC)}
    return {st.name: inlined(st) for st in cls.body if isinstance(st, FUNC)}


def enclosing_func(node):
    n = getattr(node, 'parent', None)
    while n is not None and not isinstance(n, FUNC + (ast.Lambda,)):
        n = getattr(n, 'parent', None)
    return n


def qualname(node):
    parts = []
    n = node
    while n is not None:
        if isinstance(n, FUNC + (ast.ClassDef,)):
            parts.append(n.name)
        n = getattr(n, 'parent', None)
    return '.'.join(reversed(parts))


# ---------------------------------------------------------------------------
# traversal

def walk_local(node, into_lambdas=True):
    """Like ast.walk but does not descend into nested def/class bodies."""
    todo = [node]
    first = True
    while todo:
        n = todo.pop()
        if not first and isinstance(n, FUNC + (ast.ClassDef,)):
            continue
        if not first and not into_lambdas and isinstance(n, ast.Lambda):
            continue
        first = False
        yield n
        todo.extend(reversed(list(ast.iter_child_nodes(n))))


def eval_order(node):
    """Yield the sub-expressions of ``node`` in (approximate) evaluation
    order, children before parents (so a Call is yielded after its args)."""
    if isinstance(node, FUNC + (ast.ClassDef, ast.Lambda)):
        return
    if isinstance(node, ast.Assign):
        yield from eval_order(node.value)
        for t in node.targets:
            yield from eval_order(t)
        yield node
        return
    if isinstance(node, ast.AugAssign):
        yield from eval_order(node.target)
        yield from eval_order(node.value)
        yield node
        return
    for child in ast.iter_child_nodes(node):
        yield from eval_order(child)
    yield node


def calls_in(node):
    return [n for n in eval_order(node) if isinstance(n, ast.Call)]


def dotted(node):
    """``a.b.c`` -> 'a.b.c'; calls/subscripts inside give None."""
    if isinstance(node, ast.Name):
        return node.id
    if isinstance(node, ast.Attribute):
        b = dotted(node.value)
        return None if b is None else b + '.' + node.attr
    return None


def call_name(call):
    return dotted(call.func) if isinstance(call, ast.Call) else None


def is_const(node, value):
    return isinstance(node, ast.Constant) and node.value == value and \
        type(node.value) is type(value)


def names_in(node):
    return {n.id for n in ast.walk(node) if isinstance(n, ast.Name)}


def strip_wrappers(expr):
    """Strip tuple()/list()/iter() wrappers."""
    while (isinstance(expr, ast.Call) and isinstance(expr.func, ast.Name)
           and expr.func.id in ('tuple', 'list', 'iter')
           and len(expr.args) == 1 and not expr.keywords):
        expr = expr.args[0]
    return expr


# ---------------------------------------------------------------------------
# pattern matching with metavariables
#
# pattern source uses $x for an expression metavariable, $_ for anonymous,
# $$xs inside a call's argument list / a tuple for "any sequence".

_MV = re.compile(r'\$\$?[A-Za-z_][A-Za-z_0-9]*')


def _prep(src):
    def sub(m):
        s = m.group(0)
        if s.startswith('$$'):
            return '__mvs_%s__' % s[2:]
        return '__mv_%s__' % s[1:]
    return _MV.sub(sub, src)


_pat_cache = {}


def pat(src, mode='eval'):
    key = (src, mode)
    if key not in _pat_cache:
        tree = ast.parse(_prep(src), mode='eval' if mode == 'eval' else 'exec')
        node = tree.body if mode == 'eval' else tree.body[0]
        _pat_cache[key] = node
    return _pat_cache[key]


def _mvname(node):
    if isinstance(node, ast.Name):
        m = re.match(r'__mv_(.*)__$', node.id)
        if m:
            return m.group(1)
    return None


def _mvsname(node):
    if isinstance(node, ast.Starred):
        node = node.value
    if isinstance(node, ast.Name):
        m = re.match(r'__mvs_(.*)__$', node.id)
        if m:
            return m.group(1)
    return None


def same(a, b):
    """Structural equality of two AST nodes (ignoring positions/ctx)."""
    if type(a) is not type(b):
        return False
    if isinstance(a, ast.AST):
        for f in a._fields:
            if f == 'ctx':
                continue
            if not same(getattr(a, f, None), getattr(b, f, None)):
                return False
        return True
    if isinstance(a, list):
        return len(a) == len(b) and all(same(x, y) for x, y in zip(a, b))
    return a == b


def _match_list(ps, ns, env):
    if not ps:
        return not ns
    p0 = ps[0]
    sv = _mvsname(p0)
    if sv is not None:
        for k in range(len(ns), -1, -1):
            e2 = dict(env)
            if sv != '_':
                if sv in e2:
                    if not same(e2[sv], ns[:k]):
                        continue
                else:
                    e2[sv] = ns[:k]
            if _match_list(ps[1:], ns[k:], e2):
                env.clear()
                env.update(e2)
                return True
        return False
    if not ns:
        return False
    e2 = dict(env)
    if _match(p0, ns[0], e2) and _match_list(ps[1:], ns[1:], e2):
        env.clear()
        env.update(e2)
        return True
    return False


def _match(p, n, env):
    mv = _mvname(p) if isinstance(p, ast.AST) else None
    if mv is not None:
        if not isinstance(n, ast.AST):
            return False
        if mv == '_':
            return True
        if mv in env:
            return same(env[mv], n)
        env[mv] = n
        return True
    if isinstance(p, ast.Expr) and isinstance(n, ast.Expr):
        return _match(p.value, n.value, env)
    if type(p) is not type(n):
        return False
    if isinstance(p, ast.Call) and p.args and _mvsname(p.args[-1]) is not None \
            and not p.keywords:
        # f($$a): the sequence metavariable also absorbs keyword arguments
        if not _match(p.func, n.func, env):
            return False
        return _match_list(p.args, n.args, env)
    if isinstance(p, ast.AST):
        for f in p._fields:
            if f in ('ctx', 'type_comment', 'kind'):
                continue
            if not _match(getattr(p, f, None), getattr(n, f, None), env):
                return False
        return True
    if isinstance(p, list):
        return _match_list(p, n, env)
    return p == n


def match(pattern, node, mode=None):
    """Match ``node`` against a pattern (source string or prepared node).
    Returns the binding dict or None."""
    if isinstance(pattern, str):
        if mode is None:
            mode = 'exec' if isinstance(node, ast.stmt) else 'eval'
        pattern = pat(pattern, mode)
    env = {}
    if _match(pattern, node, env):
        return env
    return None


def find_all(root, pattern, mode='eval', local=True):
    """All nodes under ``root`` matching pattern -> list of (node, env)."""
    p = pat(pattern, mode) if isinstance(pattern, str) else pattern
    out = []
    it = walk_local(root) if local else ast.walk(root)
    for n in it:
        if mode == 'eval' and not isinstance(n, ast.expr):
            continue
        if mode == 'exec' and not isinstance(n, ast.stmt):
            continue
        env = {}
        if _match(p, n, env):
            out.append((n, env))
    out.sort(key=lambda t: (getattr(t[0], 'lineno', 0),
                            getattr(t[0], 'col_offset', 0)))
    return out


def has(root, pattern, mode='eval'):
    return bool(find_all(root, pattern, mode))


# ---------------------------------------------------------------------------
# class table and MRO (package classes only)

class ClassTable:
    def __init__(self, repo, rels):
        self.repo = repo
        self.classes = {}     # name -> (rel, node)   (last definition wins)
        self.aliases = {}     # alias name -> class name (FooPy/FooFallback)
        for rel in rels:
            mod = repo.module(rel)
            for st in body_defs(mod.body):
                if isinstance(st, ast.ClassDef):
                    self.classes[st.name] = (rel, st)
                    for d in st.decorator_list:
                        if dotted(d) == '_use_c_impl':
                            self.aliases[st.name + 'Py'] = st.name
                            self.aliases[st.name + 'Fallback'] = st.name
            # InterfaceClass is built by a metaclass call with literal bases
        self.synthetic_bases = {}

    def resolve(self, name):
        return self.aliases.get(name, name)

    def node(self, name):
        name = self.resolve(name)
        if name not in self.classes:
            return None
        return self.classes[name][1]

    def bases(self, name):
        name = self.resolve(name)
        if name in self.synthetic_bases:
            return list(self.synthetic_bases[name])
        n = self.node(name)
        if n is None:
            return []
        out = []
        for b in n.bases:
            d = dotted(b)
            if d is None:
                continue
            out.append(self.resolve(d.split('.')[-1]))
        return out

    def mro(self, name):
        name = self.resolve(name)
        seqs = []
        bs = [b for b in self.bases(name)]
        for b in bs:
            seqs.append(self.mro(b))
        seqs.append(list(bs))
        res = [name]
        seqs = [list(s) for s in seqs if s]
        while seqs:
            for s in seqs:
                cand = s[0]
                if not any(cand in t[1:] for t in seqs):
                    break
            else:
                raise AnalysisError('inconsistent MRO for %s' % name)
            res.append(cand)
            seqs = [[x for x in s if x != cand] for s in seqs]
            seqs = [s for s in seqs if s]
        return res

    def lookup_method(self, clsname, meth, after=None):
        """Resolve ``meth`` through the MRO of clsname (optionally after a
        given class, for super()).  Returns (classname, node|expr) or None."""
        mro = self.mro(clsname)
        if after is not None:
            after = self.resolve(after)
            if after in mro:
                mro = mro[mro.index(after) + 1:]
        for c in mro:
            n = self.node(c)
            if n is None:
                continue
            ms = methods_of(n)
            if meth in ms:
                return c, ms[meth]
            v = class_attr_assign(n, meth)
            if v is not None:
                return c, v
        return None

    def subclasses(self, name):
        name = self.resolve(name)
        return [c for c in self.classes if name in self.mro(c)]
