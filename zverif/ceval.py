"""Finite-case evaluator over the C CFG (ctab): the analyser walks a C
function's CFG under a *model* that answers every CPython API call; used to
enumerate decision tables of small C functions (rich comparison, descriptor
__get__, adaptation chain).  The C code is never compiled or executed."""
from .core import AnalysisError
from .cfront import ccfg, show


class Sym:
    __slots__ = ('name',)

    def __init__(self, name):
        self.name = name

    def __repr__(self):
        return self.name


class CReturn(Exception):
    def __init__(self, v):
        self.v = v


UNIT = [None]      # the translation unit being analysed (set by rules.cside.cu)


class Ref:
    """address of a caller's local passed to a new static helper"""
    __slots__ = ('env', 'name')

    def __init__(self, env, name):
        self.env, self.name = env, name


class CInterp:
    def __init__(self, model, max_steps=5000):
        self.model = model          # object with call(name, args, interp), field(base, name), glob(name)
        self.max_steps = max_steps
        self.trace = []

    def new_helper(self, name):
        """a static function that the reference tree does not have (code moved
        out of the evaluated function): evaluated like the code it came from"""
        from .inline import known_names
        from .cfront import C_REL
        u = UNIT[0]
        if u is None or not isinstance(name, str) or name not in u.funcs:
            return None
        if name in known_names(C_REL):
            return None
        return u.funcs[name]

    def run(self, func, args):
        g = ccfg(func)
        env = {}
        for (p, t), a in zip(func.params, args):
            env[p] = a
        node = g.entry
        steps = 0
        edge_taken = ''
        while True:
            steps += 1
            if steps > self.max_steps:
                raise AnalysisError('C evaluation of %s does not terminate' % func.name)
            if node is g.exit:
                return None
            if node.kind == 'entry' or node.e is None:
                node = node.succ[0][0]
                continue
            e = node.e
            if node.kind == 'test':
                if any(lab.startswith('case') or lab in ('default:', 'nomatch')
                       for m, lab in node.succ):
                    v = self.ev(e, env)
                    nxt = None
                    for m, lab in node.succ:
                        if lab.startswith('case '):
                            cv = int(lab[5:].rstrip(':').strip('()').replace('-(', '-').replace(')', ''))
                            if cv == v:
                                nxt = m
                    if nxt is None:
                        for m, lab in node.succ:
                            if lab in ('default:', 'nomatch'):
                                nxt = m
                    if nxt is None:
                        raise AnalysisError('switch without target in %s' % func.name)
                    node = nxt
                    continue
                v = self.truth(self.ev(e, env))
                want = 'T' if v else 'F'
                nxt = [m for m, lab in node.succ if lab == want]
                if not nxt:
                    raise AnalysisError('no %s edge at %s' % (want, show(e)))
                node = nxt[0]
                continue
            k = e.k
            try:
                if k == 'return':
                    return self.ev(e.a[0], env) if e.a[0] is not None else None
                if k == 'decl':
                    env[e.a[0]] = self.ev(e.a[2], env) if e.a[2] is not None else None
                elif k in ('expr',):
                    self.ev(e.a[0], env)
                elif k in ('loophead', 'label', 'case', 'default', 'break', 'goto',
                           'continue'):
                    pass
                else:
                    self.ev(e, env)
            except CReturn as r:
                return r.v
            node = node.succ[0][0]

    def truth(self, v):
        if v is None:
            return False
        if isinstance(v, (int, bool)):
            return v != 0
        return True

    def ev(self, e, env):
        if e is None:
            return None
        k = e.k
        if k == 'var':
            if e.a[0] in env:
                return env[e.a[0]]
            return self.model.glob(e.a[0])
        if k == 'null':
            return None
        if k == 'const':
            return e.a[0]
        if k == 'str':
            return e.a[0]
        if k == 'field':
            return self.model.field(self.ev(e.a[0], env), e.a[1])
        if k == 'call':
            name = e.a[0]
            h = self.new_helper(name)
            if h is not None:
                args = []
                for a in e.a[1]:
                    if a is not None and a.k == 'addr' and a.a[0] is not None \
                            and a.a[0].k == 'var':
                        args.append(Ref(env, a.a[0].a[0]))
                    else:
                        args.append(self.ev(a, env))
                return self.run(h, args)
            if name == 'Py_CLEAR' and len(e.a[1]) == 1 and e.a[1][0] is not None and \
                    e.a[1][0].k == 'var' and e.a[1][0].a[0] in env:
                # releases the reference and leaves the local NULL
                env[e.a[1][0].a[0]] = None
                return None
            args = [self.ev(a, env) if a is not None and a.k != 'addr' else a
                    for a in e.a[1]]
            self.trace.append(name if isinstance(name, str) else show(name))
            return self.model.call(name, args, self, env)
        if k == 'deref':
            v = self.ev(e.a[0], env)
            if isinstance(v, Ref):
                return v.env.get(v.name)
            raise AnalysisError('unsupported C dereference %s' % show(e))
        if k == 'assign':
            v = self.ev(e.a[2], env)
            t = e.a[1]
            if t.k == 'var':
                env[t.a[0]] = v
            elif t.k == 'deref' and isinstance(self.ev(t.a[0], env), Ref):
                r = self.ev(t.a[0], env)
                r.env[r.name] = v
            elif t.k == 'field':
                self.model.setfield(self.ev(t.a[0], env), t.a[1], v)
            else:
                raise AnalysisError('unsupported C assignment target %s' % show(t))
            return v
        if k == 'bin':
            op = e.a[0]
            if op == '&&':
                a = self.ev(e.a[1], env)
                return self.truth(a) and self.truth(self.ev(e.a[2], env))
            if op == '||':
                a = self.ev(e.a[1], env)
                return self.truth(a) or self.truth(self.ev(e.a[2], env))
            a, b = self.ev(e.a[1], env), self.ev(e.a[2], env)
            if op == '==':
                return self.same(a, b)
            if op == '!=':
                return not self.same(a, b)
            if op == ',':
                return b
            if isinstance(a, int) and isinstance(b, int):
                return {'<': a < b, '>': a > b, '<=': a <= b, '>=': a >= b,
                        '+': a + b, '-': a - b, '|': a | b, '&': a & b}[op]
            raise AnalysisError('unsupported C operator in %s' % show(e))
        if k == 'un':
            v = self.ev(e.a[1], env)
            if e.a[0] == '!':
                return not self.truth(v)
            if e.a[0] == '-':
                return -v
            if e.a[0].startswith('++') or e.a[0].startswith('--'):
                d = 1 if e.a[0].startswith('++') else -1
                if e.a[1].k == 'var':
                    env[e.a[1].a[0]] = v + d
                return v if e.a[0].endswith('post') else v + d
            raise AnalysisError('unsupported C unary %s' % show(e))
        if k == 'cond':
            return self.ev(e.a[1] if self.truth(self.ev(e.a[0], env)) else e.a[2], env)
        if k == 'addr':
            return ('addr', e.a[0])
        if k == 'initlist':
            return [self.ev(x, env) for x in e.a[0]]
        raise AnalysisError('construct outside the C evaluator: %s' % show(e)[:80])

    def same(self, a, b):
        if a is None or b is None:
            return a is None and b is None
        if isinstance(a, int) and isinstance(b, int) and \
                not isinstance(a, bool) and not isinstance(b, bool):
            return a == b
        return a is b
