"""Finite-case evaluator.

A tiny interpreter for the statement/expression subset used by the package's
small decision functions (``_incompat``, ``_compare`` and the rich comparison
methods, descriptor ``__get__``s ...).  It is the *analyser* that evaluates
the AST over representative values of a finite abstract domain; the
repository's code is never imported or run.  The representative values are
``Opaque`` objects: the interpreter only lets the code compare them (ordering,
equality, identity, truthiness where declared) so that enumerating one
representative per ordering class is exhaustive.  Any construct outside the
subset, or any other use of an opaque value, is an AnalysisError (the rule
cannot be decided) - never a pass.
"""
import ast

from .core import AnalysisError, norm_src


class Raised(Exception):
    """The evaluated code raised (exc_name, args)."""

    def __init__(self, name, args=()):
        Exception.__init__(self, name)
        self.name = name
        self.args_ = args


class Opaque:
    """A value the code may only compare.  ``key`` orders it, ``ident``
    decides identity, ``truth`` (None = not allowed) its truthiness."""
    __slots__ = ('key', 'ident', 'truth', 'attrs', 'label')

    def __init__(self, key, ident=None, truth=None, attrs=None, label=''):
        self.key = key
        self.ident = ident if ident is not None else object()
        self.truth = truth
        self.attrs = attrs      # dict name -> value, or None (no attribute access)
        self.label = label or repr(key)

    def __repr__(self):
        return '<%s>' % self.label


class Sized:
    """A sequence of which only the length may be observed."""
    __slots__ = ('n', 'label')

    def __init__(self, n, label=''):
        self.n = n
        self.label = label

    def __repr__(self):
        return '<%s len=%d>' % (self.label, self.n)


NOTIMPL = NotImplemented


class Interp:
    def __init__(self, hooks=None, functions=None, max_steps=10000):
        self.hooks = hooks or {}
        self.functions = functions or {}    # name -> ast.FunctionDef (callable)
        self.steps = 0
        self.max_steps = max_steps
        self.atoms = set()                  # what the code compared (for evidence)
        self._stack = []

    # -- values ---------------------------------------------------------------
    def truth(self, v, node=None):
        if isinstance(v, Opaque):
            if v.truth is None:
                raise AnalysisError('truthiness of opaque value %r used in `%s`'
                                    % (v, norm_src(node)))
            return v.truth
        if isinstance(v, Sized):
            return v.n > 0
        if v is NOTIMPL:
            return True
        return bool(v)

    def cmpkey(self, v):
        if isinstance(v, Opaque):
            return v.key
        if isinstance(v, tuple):
            return tuple(self.cmpkey(x) for x in v)
        if isinstance(v, (int, str, bool)) or v is None:
            return v
        raise AnalysisError('cannot order value %r' % (v,))

    def compare(self, op, a, b, node):
        self.atoms.add(norm_src(node))
        if isinstance(op, (ast.Is, ast.IsNot)):
            ia = a.ident if isinstance(a, Opaque) else a
            ib = b.ident if isinstance(b, Opaque) else b
            same = ia is ib
            return same if isinstance(op, ast.Is) else not same
        if isinstance(op, (ast.In, ast.NotIn)):
            if isinstance(b, (tuple, list, dict, set)):
                r = any(self.compare(ast.Eq(), a, x, node) for x in b)
                return r if isinstance(op, ast.In) else not r
            raise AnalysisError('unsupported membership test `%s`' % norm_src(node))
        if isinstance(a, Sized) or isinstance(b, Sized):
            raise AnalysisError('sequence compared directly in `%s`' % norm_src(node))
        ka, kb = self.cmpkey(a), self.cmpkey(b)
        if isinstance(op, ast.Eq):
            return ka == kb
        if isinstance(op, ast.NotEq):
            return ka != kb
        try:
            if isinstance(op, ast.Lt):
                return ka < kb
            if isinstance(op, ast.LtE):
                return ka <= kb
            if isinstance(op, ast.Gt):
                return ka > kb
            if isinstance(op, ast.GtE):
                return ka >= kb
        except TypeError:
            raise Raised('TypeError')
        raise AnalysisError('unsupported comparison `%s`' % norm_src(node))

    # -- expressions ------------------------------------------------------------
    def ev(self, n, env):
        self.steps += 1
        if self.steps > self.max_steps:
            raise AnalysisError('evaluation does not terminate')
        if isinstance(n, ast.Constant):
            return n.value
        if isinstance(n, ast.Name):
            if n.id in env:
                return env[n.id]
            if n.id in ('None', 'True', 'False'):
                return {'None': None, 'True': True, 'False': False}[n.id]
            if n.id == 'NotImplemented':
                return NOTIMPL
            h = self.hooks.get('name')
            if h is not None:
                return h(n.id)
            raise AnalysisError('unbound name %s' % n.id)
        if isinstance(n, ast.Tuple):
            return tuple(self.ev(e, env) for e in n.elts)
        if isinstance(n, ast.List):
            return [self.ev(e, env) for e in n.elts]
        if isinstance(n, ast.BoolOp):
            v = None
            for e in n.values:
                v = self.ev(e, env)
                t = self.truth(v, e)
                if isinstance(n.op, ast.And) and not t:
                    return v
                if isinstance(n.op, ast.Or) and t:
                    return v
            return v
        if isinstance(n, ast.UnaryOp):
            if isinstance(n.op, ast.Not):
                return not self.truth(self.ev(n.operand, env), n.operand)
            if isinstance(n.op, ast.USub):
                v = self.ev(n.operand, env)
                if isinstance(v, (int, bool)):
                    return -v
            raise AnalysisError('unsupported unary op `%s`' % norm_src(n))
        if isinstance(n, ast.Compare):
            left = self.ev(n.left, env)
            for op, c in zip(n.ops, n.comparators):
                right = self.ev(c, env)
                r = self.compare(op, left, right, n)
                if not r:
                    return False
                left = right
            return True
        if isinstance(n, ast.IfExp):
            return self.ev(n.body if self.truth(self.ev(n.test, env), n.test)
                           else n.orelse, env)
        if isinstance(n, ast.BinOp):
            a, b = self.ev(n.left, env), self.ev(n.right, env)
            if isinstance(a, (bool, int)) and isinstance(b, (bool, int)) and \
                    not isinstance(a, Opaque):
                if isinstance(n.op, ast.Sub):
                    return int(a) - int(b)
                if isinstance(n.op, ast.Add):
                    return int(a) + int(b)
            # message formatting with literal pieces
            if isinstance(a, str) and isinstance(n.op, ast.Mod) and \
                    isinstance(b, (str, int)) and not isinstance(b, (bool, Opaque)):
                return a % b
            if isinstance(a, str) and isinstance(n.op, ast.Mod) and isinstance(b, tuple) \
                    and all(isinstance(x, (str, int)) and not isinstance(x, Opaque)
                            for x in b):
                return a % b
            if isinstance(a, str) and isinstance(b, str) and isinstance(n.op, ast.Add):
                return a + b
            raise AnalysisError('unsupported arithmetic `%s`' % norm_src(n))
        if isinstance(n, ast.Subscript):
            base = self.ev(n.value, env)
            if isinstance(base, dict) and isinstance(n.slice, ast.Constant):
                if n.slice.value not in base:
                    raise Raised('KeyError')
                return base[n.slice.value]
            if isinstance(base, (tuple, list)) and isinstance(n.slice, ast.Constant):
                return base[n.slice.value]
            if isinstance(base, (dict, tuple, list)) and not isinstance(n.slice, ast.Slice):
                k = self.ev(n.slice, env)
                if isinstance(k, (str, int)) and not isinstance(k, bool):
                    if isinstance(base, dict):
                        if k not in base:
                            raise Raised('KeyError')
                        return base[k]
                    return base[k]
            raise AnalysisError('unsupported subscript `%s`' % norm_src(n))
        if isinstance(n, ast.Attribute):
            base = self.ev(n.value, env)
            if isinstance(base, Opaque) and base.attrs is not None:
                if n.attr not in base.attrs:
                    raise Raised('AttributeError')
                v = base.attrs[n.attr]
                if isinstance(v, Raised):
                    raise v
                return v
            h = self.hooks.get('attr')
            if h is not None:
                return h(base, n.attr, n)
            raise AnalysisError('unsupported attribute access `%s`' % norm_src(n))
        if isinstance(n, ast.Call):
            return self.call(n, env)
        raise AnalysisError('construct outside the evaluator: `%s`'
                            % norm_src(n)[:80])

    def call(self, n, env):
        f = n.func
        if isinstance(f, ast.Name) and f.id == 'len' and len(n.args) == 1:
            v = self.ev(n.args[0], env)
            if isinstance(v, Sized):
                return v.n
            if isinstance(v, (tuple, list, dict)):
                return len(v)
            raise AnalysisError('len() of %r' % (v,))
        if isinstance(f, ast.Name) and f.id == 'getattr' and len(n.args) in (2, 3) \
                and isinstance(n.args[1], ast.Constant):
            base = self.ev(n.args[0], env)
            if isinstance(base, Opaque) and base.attrs is not None:
                if n.args[1].value in base.attrs:
                    v = base.attrs[n.args[1].value]
                    if isinstance(v, Raised):
                        raise v
                    return v
                if len(n.args) == 3:
                    return self.ev(n.args[2], env)
                raise Raised('AttributeError')
            if base is None:
                if len(n.args) == 3:
                    return self.ev(n.args[2], env)
                raise Raised('AttributeError')
        if isinstance(f, ast.Name) and f.id == 'isinstance':
            h = self.hooks.get('isinstance')
            if h is not None:
                return h(self.ev(n.args[0], env), norm_src(n.args[1]), n)
        if isinstance(f, ast.Name) and f.id in self.functions:
            args = [self.ev(a, env) for a in n.args]
            return self.run(self.functions[f.id], args)
        if isinstance(f, ast.Attribute) and isinstance(f.value, ast.Name) \
                and f.value.id == 'self' and ('self.' + f.attr) in self.functions:
            args = [env['self']] + [self.ev(a, env) for a in n.args]
            return self.run(self.functions['self.' + f.attr], args)
        if isinstance(f, ast.Name) and f.id in env and callable(env[f.id]) \
                and not isinstance(env[f.id], Opaque):
            return env[f.id](*[self.ev(a, env) for a in n.args])
        # the operator module's functional spellings of the comparisons
        if isinstance(f, ast.Attribute) and isinstance(f.value, ast.Name) and \
                f.value.id == 'operator' and not n.keywords:
            ops = {'lt': ast.Lt, 'le': ast.LtE, 'eq': ast.Eq, 'ne': ast.NotEq,
                   'gt': ast.Gt, 'ge': ast.GtE, 'is_': ast.Is, 'is_not': ast.IsNot}
            if f.attr in ops and len(n.args) == 2:
                a_, b_ = self.ev(n.args[0], env), self.ev(n.args[1], env)
                return bool(self.compare(ops[f.attr](), a_, b_, n))
            if f.attr in ('not_', 'truth') and len(n.args) == 1:
                t_ = self.truth(self.ev(n.args[0], env), n.args[0])
                return (not t_) if f.attr == 'not_' else bool(t_)
        helper = self._new_helper(f)
        if helper is not None:
            fn, bound = helper
            args = ([env['self']] if bound else []) + [self.ev(a, env) for a in n.args]
            kwargs = {k.arg: self.ev(k.value, env) for k in n.keywords if k.arg}
            self._stack.append(fn)
            try:
                return self.run(fn, args, kwargs)
            finally:
                self._stack.pop()
        h = self.hooks.get('call')
        if h is not None:
            return h(n, env, self)
        raise AnalysisError('call outside the evaluator: `%s`' % norm_src(n)[:80])

    def _new_helper(self, f):
        """(function def, is-method) when f names a private helper that the
        reference tree does not have (code moved out of the evaluated
        function): it is evaluated like the code it came from."""
        from .pyfront import _module_of, FUNC, methods_of
        from .inline import known_names
        if not self._stack:
            return None
        cur = self._stack[-1]
        mod = _module_of(cur)
        if mod is None or not getattr(mod, 'relpath', None):
            return None
        known = known_names(mod.relpath)
        if isinstance(f, ast.Name):
            if f.id in known:
                return None
            for st in mod.body:
                if isinstance(st, FUNC) and st.name == f.id:
                    return st, False
            for st in ast.walk(cur):
                if isinstance(st, FUNC) and st is not cur and st.name == f.id:
                    return st, False
            return None
        if isinstance(f, ast.Attribute) and isinstance(f.value, ast.Name) and \
                f.value.id in ('self', 'cls') and f.attr not in known:
            cls = getattr(cur, 'parent', None)
            while cls is not None and not isinstance(cls, ast.ClassDef):
                cls = getattr(cls, 'parent', None)
            if cls is not None:
                m = methods_of(cls, raw=True).get(f.attr)
                if m is not None:
                    static = any(isinstance(d, ast.Name) and d.id == 'staticmethod'
                                 for d in m.decorator_list)
                    return m, not static
        return None

    # -- statements ---------------------------------------------------------------
    class _Return(Exception):
        def __init__(self, v):
            self.v = v

    class _Break(Exception):
        pass

    class _Continue(Exception):
        pass

    def run(self, func, args, kwargs=None):
        if not self._stack or self._stack[-1] is not func:
            self._stack.append(func)
            try:
                return self.run(func, args, kwargs)
            finally:
                self._stack.pop()
        env = {}
        ps = func.args.args
        defaults = [None] * (len(ps) - len(func.args.defaults)) + list(func.args.defaults)
        for i, p in enumerate(ps):
            if i < len(args):
                env[p.arg] = args[i]
            elif kwargs and p.arg in kwargs:
                env[p.arg] = kwargs[p.arg]
            elif defaults[i] is not None:
                env[p.arg] = self.ev(defaults[i], {})
            else:
                raise AnalysisError('missing argument %s for %s' % (p.arg, func.name))
        try:
            self.block(func.body, env)
        except Interp._Return as r:
            return r.v
        return None

    def block(self, stmts, env):
        for st in stmts:
            self.stmt(st, env)

    def stmt(self, st, env):
        self.steps += 1
        if isinstance(st, ast.Expr):
            if isinstance(st.value, ast.Constant):
                return            # docstring
            self.ev(st.value, env)
            return
        if isinstance(st, ast.Return):
            raise Interp._Return(self.ev(st.value, env) if st.value is not None
                                 else None)
        if isinstance(st, ast.Assign):
            v = self.ev(st.value, env)
            for t in st.targets:
                if isinstance(t, ast.Name):
                    env[t.id] = v
                elif isinstance(t, ast.Tuple) and isinstance(v, tuple) and \
                        all(isinstance(e, ast.Name) for e in t.elts):
                    for e, x in zip(t.elts, v):
                        env[e.id] = x
                else:
                    raise AnalysisError('unsupported assignment `%s`' % norm_src(st))
            return
        if isinstance(st, ast.If):
            self.block(st.body if self.truth(self.ev(st.test, env), st.test)
                       else st.orelse, env)
            return
        if isinstance(st, ast.For):
            seq = self.ev(st.iter, env)
            if not isinstance(seq, (list, tuple)):
                raise AnalysisError('iteration over %r' % (seq,))
            broke = False
            for item in list(seq):
                if isinstance(st.target, ast.Name):
                    env[st.target.id] = item
                else:
                    raise AnalysisError('unsupported loop target')
                try:
                    self.block(st.body, env)
                except Interp._Break:
                    broke = True
                    break
                except Interp._Continue:
                    continue
            if not broke:
                self.block(st.orelse, env)
            return
        if isinstance(st, ast.Break):
            raise Interp._Break()
        if isinstance(st, ast.Continue):
            raise Interp._Continue()
        if isinstance(st, ast.Pass):
            return
        if isinstance(st, ast.Raise):
            exc = st.exc
            if exc is None:
                raise Raised('reraise')
            if isinstance(exc, ast.Call):
                name = norm_src(exc.func)
                args = tuple(self.ev(a, env) for a in exc.args)
                raise Raised(name, args)
            raise Raised(norm_src(exc))
        if isinstance(st, ast.Try):
            try:
                self.block(st.body, env)
            except Raised as r:
                for h in st.handlers:
                    names = []
                    if h.type is None:
                        names = None
                    elif isinstance(h.type, ast.Tuple):
                        names = [norm_src(e) for e in h.type.elts]
                    else:
                        names = [norm_src(h.type)]
                    if names is None or r.name in names or (
                            'Exception' in names and r.name != 'reraise'):
                        self.block(h.body, env)
                        break
                else:
                    raise
            else:
                self.block(st.orelse, env)
            self.block(st.finalbody, env)
            return
        raise AnalysisError('statement outside the evaluator: `%s`'
                            % norm_src(st).split('\n')[0][:80])


def outcome(interp, func, args):
    """Run and normalise the outcome: ('return', value) | ('raise', name)."""
    interp.steps = 0
    try:
        v = interp.run(func, args)
    except Raised as r:
        return ('raise', r.name)
    if v is NOTIMPL:
        return ('return', 'NotImplemented')
    if isinstance(v, Opaque):
        return ('return', v.label)
    return ('return', v)
