"""Command line driver: one property per invocation (or --all)."""
import argparse
import importlib
import json
import os
import sys
import time
import traceback

from .core import AnalysisError, Repo, Report, finish, VERIF

ALL = ['C%02d' % i for i in range(1, 21)]


def available():
    out = []
    for p in ALL:
        if os.path.exists(os.path.join(VERIF, 'zverif', 'rules', p + '.py')):
            out.append(p)
    return out


def write_error_evidence(prop, tier, seed, msg, t0):
    ev = {
        'property_id': prop, 'tier': tier, 'seed': int(seed),
        'level': 'other',
        'coverage': {'explanation': 'ANALYSIS-ERROR: ' + msg,
                     'evaluations': 0, 'distinct_nontrivial': 0,
                     'analysis_error': msg},
        'assumptions': [], 'wall_s': round(time.time() - t0, 3),
        'violations': 0,
    }
    os.makedirs(os.path.join(VERIF, 'evidence'), exist_ok=True)
    if os.environ.get('ZVERIF_NO_EVIDENCE'):
        return
    with open(os.path.join(VERIF, 'evidence', prop + '.json'), 'w') as f:
        json.dump(ev, f, indent=1, sort_keys=True)


def run_one(prop, tier, root, seed, quiet=False):
    t0 = time.time()
    try:
        mod = importlib.import_module('zverif.rules.' + prop)
        repo = Repo(root)
        rep = Report(prop, repo, tier)
        mod.run(rep)
        extra = getattr(mod, 'extra_coverage', None)
        cov = extra(rep) if extra else None
        return finish(rep, seed=seed, extra_cov=cov, quiet=quiet)
    except AnalysisError as e:
        print('ANALYSIS-ERROR property=%s %s' % (prop, e))
        write_error_evidence(prop, tier, seed, str(e), t0)
        return 2
    except Exception as e:  # a bug in the checker is an analysis error
        tb = traceback.format_exc()
        print('ANALYSIS-ERROR property=%s internal error: %r' % (prop, e))
        sys.stderr.write(tb)
        write_error_evidence(prop, tier, seed, 'internal error %r' % (e,), t0)
        return 2


def main(argv=None):
    ap = argparse.ArgumentParser(prog='check')
    ap.add_argument('props', nargs='*')
    ap.add_argument('--tier', default=os.environ.get('VERIF_TIER', 'quick'),
                    choices=['quick', 'thorough'])
    ap.add_argument('--root', default=os.environ.get('ZVERIF_ROOT', '/repo'))
    ap.add_argument('--all', action='store_true')
    ap.add_argument('--list', action='store_true')
    ap.add_argument('--replay')
    ap.add_argument('--quiet', action='store_true')
    a = ap.parse_args(argv)
    seed = int(os.environ.get('VERIF_SEED', '0') or 0)
    if a.list:
        print(' '.join(available()))
        return 0
    if a.replay:
        with open(a.replay) as f:
            w = json.load(f)
        print(json.dumps(w, indent=1))
        return run_one(w['property'], a.tier, a.root, seed)
    props = available() if a.all else a.props
    if not props:
        ap.error('no property given')
    rc = 0
    for p in props:
        if a.tier == 'thorough':
            from . import selftest
            r = selftest.thorough(p, a.root, seed, a.quiet)
        else:
            r = run_one(p, a.tier, a.root, seed, a.quiet)
        rc = max(rc, r)
    return rc


if __name__ == '__main__':
    sys.exit(main())
