"""Path facts: canonical atomic conditions on CFG edges, guards, and
flow-sensitive value resolution.  These make the rules independent of how a
condition is spelled (`x is not None` / `not x is None` / inverted if-else /
early return / `continue` guards / conditional expressions)."""
import ast

from .core import AnalysisError, norm_src
from .cfg import cfg_of, header_expr
from .pyfront import match, same, walk_local, dotted
from .flowq import reaching_defs, def_value, assigned_at

_NEG = {ast.IsNot: ast.Is, ast.NotEq: ast.Eq, ast.NotIn: ast.In}


def canon(test, truth=True):
    """(canonical source text, truth) of an atomic test taken with ``truth``.
    Negations are folded into the truth value; `is not`/`!=`/`not in` become
    the positive operator; every ordering comparison is expressed with `<`
    (a > b == b < a; a <= b == not (b < a); a >= b == not (a < b))."""
    t = test
    while True:
        if isinstance(t, ast.UnaryOp) and isinstance(t.op, ast.Not):
            t = t.operand
            truth = not truth
        elif isinstance(t, ast.Call) and isinstance(t.func, ast.Name) and \
                t.func.id == 'bool' and len(t.args) == 1 and not t.keywords:
            t = t.args[0]        # the truth of bool(x) is the truth of x
        else:
            break
    if isinstance(t, ast.Compare) and len(t.ops) == 1:
        op = t.ops[0]
        l, r = t.left, t.comparators[0]
        if type(op) in _NEG:
            op = _NEG[type(op)]()
            truth = not truth
        elif isinstance(op, ast.Gt):
            l, r, op = r, l, ast.Lt()
        elif isinstance(op, ast.LtE):
            l, r, op = r, l, ast.Lt()
            truth = not truth
        elif isinstance(op, ast.GtE):
            op = ast.Lt()
            truth = not truth
        if isinstance(op, (ast.Is, ast.Eq)):
            a, b = norm_src(l), norm_src(r)
            if isinstance(l, ast.Constant) and not isinstance(r, ast.Constant):
                l, r = r, l
            elif not isinstance(r, ast.Constant) and not isinstance(l, ast.Constant) and b < a:
                l, r = r, l
        t = ast.Compare(left=l, ops=[op], comparators=[r])
    return norm_src(t), truth


class _Res(ast.NodeTransformer):
    def __init__(self, cfg, node, depth):
        self.cfg, self.node, self.depth = cfg, node, depth

    def visit_Name(self, n):
        if isinstance(n.ctx, ast.Load):
            r = resolve(self.cfg, self.node, n, self.depth)
            if r is not n:
                from .pyfront import clone
                return clone(r)
        return n

    def visit_Lambda(self, n):
        return n

    def _comp(self, n):
        return n
    visit_ListComp = visit_SetComp = visit_GeneratorExp = visit_DictComp = _comp


def resolved_test(cfg, n, depth=4):
    """the test of node n with local names replaced by their unique reaching
    definitions (flow-sensitive)."""
    from .pyfront import clone
    return _Res(cfg, n, depth).visit(clone(n.ast))


def test_nodes(cfg, canon_text, resolved=True):
    out = []
    for n in cfg.nodes:
        if n.kind == 'test' and n.ast is not None:
            c, pol = canon(n.ast, True)
            if c == canon_text:
                out.append((n, pol))      # pol: truth of canon when T edge taken
                continue
            if resolved:
                c2, pol2 = canon(resolved_test(cfg, n), True)
                if c2 == canon_text:
                    out.append((n, pol2))
    return out


def _good_edges(cfg, alternatives):
    good = set()
    for canon_text, truth in alternatives:
        for n, pol in test_nodes(cfg, canon_text):
            good.add((n.id, 'T' if pol == truth else 'F'))
    return good


def guarded(cfg, node, canon_text, truth, start=None):
    """Every path from ``start`` (default entry) to ``node`` takes an edge on
    which the atomic condition ``canon_text`` has value ``truth``."""
    return guarded_any(cfg, node, [(canon_text, truth)], start)


def guarded_any(cfg, node, alternatives, start=None):
    """Every path to ``node`` takes an edge establishing at least one of the
    (canonical condition, truth) alternatives."""
    good = _good_edges(cfg, alternatives)
    if not good:
        return False

    def skip(a, lab, b):
        return (a.id, lab) in good
    r = cfg.reach(start or cfg.entry, skip_edge=skip,
                  include_start=(start is not None))
    return node.id not in r


def path_facts(path):
    """{canon: truth} of the atomic conditions taken along an enumerated path
    (last occurrence wins)."""
    out = {}
    for n, lab in path:
        if n.kind == 'test' and n.ast is not None and lab in ('T', 'F'):
            c, pol = canon(n.ast, True)
            out[c] = pol if lab == 'T' else (not pol)
    return out


def resolve(cfg, node, expr, depth=6, seen=None):
    """Flow-sensitive: replace local names in ``expr`` by the value of their
    unique reaching definition at ``node`` (plain assignments only)."""
    if depth <= 0 or expr is None:
        return expr
    if isinstance(expr, ast.Name):
        defs = reaching_defs(cfg, node, expr.id)
        if len(defs) == 1 and defs[0] is not cfg.entry:
            v = def_value(defs[0])
            if v is not None:
                return resolve(cfg, defs[0], v, depth - 1)
        return expr
    return expr


def resolved_src(cfg, node, expr):
    return norm_src(resolve(cfg, node, expr))


def returns_table(func, limit=4096):
    """[(facts, resolved return expression source or None, path)] over the
    normal paths of a function."""
    cfg = cfg_of(func)
    out = []
    for path in cfg.paths(limit=limit):
        if path[-1][0] is not cfg.exit:
            continue
        rets = [n for n, lab in path if isinstance(n.ast, ast.Return)]
        val = None
        if rets:
            r = rets[-1]
            val = resolved_src(cfg, r, r.ast.value) if r.ast.value is not None else 'None'
        else:
            val = 'None'
        out.append((path_facts(path), val, path))
    return out


def call_nodes(cfg, pattern):
    from .pyfront import find_all
    out = []
    for n in cfg.nodes:
        h = header_expr(n) if n.ast is not None else None
        if h is None:
            continue
        ms = find_all(h, pattern)
        if ms:
            out.append((n, ms))
    return out
