import re
"""Path summaries of C functions with resolved expressions.

The C-side analogue of sympath: for every enumerated path of a function of
the accelerator, the canonical facts established by the branches taken, the
ordered events (calls, stores through fields/pointers) and the returned value,
with local variables replaced by what they were assigned from along that path.
Calls of *new* static helpers (functions that do not exist in the reference
tree, see known_defs.json) are expanded by splicing the helper's own path
summaries with its parameters bound to the resolved arguments, so a rule sees
the same facts/events whether or not code was moved into a helper.

Facts are keyed by the text of the resolved expression; the truth value means
"non-NULL / non-zero" (so `x == NULL`, `!x`, `x != NULL`, `x` all talk about
the key `x`).  Comparisons with other constants and orderings are keyed by
their own text (orderings normalised to `<`).
"""
from .core import AnalysisError
from .cfront import E, show, ccfg, C_REL, c_assigned
from .inline import known_names

MAX_PATHS = 60000
BOOL_OPS = ('==', '!=', '<', '>', '<=', '>=')


def cclone(e):
    if e is None:
        return None
    if not isinstance(e, E):
        return e
    new = E.__new__(E)
    new.k = e.k
    new.line = e.line
    new.parent = None
    new.a = []
    for x in e.a:
        if isinstance(x, E):
            c = cclone(x)
            c.parent = new
            new.a.append(c)
        elif isinstance(x, list):
            lst = []
            for y in x:
                if isinstance(y, E):
                    c = cclone(y)
                    c.parent = new
                    lst.append(c)
                else:
                    lst.append(y)
            new.a.append(lst)
        else:
            new.a.append(x)
    return new


def mk(k, *a, line=0):
    return E(k, *a, line=line)


def simplify(e):
    """local simplifications after substitution"""
    if e is None:
        return None
    if e.k == 'deref' and e.a[0] is not None and e.a[0].k == 'addr':
        return e.a[0].a[0]
    if e.k == 'addr' and e.a[0] is not None and e.a[0].k == 'deref':
        return e.a[0].a[0]
    if e.k == 'field' and e.a[2] and e.a[0] is not None and e.a[0].k == 'addr':
        # (&x)->f  ==  x.f
        return mk('field', e.a[0].a[0], e.a[1], False, line=e.line)
    if e.k == 'call' and e.a[0] in ('PyObject_CallMethodObjArgs',
                                    'PyObject_CallFunctionObjArgs'):
        # the argument list ends at the first NULL (a NULL optional argument
        # passed on by a helper ends it early)
        args = e.a[1]
        for i_, a_ in enumerate(args):
            if i_ >= 1 and a_ is not None and a_.k == 'null' and i_ < len(args) - 1:
                new = mk('call', e.a[0], [cclone(x) for x in args[:i_ + 1]], line=e.line)
                return new
    if e.k == 'call' and e.a[0] == 'PyBool_FromLong' and len(e.a[1]) == 1:
        v = e.a[1][0]
        if v is not None and v.k == 'const' and isinstance(v.a[0], int):
            return mk('var', 'Py_True' if v.a[0] else 'Py_False', line=e.line)
    if e.k == 'bin' and e.a[0] in BOOL_OPS:
        a, b = e.a[1], e.a[2]
        if a is not None and b is not None and a.k == 'const' and b.k == 'const' \
                and isinstance(a.a[0], int) and isinstance(b.a[0], int):
            x, y = a.a[0], b.a[0]
            v = {'==': x == y, '!=': x != y, '<': x < y, '>': x > y,
                 '<=': x <= y, '>=': x >= y}[e.a[0]]
            return mk('const', 1 if v else 0, line=e.line)
    if e.k == 'un' and e.a[0] == '-' and e.a[1] is not None and e.a[1].k == 'const' \
            and isinstance(e.a[1].a[0], int):
        return mk('const', -e.a[1].a[0], line=e.line)
    return e


def csubst(e, env, mapping=None):
    """copy of e with local variables replaced by their resolved values;
    mapping (optional) receives id(raw call node) -> resolved call node"""
    if e is None:
        return None
    if e.k == 'var':
        v = env.get(e.a[0])
        if v is not None:
            return cclone(v)
        return cclone(e)
    new = E.__new__(E)
    new.k = e.k
    new.line = e.line
    new.parent = None
    new.a = []
    for x in e.a:
        if isinstance(x, E):
            if e.k == 'addr' and x.k == 'var':
                c = cclone(x)          # &local: the address, not the value
            else:
                c = csubst(x, env, mapping)
            c.parent = new
            new.a.append(c)
        elif isinstance(x, list):
            lst = []
            for y in x:
                if isinstance(y, E):
                    if y.k == 'addr' and y.a[0] is not None and y.a[0].k == 'var':
                        c = cclone(y)
                    else:
                        c = csubst(y, env, mapping)
                    c.parent = new
                    lst.append(c)
                else:
                    lst.append(y)
            new.a.append(lst)
        else:
            new.a.append(x)
    if mapping is not None and e.k == 'call':
        mapping[id(e)] = new
    return simplify(new)


def canon_test(t, lab):
    """(key text, truth) of an atomic resolved test taken with edge label"""
    truth = (lab == 'T')
    while t is not None and t.k == 'un' and t.a[0] == '!':
        t = t.a[1]
        truth = not truth
    if t is not None and t.k == 'bin' and t.a[0] in ('==', '!='):
        a, b = t.a[1], t.a[2]
        zero = lambda x: x is not None and (x.k == 'null' or (x.k == 'const' and x.a[0] == 0))
        if zero(b) or zero(a):
            other = a if zero(b) else b
            if t.a[0] == '==':
                truth = not truth
            k, tr = canon_test(other, 'T' if truth else 'F')
            return k, tr
        if t.a[0] == '!=':
            return show(mk('bin', '==', a, b)), not truth
        return show(t), truth
    if t is not None and t.k == 'bin' and t.a[0] in ('>', '<=', '>='):
        a, b = t.a[1], t.a[2]
        if t.a[0] == '>':
            return show(mk('bin', '<', b, a)), truth
        if t.a[0] == '<=':
            return show(mk('bin', '<', b, a)), not truth
        return show(mk('bin', '<', a, b)), not truth
    return show(t), truth


_NN_CACHE = {}


def nonnull_params(unit):
    """{function: set of pointer parameters that are non-NULL at every call
    site inside the unit}.  A function that is only reachable through a method
    table gets nothing beyond `self`."""
    key = id(unit)
    if key in _NN_CACHE:
        return _NN_CACHE[key]
    from .cfront import calls as _calls_in
    funcs = unit.funcs
    sites = {}          # callee -> [(caller, [arg E])]
    required = {}       # caller -> set of locals parsed as required arguments
    for name, f in funcs.items():
        g = ccfg(f)
        req = set()
        for n in g.nodes:
            if n.e is None:
                continue
            for c in _calls_in(n.e):
                cn = c.a[0]
                if not isinstance(cn, str):
                    continue
                if cn in ('PyArg_ParseTupleAndKeywords', 'PyArg_ParseTuple'):
                    args = c.a[1]
                    fmt_i = 2 if cn == 'PyArg_ParseTupleAndKeywords' else 1
                    if len(args) > fmt_i and args[fmt_i] is not None and \
                            args[fmt_i].k == 'str':
                        fmt = str(args[fmt_i].a[0]).strip('"').split(':')[0].split(';')[0]
                        nreq = len(fmt.split('|')[0].replace('$', ''))
                        outs = args[fmt_i + (2 if cn == 'PyArg_ParseTupleAndKeywords' else 1):]
                        for a in outs[:nreq]:
                            if a is not None and a.k == 'addr' and a.a[0] is not None \
                                    and a.a[0].k == 'var':
                                req.add(a.a[0].a[0])
                elif cn in funcs:
                    sites.setdefault(cn, []).append((name, c.a[1]))
        required[name] = req
    nn = {name: ({'self'} & {p for p, t in f.params}) for name, f in funcs.items()}
    singles = ('Py_None', 'Py_True', 'Py_False', 'Py_NotImplemented')
    changed = True
    while changed:
        changed = False
        for callee, ss in sites.items():
            f = funcs[callee]
            for k, (p, t) in enumerate(f.params):
                if '*' not in t or p in nn[callee]:
                    continue
                ok = True
                for caller, args in ss:
                    if k >= len(args) or args[k] is None:
                        ok = False
                        break
                    a = args[k]
                    if a.k == 'addr':
                        continue
                    if a.k == 'var' and (a.a[0] in singles or a.a[0] in nn[caller] or
                                         (a.a[0] in required[caller] and not any(
                                             a.a[0] in c_assigned(n) and n.e.k != 'decl'
                                             and not any(isinstance(c_.a[0], str) and
                                                         c_.a[0].startswith('PyArg_Parse')
                                                         for c_ in _calls_in(n.e))
                                             for n in ccfg(funcs[caller]).nodes
                                             if n.e is not None))):
                        continue
                    ok = False
                    break
                if ok:
                    nn[callee].add(p)
                    changed = True
    _NN_CACHE[key] = nn
    return nn


def has_call(e):
    return e is not None and any(x.k == 'call' for x in e.walk())


class CEv:
    __slots__ = ('kind', 'e', 'val', 'node', 'fn')

    def __init__(self, kind, e, val=None, node=None, fn=None):
        self.kind = kind      # call | store
        self.e = e            # resolved call / store target
        self.val = val        # resolved stored value
        self.node = node
        self.fn = fn          # function the event textually belongs to

    @property
    def name(self):
        return self.e.a[0] if self.kind == 'call' and isinstance(self.e.a[0], str) else None

    def args(self):
        return [show(a) for a in self.e.a[1]] if self.kind == 'call' else []

    def __repr__(self):
        if self.kind == 'store':
            return '%s = %s' % (show(self.e), show(self.val))
        return show(self.e)


class CSummary:
    def __init__(self):
        self.order = []       # (key, truth, n events before)
        self.facts = {}
        self.events = []
        self.ret = None
        self.kind = 'fall'
        self.env = {}
        self.line = 0

    def copy(self):
        s = CSummary()
        s.order = list(self.order)
        s.facts = dict(self.facts)
        s.events = list(self.events)
        s.ret, s.kind, s.line = self.ret, self.kind, self.line
        s.env = dict(self.env)
        return s

    def fact(self, key):
        return self.facts.get(key)

    def calls(self, name=None):
        return [e for e in self.events if e.kind == 'call' and
                (name is None or e.name == name)]

    def stores(self):
        return [e for e in self.events if e.kind == 'store']

    def ret_src(self):
        return show(self.ret) if self.ret is not None else ('void' if self.kind == 'return' else 'fall')

    def index(self, ev):
        return self.events.index(ev)


class _Infeasible(Exception):
    pass


class Summariser:
    def __init__(self, unit):
        self.unit = unit
        self.known = known_names(C_REL)
        self.cache = {}
        self.stack = []
        self.expanded = {}

    def inlineable(self, name):
        return isinstance(name, str) and name in self.unit.funcs and \
            name not in self.known and name not in self.stack

    # -- expression evaluation with helper expansion ---------------------------
    def eval(self, e, st, fn, node):
        """resolved value(s) of e: yields (value, state). Records call events;
        expands new static helpers; forks on boolean-valued sub-results only at
        the top level (see assign/return)."""
        mapping = {}
        r = csubst(e, st.env, mapping)
        raw = []

        def rec(x):
            for c in x.kids():
                rec(c)
            if x.k == 'call':
                raw.append(x)
        if e is not None:
            rec(e)
        calls = [mapping[id(c)] for c in raw if id(c) in mapping]
        yield from self._calls(r, calls, 0, st, fn, node)

    def _calls(self, r, calls, i, st, fn, node):
        if i == len(calls):
            yield r, st
            return
        c = calls[i]
        name = c.a[0]
        if self.inlineable(name):
            hs = self.summaries(name)
            f = self.unit.funcs[name]
            for h in hs:
                st2 = st.copy()
                m = {p: a for (p, _t), a in zip(f.params, c.a[1])}
                try:
                    fi = 0
                    for idx in range(len(h.events) + 1):
                        while fi < len(h.order) and h.order[fi][2] <= idx:
                            key_e, truth, lab = h.raw_facts[fi]
                            self._fact(st2, csubst(key_e, m), lab, None)
                            fi += 1
                        if idx < len(h.events):
                            ev = h.events[idx]
                            st2.events.append(CEv(
                                ev.kind, csubst(ev.e, m),
                                csubst(ev.val, m) if ev.val is not None else None,
                                ev.node, ev.fn))
                except _Infeasible:
                    continue
                val = csubst(h.ret, m) if h.ret is not None else mk('const', 0)
                # out-parameters of the helper: &local is set by the callee
                for a in c.a[1]:
                    if a is not None and a.k == 'addr' and a.a[0] is not None and \
                            a.a[0].k == 'var':
                        st2.env.pop(a.a[0].a[0], None)
                        st2.ver[a.a[0].a[0]] = st2.tick()
                # replace the call node by the value inside r
                r2, calls2 = self._replace(r, calls, i, val)
                self.expanded.setdefault(fn, set()).add(name)
                yield from self._calls(r2, calls2, i + 1, st2, fn, node)
            return
        st.events.append(CEv('call', c, None, node, fn))
        # out-parameters: &local becomes unknown
        for a in c.a[1]:
            if a is not None and a.k == 'addr' and a.a[0] is not None and a.a[0].k == 'var':
                st.env.pop(a.a[0].a[0], None)
                st.ver[a.a[0].a[0]] = st.tick()
        if name == 'Py_CLEAR' and len(c.a[1]) == 1:
            pass
        yield from self._calls(r, calls, i + 1, st, fn, node)

    def _replace(self, r, calls, i, val):
        """copy of r with calls[i] replaced by val; returns (r2, calls2)"""
        target = calls[i]
        mapping = {}

        def cp(x):
            if x is target:
                v = cclone(val)
                mapping[id(x)] = v
                return v
            new = E.__new__(E)
            new.k, new.line, new.parent, new.a = x.k, x.line, None, []
            for y in x.a:
                if isinstance(y, E):
                    c = cp(y)
                    c.parent = new
                    new.a.append(c)
                elif isinstance(y, list):
                    lst = []
                    for z in y:
                        if isinstance(z, E):
                            c = cp(z)
                            c.parent = new
                            lst.append(c)
                        else:
                            lst.append(z)
                    new.a.append(lst)
                else:
                    new.a.append(y)
            mapping[id(x)] = new
            return new
        r2 = cp(r)
        calls2 = [mapping.get(id(c), c) for c in calls]
        # simplify bottom-up around the replaced node
        return self._resimplify(r2, calls2)

    def _resimplify(self, r, calls):
        def rec(x):
            for idx, y in enumerate(x.a):
                if isinstance(y, E):
                    n = rec(y)
                    if n is not y:
                        x.a[idx] = n
                        n.parent = x
                elif isinstance(y, list):
                    for j, z in enumerate(y):
                        if isinstance(z, E):
                            n = rec(z)
                            if n is not z:
                                y[j] = n
                                n.parent = x
            return simplify(x)
        r2 = rec(r)
        live = {id(x) for x in r2.walk()} if r2 is not None else set()
        return r2, [c if id(c) in live else mk('const', 0) for c in calls]

    # -- facts -------------------------------------------------------------------
    def _fact(self, st, resolved, lab, raw):
        key, truth = canon_test(resolved, lab)
        if key in ('0', '1') or (key.lstrip('-').isdigit()):
            if (int(key) != 0) != truth:
                raise _Infeasible()
            return
        if key == 'NULL':
            if truth:
                raise _Infeasible()
            return
        # the singletons are objects, never NULL
        if key in ('Py_None', 'Py_True', 'Py_False', 'Py_NotImplemented'):
            if not truth:
                raise _Infeasible()
            return
        # NULL is never one of the singletons: (NULL == Py_None) is false
        for single in ('Py_None', 'Py_True', 'Py_False', 'Py_NotImplemented'):
            if key in ('(NULL == %s)' % single, '(%s == NULL)' % single):
                if truth:
                    raise _Infeasible()
                return
        # a pointer known to be NULL on this path is not one of the singletons
        m = re.match(r'^\((.*) == (Py_None|Py_True|Py_False|Py_NotImplemented)\)$', key)
        if m and truth and st.facts.get(m.group(1)) is False:
            raise _Infeasible()
        if not truth:
            for single in ('Py_None', 'Py_True', 'Py_False', 'Py_NotImplemented'):
                if st.facts.get('(%s == %s)' % (key, single)) is True:
                    raise _Infeasible()
        bind = None
        if raw is not None:
            names = sorted({x.a[0] for x in raw.walk() if x.k == 'var'})
            bind = tuple((n, st.ver.get(n, 0)) for n in names)
        old = st.facts.get(key)
        if old is not None and old != truth:
            pure = not has_call(resolved)
            same = raw is not None and not has_call(raw) and st.bind.get(key) == bind
            # both tests read results of calls that ran exactly once on this
            # path (the call text is the value of that single evaluation, held
            # in locals): the same value was tested twice
            once = False
            if not pure and (raw is None or not has_call(raw)):
                texts = [show(x) for x in resolved.walk() if x.k == 'call']
                ran = [show(e.e) for e in st.events if e.kind == 'call']
                once = bool(texts) and all(ran.count(t) == 1 for t in texts)
            if pure or same or once:
                raise _Infeasible()
        st.facts[key] = truth
        st.bind[key] = bind
        st.order.append((key, truth, len(st.events)))
        st.raw_facts.append((resolved, truth, lab))

    # -- statements --------------------------------------------------------------
    def _assign_local(self, st, name, val):
        st.env[name] = val
        st.ver[name] = st.tick()

    def _fork_bool(self, val, st):
        """a comparison used as a value: fork into 1 / 0 with the fact"""
        if val is not None and val.k == 'call' and val.a[0] == 'PyBool_FromLong' \
                and len(val.a[1]) == 1:
            inner = val.a[1][0]
            res = self._fork_bool(inner, st)
            if len(res) > 1 or (res and res[0][0] is not inner):
                return [(simplify(mk('call', 'PyBool_FromLong', [v], line=val.line)), s)
                        for v, s in res]
            return [(val, st)]
        if val is not None and val.k == 'bin' and val.a[0] in BOOL_OPS or \
                (val is not None and val.k == 'un' and val.a[0] == '!'):
            out = []
            for lab, c in (('T', 1), ('F', 0)):
                st2 = st.copy()
                try:
                    self._fact(st2, val, lab, None)
                except _Infeasible:
                    continue
                out.append((mk('const', c), st2))
            return out
        if val is not None and val.k == 'cond':
            out = []
            for lab, branch in (('T', val.a[1]), ('F', val.a[2])):
                st2 = st.copy()
                try:
                    self._atoms(st2, val.a[0], lab)
                except _Infeasible:
                    continue
                out.append((branch, st2))
            return out
        return [(val, st)]

    def _atoms(self, st, c, lab):
        """assert a (possibly compound) condition with outcome lab; compound
        conditions only in the directions that are a single conjunction"""
        if c.k == 'un' and c.a[0] == '!':
            return self._atoms(st, c.a[1], 'F' if lab == 'T' else 'T')
        if c.k == 'bin' and c.a[0] == '&&' and lab == 'T':
            self._atoms(st, c.a[1], 'T')
            return self._atoms(st, c.a[2], 'T')
        if c.k == 'bin' and c.a[0] == '||' and lab == 'F':
            self._atoms(st, c.a[1], 'F')
            return self._atoms(st, c.a[2], 'F')
        if c.k == 'bin' and c.a[0] in ('&&', '||'):
            # disjunctive direction: record as one opaque fact
            key = show(c)
            st.facts[key] = (lab == 'T')
            st.order.append((key, lab == 'T', len(st.events)))
            st.raw_facts.append((c, lab == 'T', lab))
            return
        self._fact(st, c, lab, None)

    def step(self, n, lab, st, fn):
        """effects of CFG node n left through edge lab: yields states"""
        e = n.e
        if e is None:
            yield st
            return
        if n.kind == 'test':
            for val, st2 in self.eval(e, st, fn, n):
                if e.k == 'var' or True:
                    try:
                        if lab in ('T', 'F'):
                            self._fact(st2, val, lab, e)
                        else:
                            key = 'switch(%s) %s' % (show(val), lab)
                            st2.order.append((key, True, len(st2.events)))
                            st2.facts[key] = True
                            st2.raw_facts.append((val, True, lab))
                    except _Infeasible:
                        continue
                yield st2
            return
        k = e.k
        if k == 'decl':
            if e.a[2] is None:
                st.env[e.a[0]] = mk('undef', e.a[0])
                st.ver[e.a[0]] = st.tick()
                yield st
                return
            for val, st2 in self.eval(e.a[2], st, fn, n):
                for v3, st3 in self._fork_bool(val, st2):
                    self._assign_local(st3, e.a[0], v3)
                    yield st3
            return
        if k == 'expr':
            yield from self._expr_stmt(e.a[0], st, fn, n)
            return
        if k == 'return':
            if e.a[0] is None:
                st.kind = 'return'
                st.line = e.line
                yield st
                return
            for val, st2 in self.eval(e.a[0], st, fn, n):
                for v3, st3 in self._fork_bool(val, st2):
                    if v3 is not None and v3.k == 'const' and val is not v3 and False:
                        pass
                    # a pointer the path established to be NULL is NULL
                    if v3 is not None and v3.k in ('call', 'var', 'field') and \
                            st3.facts.get(show(v3)) is False and \
                            '*' in getattr(self.unit.funcs.get(fn), 'ret', ''):
                        v3 = mk('null', line=e.line)
                    st3.ret = v3
                    st3.kind = 'return'
                    st3.line = e.line
                    yield st3
            return
        yield st

    def _expr_stmt(self, x, st, fn, n):
        if x is None:
            yield st
            return
        if x.k == 'assign':
            tgt, op, rhs = x.a[1], x.a[0], x.a[2]
            # chained a = b = c
            chain = [tgt]
            while rhs is not None and rhs.k == 'assign' and rhs.a[0] == '=':
                chain.append(rhs.a[1])
                rhs = rhs.a[2]
            for val, st2 in self.eval(rhs, st, fn, n):
                for v3, st3 in self._fork_bool(val, st2):
                    for t in chain:
                        if t.k == 'var':
                            if op == '=':
                                self._assign_local(st3, t.a[0], v3)
                            else:
                                cur = st3.env.get(t.a[0]) or mk('var', t.a[0])
                                new = simplify(mk('bin', op[:-1], cclone(cur), cclone(v3)))
                                if cur.k == 'const' and v3 is not None and v3.k == 'const' \
                                        and isinstance(cur.a[0], int) and \
                                        isinstance(v3.a[0], int) and op in ('+=', '-='):
                                    new = mk('const', cur.a[0] + v3.a[0] if op == '+='
                                             else cur.a[0] - v3.a[0])
                                self._assign_local(st3, t.a[0], new)
                        else:
                            rt = csubst(t, st3.env)
                            st3.events.append(CEv('store', rt, v3, n, fn))
                    yield st3
            return
        if x.k == 'un' and x.a[0].startswith(('++', '--')) and x.a[1].k == 'var':
            nm = x.a[1].a[0]
            cur = st.env.get(nm)
            if cur is not None and cur.k == 'const' and isinstance(cur.a[0], int):
                d = 1 if x.a[0].startswith('++') else -1
                st.env[nm] = mk('const', cur.a[0] + d)
            else:
                st.env.pop(nm, None)
            st.ver[nm] = st.tick()
            yield st
            return
        if x.k == 'bin' and x.a[0] == ',':
            for st2 in self._expr_stmt(x.a[1], st, fn, n):
                yield from self._expr_stmt(x.a[2], st2, fn, n)
            return
        for val, st2 in self.eval(x, st, fn, n):
            # Py_CLEAR(local) leaves the local NULL
            if x.k == 'call' and x.a[0] == 'Py_CLEAR' and x.a[1] and \
                    x.a[1][0] is not None and x.a[1][0].k == 'var':
                self._assign_local(st2, x.a[1][0].a[0], mk('null'))
            yield st2

    # -- driver -------------------------------------------------------------------
    def summaries(self, fname):
        if fname in self.cache:
            return self.cache[fname]
        f = self.unit.func(fname)
        g = ccfg(f)
        self.stack.append(fname)
        out = []
        maxv = {n.id: (2 if (n.e is not None and n.e.k == 'loophead') else 1)
                for n in g.nodes}
        # the tests of a loop condition are evaluated once more to leave it
        for n in g.nodes:
            if n.e is not None and n.e.k == 'loophead':
                todo = [m for m, lab in n.succ]
                while todo:
                    m = todo.pop()
                    if m.kind == 'test' and maxv[m.id] == 1:
                        maxv[m.id] = 2
                        todo.extend(x for x, lab in m.succ)
        init = _State()
        for p, _t in f.params:
            init.ver[p] = 0
        # parameters that every caller passes non-NULL (required arguments
        # parsed from the call, `self`, addresses): `(p == NULL)` is infeasible
        for p in nonnull_params(self.unit).get(fname, ()):
            init.facts[p] = True

        def rec(n, st, visits):
            if len(out) > MAX_PATHS:
                raise AnalysisError('too many C paths in %s' % fname)
            if n is g.exit:
                out.append(st)
                return
            for m, lab in n.succ:
                c = visits.get(m.id, 0)
                if c >= maxv[m.id]:
                    continue
                visits[m.id] = c + 1
                for st2 in self.step(n, lab, st.copy(), fname):
                    if st2.kind == 'return' and m is not g.exit:
                        continue
                    rec(m, st2, visits)
                visits[m.id] = c
        try:
            rec(g.entry, init, {g.entry.id: 1})
        finally:
            self.stack.pop()
        self.cache[fname] = out
        return out


class _State(CSummary):
    def __init__(self):
        CSummary.__init__(self)
        self.ver = {}
        self.bind = {}
        self.raw_facts = []
        self._tick = [0]

    def tick(self):
        self._tick[0] += 1
        return self._tick[0]

    def copy(self):
        s = _State()
        s.order = list(self.order)
        s.facts = dict(self.facts)
        s.events = list(self.events)
        s.ret, s.kind, s.line = self.ret, self.kind, self.line
        s.env = dict(self.env)
        s.ver = dict(self.ver)
        s.bind = dict(self.bind)
        s.raw_facts = list(self.raw_facts)
        s._tick = self._tick
        return s


_summarisers = {}


def summariser(unit):
    if id(unit) not in _summarisers:
        _summarisers[id(unit)] = Summariser(unit)
    return _summarisers[id(unit)]


def csummaries(unit, fname):
    return summariser(unit).summaries(fname)
