"""zverif: repository-specific static analysis for zope.interface properties C01-C20."""
