"""C17 - verifyObject/verifyClass accept exactly the candidates meeting the
contract."""
import ast
import itertools

from ..core import AnalysisError, norm_src
from ..pyfront import (find_def, find_all, match, walk_local, dotted, same,
                       calls_in, names_in)
from ..flowq import (iter_polarity, resolve_local, pred_of, witness_path,
                     nodes_with, any_pred)
from ..cfg import cfg_of, header_expr
from ..peval import Interp, Opaque, Sized, outcome
from . import shared

TABLE = {}


def spec_compatible(ir, rr, ip, rp, iv, rv, ik, rk):
    """Every call shape the interface signature admits binds: positional
    arities rr..rp, surplus positionals if rv, arbitrary keywords if rk."""
    return (ir <= rr) and (ip >= rp or iv) and ((not rv) or iv) and ((not rk) or ik)


def arity_table(rep, func):
    mod_consts = {}
    m = func.parent
    for st in m.body:
        if isinstance(st, ast.Assign) and isinstance(st.targets[0], ast.Name) \
                and isinstance(st.value, ast.Constant):
            mod_consts[st.targets[0].id] = st.value.value
    interp = Interp(hooks={'name': lambda n: mod_consts[n] if n in mod_consts
                           else (_ for _ in ()).throw(AnalysisError('unbound name ' + n))})
    cases = 0
    classes = {}
    bad = []

    def sig(req, pos, va, kw, who):
        return {'required': Sized(req, who + '.required'),
                'positional': Sized(pos, who + '.positional'),
                'optional': {},
                'varargs': Opaque('args', truth=True, label='*args') if va else None,
                'kwargs': Opaque('kw', truth=True, label='**kw') if kw else None}
    rng = range(0, 4)
    for ir, ip, rr, rp in itertools.product(rng, rng, rng, rng):
        if ir > ip or rr > rp:
            continue
        for iv, rv, ik, rk in itertools.product((False, True), repeat=4):
            cases += 1
            out = outcome(interp, func, [sig(rr, rp, rv, rk, 'required'),
                                         sig(ir, ip, iv, ik, 'implemented')])
            if out[0] != 'return':
                raise AnalysisError('_incompat raised %s' % (out,))
            code_ok = not out[1]
            want = bool(spec_compatible(ir, rr, ip, rp, iv, rv, ik, rk))
            cls = ((ir > rr) - (ir < rr), (ip > rp) - (ip < rp), iv, rv, ik, rk)
            classes.setdefault(cls, set()).add(code_ok)
            if code_ok != want:
                bad.append({'impl': {'required': ir, 'positional': ip,
                                     'varargs': iv, 'kwargs': ik},
                            'iface': {'required': rr, 'positional': rp,
                                      'varargs': rv, 'kwargs': rk},
                            'code_says': 'compatible' if code_ok else out[1],
                            'spec_says': 'compatible' if want else 'incompatible'})
    TABLE.update(cases=cases, classes=len(classes), atoms=sorted(interp.atoms))
    return cases, classes, bad, interp


def run(rep):
    repo = rep.repo
    mod = repo.module('verify.py')
    rep.rule('R17.1', '_incompat decision table over all orderings of the four '
             'arities and the four */** flags equals the specification derived '
             'from the statement: compatible iff impl.required <= iface.required '
             'and (impl.positional >= iface.positional or impl.*args) and '
             '(iface.*args => impl.*args) and (iface.**kw => impl.**kw)', floor=1)
    rep.rule('R17.2', '_verify collects: the loop over the inherited view has '
             'no exit other than exhaustion, every Invalid from an element is '
             'caught and appended, DoesNotImplement appended iff not tentative '
             'and not tester(candidate); one error -> raised alone, several -> '
             'MultipleInvalid(iface, candidate, excs), none -> True', floor=3)
    rep.rule('R17.3', 'selection: vtype c -> implementedBy else providedBy; '
             'functions on a class under vtype c described with imlevel=1, '
             'bound methods through fromMethod, other functions imlevel 0; '
             '_incompat(required, implemented) argument order; missing '
             'attribute -> BrokenImplementation', floor=7)
    rep.rule('R17.4', 'the verified view is namesAndDescriptions(all=True) and '
             'that accessor follows __iro__ (C15 R15.1)', floor=2)
    rep.rule('R17.5', 'the implementation signature that _incompat compares is '
             'the one the function has: fromFunction derives positional / '
             'required / optional / varargs / kwargs from the co_varnames '
             'layout on every path (shared with C18 R18.1)', floor=8)
    rep.rule('R17.6', 'keyword-only parameters reach the verdict: an implementation '
             'whose keyword-only parameter has no default binds none of the call '
             'shapes an interface signature admits, so whether such a parameter '
             'exists (code.co_kwonlyargcount together with func.__kwdefaults__, or '
             'inspect.signature) must be read on the way from _verify_element to '
             'the compatibility verdict', floor=1)
    rep.decline('the "cannot be introspected" cases of _verify_element '
                '(builtins, descriptors, properties) beyond the branch '
                'conditions of R17.3')

    # ---- R17.1 ---------------------------------------------------------------
    f = find_def(mod, '_incompat')
    cases, classes, bad, interp = arity_table(rep, f)
    ok = not bad
    detail = ('%d concrete cases covering %d abstract classes (orderings of '
              'required/positional arities x flags), all agree with the '
              'specification; atoms compared by the code: %s'
              % (cases, len(classes), sorted(interp.atoms)))
    if bad:
        detail = {'disagreements': len(bad), 'first': bad[:3]}
    rep.check('R17.1', 'verify._incompat', ok, detail, construct='table', node=f)

    # ---- R17.2 ---------------------------------------------------------------
    v = find_def(mod, '_verify')
    from . import specsem
    specsem.verify_collects(rep, mod, 'R17.2', 'R17.3')
    vc = find_def(mod, 'verifyClass')
    vo = find_def(mod, 'verifyObject')
    from ..sympath import summaries as _S, normal as _N
    from .sem import nt as _nt
    for fn_, vt in ((vc, 'c'), (vo, 'o')):
        ss_ = _N(_S(fn_))
        want = ("_verify(iface, candidate, tentative, vtype='%s')" % vt,
                "_verify(iface, candidate, tentative, '%s')" % vt)
        ok_ = bool(ss_) and all(_nt(ps.ret) in want for ps in ss_)
        rep.check('R17.3', 'verify.' + fn_.name, ok_,
                  "%s -> vtype '%s' (%s)" % (fn_.name, vt, sorted({_nt(ps.ret)[:60]
                                                                  for ps in ss_})),
                  construct='vtype', node=fn_)
    from . import verifysem
    verifysem.verify_element(rep, mod, 'R17.3')

    # ---- R17.4 ---------------------------------------------------------------
    ok = any(match('iface.namesAndDescriptions(all=True)', header_expr(n)) is not None or
             match('iface.namesAndDescriptions(True)', header_expr(n)) is not None
             for n in cfg_of(v).nodes if n.kind == 'iter')
    rep.check('R17.4', 'verify._verify', ok,
              'iterates iface.namesAndDescriptions(all=True) (every attribute '
              'the interface or its bases name)', construct='view', node=v)
    imod = repo.module('interface.py')
    nd = find_def(imod, 'InterfaceClass.namesAndDescriptions')
    from .C15 import linearization_source
    kinds = {k for k, d in linearization_source(nd)}
    rep.check('R17.4', 'InterfaceClass.namesAndDescriptions',
              'iro' in kinds and 'bases' not in kinds,
              'the inherited view is built from __iro__ (sources %s)' % sorted(kinds),
              construct='iro', node=nd)
    # the recursion/loop passes through every ancestor, first definer wins, and
    # nothing but the merged view is built or memoised on the way (C15 R15.1)
    from . import specsem as _s4
    _s4.names_and_descriptions(rep, imod, 'R17.4')

    # ---- R17.5 ---------------------------------------------------------------
    from .C18 import from_function_layout
    from_function_layout(rep, imod, 'R17.5')


    # ---- R17.6 ---------------------------------------------------------------
    kwonly_reaches_verdict(rep, mod, imod, 'R17.6')


def kwonly_reaches_verdict(rep, mod, imod, rule):
    """Information-flow necessary condition: the verdict can only depend on
    the requiredness of the implementation's keyword-only parameters if some
    function between _verify_element and the verdict reads where CPython keeps
    it (__kwdefaults__, or the inspect.signature model).  Readers are searched
    in the verifier, the describing functions and every package function they
    call (transitively, by name)."""
    from ..pyfront import find_def as _fd
    roots = [('verify.py', mod, n) for n in ('_verify_element', '_incompat')] + \
            [('interface.py', imod, n) for n in ('fromFunction', 'fromMethod')]
    seen, todo, readers, visited = set(), [], [], []
    for fn, m, n in roots:
        d = _fd(m, n)
        todo.append((fn, m, d))
    while todo:
        fn, m, d = todo.pop()
        if d is None or id(d) in seen:
            continue
        seen.add(id(d))
        visited.append('%s:%s' % (fn, getattr(d, 'name', '?')))
        for x in ast.walk(d):
            if isinstance(x, ast.Attribute) and x.attr in ('__kwdefaults__', 'KEYWORD_ONLY', 'kwonlydefaults'):
                readers.append('%s:%s reads .%s' % (fn, d.name, x.attr))
            elif isinstance(x, ast.Constant) and x.value in ('__kwdefaults__', 'kwonlydefaults'):
                readers.append('%s:%s reads %r' % (fn, d.name, x.value))
            elif isinstance(x, ast.Call):
                nm = dotted(x.func) or ''
                if nm.split('.')[-1] in ('signature', 'getfullargspec'):
                    readers.append('%s:%s calls %s' % (fn, d.name, nm))
                if isinstance(x.func, ast.Name):
                    for fn2, m2 in (('verify.py', mod), ('interface.py', imod)):
                        try:
                            d2 = _fd(m2, x.func.id)
                        except Exception:
                            d2 = None
                        if d2 is not None and isinstance(d2, (ast.FunctionDef,)):
                            todo.append((fn2, m2, d2))
    f = _fd(imod, 'fromFunction')
    rep.check(rule, 'interface.fromFunction', bool(readers),
              ('requiredness of keyword-only parameters is read: %s' % sorted(set(readers))[:3])
              if readers else
              {'problem': 'no function between _verify_element and the verdict reads '
                          '__kwdefaults__ / inspect.signature (functions searched: %s): '
                          'an implementation `def m(self, a, *, key)` is accepted for '
                          '`def m(a)` although no admitted call binds' % sorted(visited)},
              construct='kwonly-required', node=f)


def extra_coverage(rep):
    return {'exhaustive': True, 'decision_table': TABLE}
