"""C17 - verifyObject/verifyClass accept exactly the candidates meeting the
contract."""
import ast
import itertools

from ..core import AnalysisError, norm_src
from ..pyfront import (find_def, find_all, match, walk_local, dotted, same,
                       calls_in, names_in)
from ..flowq import (iter_polarity, resolve_local, pred_of, witness_path,
                     nodes_with, any_pred)
from ..cfg import cfg_of, header_expr
from ..peval import Interp, Opaque, Sized, outcome
from . import shared

TABLE = {}


def spec_compatible(ir, rr, ip, rp, iv, rv, ik, rk):
    """Every call shape the interface signature admits binds: positional
    arities rr..rp, surplus positionals if rv, arbitrary keywords if rk."""
    return (ir <= rr) and (ip >= rp or iv) and ((not rv) or iv) and ((not rk) or ik)


def arity_table(rep, func):
    mod_consts = {}
    m = func.parent
    for st in m.body:
        if isinstance(st, ast.Assign) and isinstance(st.targets[0], ast.Name) \
                and isinstance(st.value, ast.Constant):
            mod_consts[st.targets[0].id] = st.value.value
    interp = Interp(hooks={'name': lambda n: mod_consts[n] if n in mod_consts
                           else (_ for _ in ()).throw(AnalysisError('unbound name ' + n))})
    cases = 0
    classes = {}
    bad = []

    def sig(req, pos, va, kw, who):
        return {'required': Sized(req, who + '.required'),
                'positional': Sized(pos, who + '.positional'),
                'optional': {},
                'varargs': Opaque('args', truth=True, label='*args') if va else None,
                'kwargs': Opaque('kw', truth=True, label='**kw') if kw else None}
    rng = range(0, 4)
    for ir, ip, rr, rp in itertools.product(rng, rng, rng, rng):
        if ir > ip or rr > rp:
            continue
        for iv, rv, ik, rk in itertools.product((False, True), repeat=4):
            cases += 1
            out = outcome(interp, func, [sig(rr, rp, rv, rk, 'required'),
                                         sig(ir, ip, iv, ik, 'implemented')])
            if out[0] != 'return':
                raise AnalysisError('_incompat raised %s' % (out,))
            code_ok = not out[1]
            want = bool(spec_compatible(ir, rr, ip, rp, iv, rv, ik, rk))
            cls = ((ir > rr) - (ir < rr), (ip > rp) - (ip < rp), iv, rv, ik, rk)
            classes.setdefault(cls, set()).add(code_ok)
            if code_ok != want:
                bad.append({'impl': {'required': ir, 'positional': ip,
                                     'varargs': iv, 'kwargs': ik},
                            'iface': {'required': rr, 'positional': rp,
                                      'varargs': rv, 'kwargs': rk},
                            'code_says': 'compatible' if code_ok else out[1],
                            'spec_says': 'compatible' if want else 'incompatible'})
    TABLE.update(cases=cases, classes=len(classes), atoms=sorted(interp.atoms))
    return cases, classes, bad, interp


def run(rep):
    repo = rep.repo
    mod = repo.module('verify.py')
    rep.rule('R17.1', '_incompat decision table over all orderings of the four '
             'arities and the four */** flags equals the specification derived '
             'from the statement: compatible iff impl.required <= iface.required '
             'and (impl.positional >= iface.positional or impl.*args) and '
             '(iface.*args => impl.*args) and (iface.**kw => impl.**kw)', floor=1)
    rep.rule('R17.2', '_verify collects: the loop over the inherited view has '
             'no exit other than exhaustion, every Invalid from an element is '
             'caught and appended, DoesNotImplement appended iff not tentative '
             'and not tester(candidate); one error -> raised alone, several -> '
             'MultipleInvalid(iface, candidate, excs), none -> True', floor=3)
    rep.rule('R17.3', 'selection: vtype c -> implementedBy else providedBy; '
             'functions on a class under vtype c described with imlevel=1, '
             'bound methods through fromMethod, other functions imlevel 0; '
             '_incompat(required, implemented) argument order; missing '
             'attribute -> BrokenImplementation', floor=8)
    rep.rule('R17.4', 'the verified view is namesAndDescriptions(all=True) and '
             'that accessor follows __iro__ (C15 R15.1)', floor=2)
    rep.decline('the "cannot be introspected" cases of _verify_element '
                '(builtins, descriptors, properties) beyond the branch '
                'conditions of R17.3')

    # ---- R17.1 ---------------------------------------------------------------
    f = find_def(mod, '_incompat')
    cases, classes, bad, interp = arity_table(rep, f)
    ok = not bad
    detail = ('%d concrete cases covering %d abstract classes (orderings of '
              'required/positional arities x flags), all agree with the '
              'specification; atoms compared by the code: %s'
              % (cases, len(classes), sorted(interp.atoms)))
    if bad:
        detail = {'disagreements': len(bad), 'first': bad[:3]}
    rep.check('R17.1', 'verify._incompat', ok, detail, construct='table', node=f)

    # ---- R17.2 ---------------------------------------------------------------
    v = find_def(mod, '_verify')
    from . import specsem
    specsem.verify_collects(rep, mod, 'R17.2', 'R17.3')
    vc = find_def(mod, 'verifyClass')
    vo = find_def(mod, 'verifyObject')
    rep.check('R17.3', 'verify.verifyClass',
              bool(find_all(vc, "_verify(iface, candidate, tentative, vtype='c')")),
              "verifyClass -> vtype 'c'", construct='vtype', node=vc)
    rep.check('R17.3', 'verify.verifyObject',
              bool(find_all(vo, "_verify(iface, candidate, tentative, vtype='o')")),
              "verifyObject -> vtype 'o'", construct='vtype', node=vo)
    e = find_def(mod, '_verify_element')
    # missing attribute
    trys = [n for n in e.body if isinstance(n, ast.Try)]
    ok = bool(trys) and match('attr = getattr(candidate, name)', trys[0].body[0], 'exec') \
        is not None and len(trys[0].handlers) == 1 and \
        dotted(trys[0].handlers[0].type) == 'AttributeError'
    if ok:
        hb = trys[0].handlers[0].body
        g = [n for n in hb if isinstance(n, ast.If)]
        ok = len(g) == 1 and match("not isinstance(desc, Method) and vtype == 'c'",
                                   g[0].test) is not None and \
            any(isinstance(s, ast.Return) for s in g[0].body)
        rs = [n for n in hb if isinstance(n, ast.Raise)]
        ok = ok and len(rs) == 1 and match(
            'BrokenImplementation(iface, desc, candidate)', rs[0].exc) is not None
    rep.check('R17.3', 'verify._verify_element', ok,
              'missing attribute -> BrokenImplementation (only non-method '
              'attributes of classes are excused)', construct='missing', node=e)
    # description of the implementation
    fns = find_all(e, 'fromFunction($$a)')
    okf = len(fns) == 2
    det = [norm_src(c) for c, _ in fns]
    if okf:
        lvl1 = [c for c, _ in fns if match(
            'fromFunction(attr, iface, name=name, imlevel=1)', c) is not None]
        lvl0 = [c for c, _ in fns if match(
            'fromFunction(attr, iface, name=name)', c) is not None]
        okf = len(lvl1) == 1 and len(lvl0) == 1
        if okf:
            g = shared.stmt_of(lvl1[0]).parent
            okf = isinstance(g, ast.If) and match(
                "isinstance(candidate, type) and vtype == 'c'", g.test) is not None \
                and shared.stmt_of(lvl1[0]) in g.body and shared.stmt_of(lvl0[0]) in g.orelse
            gg = g.parent
            okf = okf and isinstance(gg, ast.If) and match(
                'isinstance(attr, FunctionType)', gg.test) is not None
    rep.check('R17.3', 'verify._verify_element', okf,
              'plain functions: imlevel=1 only for functions found on a class '
              'under class verification, imlevel 0 otherwise: %s' % det,
              construct='imlevel', node=e)
    fm = find_all(e, 'meth = fromMethod(attr, iface, name)', 'exec')
    okm = len(fm) == 1
    if okm:
        g = fm[0][0].parent
        okm = isinstance(g, ast.If) and match(
            'isinstance(attr, MethodTypes) and type(attr.__func__) is FunctionType',
            g.test) is not None
    rep.check('R17.3', 'verify._verify_element', okm,
              'bound methods are described through fromMethod (self stripped)',
              construct='method', node=e)
    inc = find_all(e, '_incompat($$a)')
    oki = len(inc) == 1 and match(
        '_incompat(desc.getSignatureInfo(), meth.getSignatureInfo())', inc[0][0]) is not None
    rep.check('R17.3', 'verify._verify_element', oki,
              '_incompat(required = the interface description, implemented = '
              'the candidate): %s' % [norm_src(c) for c, _ in inc],
              construct='argument-order', node=e)
    okr = False
    if oki:
        st = shared.stmt_of(inc[0][0])
        tgt = st.targets[0].id if isinstance(st, ast.Assign) else None
        gs = [n for n in e.body if isinstance(n, ast.If) and tgt and
              match(tgt, n.test) is not None]
        okr = len(gs) == 1 and any(
            isinstance(s, ast.Raise) and match(
                'BrokenMethodImplementation(desc, %s, attr, iface, candidate)' % tgt,
                s.exc) is not None for s in gs[0].body)
    rep.check('R17.3', 'verify._verify_element', okr,
              'a non-empty incompatibility message raises '
              'BrokenMethodImplementation', construct='raise', node=e)
    nm = [n for n in e.body if isinstance(n, ast.If)
          and match('not isinstance(desc, Method)', n.test) is not None]
    rep.check('R17.3', 'verify._verify_element',
              len(nm) == 1 and any(isinstance(s, ast.Return) for s in nm[0].body),
              'non-method descriptions need only be present', construct='attribute',
              node=e)
    nc = find_all(e, 'not callable(attr)')
    oknc = len(nc) == 1
    if oknc:
        g = nc[0][0].parent
        oknc = isinstance(g, ast.If) and any(
            isinstance(s, ast.Raise) and dotted(s.exc.func) == 'BrokenMethodImplementation'
            for s in g.body)
    rep.check('R17.3', 'verify._verify_element', oknc,
              'a non-callable where a method is required is rejected',
              construct='not-callable', node=e)

    # ---- R17.4 ---------------------------------------------------------------
    ok = any(match('iface.namesAndDescriptions(all=True)', header_expr(n)) is not None or
             match('iface.namesAndDescriptions(True)', header_expr(n)) is not None
             for n in cfg_of(v).nodes if n.kind == 'iter')
    rep.check('R17.4', 'verify._verify', ok,
              'iterates iface.namesAndDescriptions(all=True) (every attribute '
              'the interface or its bases name)', construct='view', node=v)
    imod = repo.module('interface.py')
    nd = find_def(imod, 'InterfaceClass.namesAndDescriptions')
    from .C15 import linearization_source
    kinds = {k for k, d in linearization_source(nd)}
    rep.check('R17.4', 'InterfaceClass.namesAndDescriptions',
              'iro' in kinds and 'bases' not in kinds,
              'the inherited view is built from __iro__ (sources %s)' % sorted(kinds),
              construct='iro', node=nd)
    # the recursion/loop passes through every ancestor: covered in C15


def extra_coverage(rep):
    return {'exhaustive': True, 'decision_table': TABLE}
