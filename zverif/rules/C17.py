"""C17 - verifyObject/verifyClass accept exactly the candidates meeting the
contract."""
import ast
import itertools

from ..core import AnalysisError, norm_src
from ..pyfront import (find_def, find_all, match, walk_local, dotted, same,
                       calls_in, names_in)
from ..flowq import (iter_polarity, resolve_local, pred_of, witness_path,
                     nodes_with, any_pred)
from ..cfg import cfg_of, header_expr
from ..peval import Interp, Opaque, Sized, outcome
from . import shared

TABLE = {}


def spec_compatible(ir, rr, ip, rp, iv, rv, ik, rk):
    """Every call shape the interface signature admits binds: positional
    arities rr..rp, surplus positionals if rv, arbitrary keywords if rk."""
    return (ir <= rr) and (ip >= rp or iv) and ((not rv) or iv) and ((not rk) or ik)


def arity_table(rep, func):
    mod_consts = {}
    m = func.parent
    for st in m.body:
        if isinstance(st, ast.Assign) and isinstance(st.targets[0], ast.Name) \
                and isinstance(st.value, ast.Constant):
            mod_consts[st.targets[0].id] = st.value.value
    interp = Interp(hooks={'name': lambda n: mod_consts[n] if n in mod_consts
                           else (_ for _ in ()).throw(AnalysisError('unbound name ' + n))})
    cases = 0
    classes = {}
    bad = []

    def sig(req, pos, va, kw, who):
        return {'required': Sized(req, who + '.required'),
                'positional': Sized(pos, who + '.positional'),
                'optional': {},
                'varargs': Opaque('args', truth=True, label='*args') if va else None,
                'kwargs': Opaque('kw', truth=True, label='**kw') if kw else None}
    rng = range(0, 4)
    for ir, ip, rr, rp in itertools.product(rng, rng, rng, rng):
        if ir > ip or rr > rp:
            continue
        for iv, rv, ik, rk in itertools.product((False, True), repeat=4):
            cases += 1
            out = outcome(interp, func, [sig(rr, rp, rv, rk, 'required'),
                                         sig(ir, ip, iv, ik, 'implemented')])
            if out[0] != 'return':
                raise AnalysisError('_incompat raised %s' % (out,))
            code_ok = not out[1]
            want = bool(spec_compatible(ir, rr, ip, rp, iv, rv, ik, rk))
            cls = ((ir > rr) - (ir < rr), (ip > rp) - (ip < rp), iv, rv, ik, rk)
            classes.setdefault(cls, set()).add(code_ok)
            if code_ok != want:
                bad.append({'impl': {'required': ir, 'positional': ip,
                                     'varargs': iv, 'kwargs': ik},
                            'iface': {'required': rr, 'positional': rp,
                                      'varargs': rv, 'kwargs': rk},
                            'code_says': 'compatible' if code_ok else out[1],
                            'spec_says': 'compatible' if want else 'incompatible'})
    TABLE.update(cases=cases, classes=len(classes), atoms=sorted(interp.atoms))
    return cases, classes, bad, interp


def run(rep):
    repo = rep.repo
    mod = repo.module('verify.py')
    rep.rule('R17.1', '_incompat decision table over all orderings of the four '
             'arities and the four */** flags equals the specification derived '
             'from the statement: compatible iff impl.required <= iface.required '
             'and (impl.positional >= iface.positional or impl.*args) and '
             '(iface.*args => impl.*args) and (iface.**kw => impl.**kw)', floor=1)
    rep.rule('R17.2', '_verify collects: the loop over the inherited view has '
             'no exit other than exhaustion, every Invalid from an element is '
             'caught and appended, DoesNotImplement appended iff not tentative '
             'and not tester(candidate); one error -> raised alone, several -> '
             'MultipleInvalid(iface, candidate, excs), none -> True', floor=3)
    rep.rule('R17.3', 'selection: vtype c -> implementedBy else providedBy; '
             'functions on a class under vtype c described with imlevel=1, '
             'bound methods through fromMethod, other functions imlevel 0; '
             '_incompat(required, implemented) argument order; missing '
             'attribute -> BrokenImplementation', floor=7)
    rep.rule('R17.4', 'the verified view is namesAndDescriptions(all=True) and '
             'that accessor follows __iro__ (C15 R15.1)', floor=2)
    rep.rule('R17.5', 'the implementation signature that _incompat compares is '
             'the one the function has: fromFunction derives positional / '
             'required / optional / varargs / kwargs from the co_varnames '
             'layout on every path (shared with C18 R18.1)', floor=8)
    rep.decline('the "cannot be introspected" cases of _verify_element '
                '(builtins, descriptors, properties) beyond the branch '
                'conditions of R17.3')

    # ---- R17.1 ---------------------------------------------------------------
    f = find_def(mod, '_incompat')
    cases, classes, bad, interp = arity_table(rep, f)
    ok = not bad
    detail = ('%d concrete cases covering %d abstract classes (orderings of '
              'required/positional arities x flags), all agree with the '
              'specification; atoms compared by the code: %s'
              % (cases, len(classes), sorted(interp.atoms)))
    if bad:
        detail = {'disagreements': len(bad), 'first': bad[:3]}
    rep.check('R17.1', 'verify._incompat', ok, detail, construct='table', node=f)

    # ---- R17.2 ---------------------------------------------------------------
    v = find_def(mod, '_verify')
    from . import specsem
    specsem.verify_collects(rep, mod, 'R17.2', 'R17.3')
    vc = find_def(mod, 'verifyClass')
    vo = find_def(mod, 'verifyObject')
    from ..sympath import summaries as _S, normal as _N
    from .sem import nt as _nt
    for fn_, vt in ((vc, 'c'), (vo, 'o')):
        ss_ = _N(_S(fn_))
        want = ("_verify(iface, candidate, tentative, vtype='%s')" % vt,
                "_verify(iface, candidate, tentative, '%s')" % vt)
        ok_ = bool(ss_) and all(_nt(ps.ret) in want for ps in ss_)
        rep.check('R17.3', 'verify.' + fn_.name, ok_,
                  "%s -> vtype '%s' (%s)" % (fn_.name, vt, sorted({_nt(ps.ret)[:60]
                                                                  for ps in ss_})),
                  construct='vtype', node=fn_)
    from . import verifysem
    verifysem.verify_element(rep, mod, 'R17.3')

    # ---- R17.4 ---------------------------------------------------------------
    ok = any(match('iface.namesAndDescriptions(all=True)', header_expr(n)) is not None or
             match('iface.namesAndDescriptions(True)', header_expr(n)) is not None
             for n in cfg_of(v).nodes if n.kind == 'iter')
    rep.check('R17.4', 'verify._verify', ok,
              'iterates iface.namesAndDescriptions(all=True) (every attribute '
              'the interface or its bases name)', construct='view', node=v)
    imod = repo.module('interface.py')
    nd = find_def(imod, 'InterfaceClass.namesAndDescriptions')
    from .C15 import linearization_source
    kinds = {k for k, d in linearization_source(nd)}
    rep.check('R17.4', 'InterfaceClass.namesAndDescriptions',
              'iro' in kinds and 'bases' not in kinds,
              'the inherited view is built from __iro__ (sources %s)' % sorted(kinds),
              construct='iro', node=nd)
    # the recursion/loop passes through every ancestor: covered in C15

    # ---- R17.5 ---------------------------------------------------------------
    from .C18 import from_function_layout
    from_function_layout(rep, imod, 'R17.5')


def extra_coverage(rep):
    return {'exhaustive': True, 'decision_table': TABLE}
