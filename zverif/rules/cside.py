"""C-accelerator side of the rules (clang AST of the build configuration)."""
from ..core import AnalysisError
from . import csem
from ..cfront import (unit, ccfg, show, calls, c_assigned, c_reaching, c_resolve,
                      node_calls, nodes_calling, returns, is_var, is_field,
                      witness, E)

CACHE_FIELDS = ('_cache', '_mcache', '_scache')
WORKERS = {'lookup': '_lookup', 'lookup1': '_lookup1',
           'queryAdapter': '_adapter_hook', 'adapter_hook': '_adapter_hook',
           'lookupAll': '_lookupAll', 'subscriptions': '_subscriptions'}
UNCACHED = {'_lookup': ('str_uncached_lookup', '_cache', 3),
            '_lookupAll': ('str_uncached_lookupAll', '_mcache', 2),
            '_subscriptions': ('str_uncached_subscriptions', '_scache', 2)}


def cu(rep):
    u = unit(rep.repo.root)
    from .. import ceval
    ceval.UNIT[0] = u
    if '_zope_interface_coptimizations.c' not in rep.repo.files_parsed:
        rep.repo.files_parsed.append('_zope_interface_coptimizations.c')
        rep.repo._src['_zope_interface_coptimizations.c'] = open(u.path).read()
        rep.assume('C analysis covers the preprocessor configuration of the '
                   'installed interpreter only (heap types; -DNDEBUG): ' + u.cmd)
    return u


def where(n):
    return '_zope_interface_coptimizations.c:%s' % (n.line if n is not None else '?')


def ccheck(rep, rule, site, ok, detail, construct='', node=None):
    o = rep.check(rule, site, ok, detail, construct=construct, config='C')
    rep.obls[-1].where = where(node) if node is not None else \
        '_zope_interface_coptimizations.c'
    return o


def pred_call(name, argpred=None):
    def p(n):
        for c in node_calls(n, name):
            if argpred is None or argpred(c):
                return True
        return False
    return p


def struct_pyobject_fields(u, name):
    return [f for f, t in u.structs.get(name, []) if t.replace(' ', '') == 'PyObject*']


# ---------------------------------------------------------------------------

def clears_all(rep, rule, u, struct, clear_fn, traverse_fn):
    fields = struct_pyobject_fields(u, struct)
    rep.require(bool(fields), 'struct %s has no PyObject* members' % struct)
    ss = csem.returning(csem.S(u, clear_fn))
    for fld in fields:
        bad = [ps for ps in ss if not csem.path_clears(ps, fld)]
        ok = bool(ss) and not bad
        ccheck(rep, rule, clear_fn, ok,
               'Py_CLEAR(self->%s) on every path' % fld if ok else
               {'field_not_cleared': fld,
                'path': [repr(e)[:60] for e in bad[0].events][:8] if bad else []},
               construct='clear:' + fld)
    st = csem.S(u, traverse_fn)
    for fld in fields:
        ok = any(csem.args_of(e) == ['self->' + fld]
                 for ps in st for e in csem.calls(ps, 'Py_VISIT'))
        ccheck(rep, rule, traverse_fn, ok,
               'GC traversal visits self->%s' % fld, construct='visit:' + fld)
    return fields


def inv2_c(rep, u, rule='INV-2'):
    fields = clears_all(rep, rule, u, 'LB', 'LB_clear', 'LB_traverse')
    ccheck(rep, rule, 'struct LB', set(fields) == set(CACHE_FIELDS),
           'cache members of struct LB: %s' % fields, construct='members')
    ccheck(rep, rule, 'LB_changed', csem.every_path_calls(u, 'LB_changed', 'LB_clear', ['self']),
           'LB_changed drops all three caches (LB_clear) on every path',
           construct='changed')
    lb = dict((n, fn) for n, fn, _ in u.method_table('LB_methods'))
    vb = dict((n, fn) for n, fn, _ in u.method_table('VB_methods'))
    ccheck(rep, rule, 'LB_methods', lb.get('changed') == 'LB_changed',
           'LookupBase.changed is LB_changed (%s)' % lb.get('changed'),
           construct='table')
    ccheck(rep, rule, 'VB_methods', vb.get('changed') == 'verify_changed',
           'VerifyingBase.changed is verify_changed (%s)' % vb.get('changed'),
           construct='table')
    clears_all(rep, rule, u, 'VB', 'VB_clear', 'VB_traverse')
    ccheck(rep, rule, 'VB_clear', csem.every_path_calls(u, 'VB_clear', 'LB_clear', []),
           'VB_clear also clears the inherited caches (LB_clear)', construct='base')
    ccheck(rep, rule, 'verify_changed',
           csem.every_path_calls(u, 'verify_changed', 'VB_clear', ['self']),
           'verify_changed clears caches and snapshots (VB_clear) on every path',
           construct='changed')


WORKER_ARGS = {
    '_lookup': ['self', 'required', 'provided', 'name', 'default_'],
    '_lookup1': ['self', 'required', 'provided', 'name', 'default_'],
    '_adapter_hook': ['self', 'provided', 'object', 'name', 'default_'],
    '_lookupAll': ['self', 'required', 'provided'],
    '_subscriptions': ['self', 'required', 'provided'],
}


def verify_first(rep, u, rule='INV-5', only=None):
    lb = dict((n, fn) for n, fn, _ in u.method_table('LB_methods'))
    vb = dict((n, fn) for n, fn, _ in u.method_table('VB_methods'))
    missing = sorted(set(lb) - set(vb))
    ccheck(rep, rule, 'VB_methods', not missing,
           'every LookupBase entry point is overridden in VerifyingBase '
           '(missing: %s)' % missing, construct='coverage')
    for name, fn in sorted(vb.items()):
        if name == 'changed' or (only is not None and name not in only):
            continue
        worker = WORKERS.get(name)
        if worker is None:
            ccheck(rep, rule, fn, False, 'unknown entry point %s' % name,
                   construct='worker')
            continue
        probs = csem.verify_guard(u, fn, worker, WORKER_ARGS[worker])
        ccheck(rep, rule, fn, not probs,
               '_verify(self) < 0 -> return NULL precedes the call of %s(%s)'
               % (worker, ', '.join(WORKER_ARGS[worker])) if not probs else
               {'problems': sorted(set(probs))[:3]}, construct='verify-first')


def verify_compare(rep, u, rule='INV-5'):
    probs = csem.verify_semantics(u)
    ccheck(rep, rule, '_verify', not probs,
           'compares self->_verify_generations with '
           '_generations_tuple(self->_verify_ro); returns without changed() only '
           'when they are equal; errors propagate' if not probs else
           {'problems': sorted(set(probs))[:3]}, construct='compare')
    probs = csem.generations_tuple(u)
    ccheck(rep, rule, '_generations_tuple', not probs,
           'for i in [0, PyTuple_GET_SIZE(ro)): generation of ro[i] stored at i; '
           'no early non-error return' if not probs else
           {'problems': sorted(set(probs))[:3]}, construct='all-elements')


def fills(rep, u, rule='INV-4', only=None):
    for fn, (meth, field, nargs) in UNCACHED.items():
        if only is not None and fn not in only:
            continue
        probs, kinds = csem.cache_protocol(u, fn)
        if not probs and not {'hit', 'miss', 'error'} <= kinds:
            probs = ['path kinds %s' % sorted(kinds)]
        ccheck(rep, rule, fn, not probs,
               'probes self->%s[provided]%s with tuple(required)%s; a hit returns '
               'the stored value; a miss calls self.%s(...) once and stores exactly '
               'its result under the probed key' % (
                   field, '[name]' if nargs == 3 else '',
                   ' (the bare spec for one required)' if nargs == 3 else '', meth[4:])
               if not probs else {'problems': sorted(set(probs))[:3]}, construct='fill')
    if only is not None and '_getcache' not in only:
        return
    # _getcache reads the _cache field, keyed provided then name
    probs = []
    n = 0
    for ps in csem.returning(csem.S(u, '_getcache')):
        sc = csem.calls(ps, '_subcache')
        if csem.ret(ps) == 'NULL':
            continue
        n += 1
        lvl1 = '_subcache(self->_cache, provided)'
        named = ps.fact('name') and ps.fact('PyObject_IsTrue(name)')
        want = ('_subcache(%s, name)' % lvl1) if named else lvl1
        if csem.ret(ps) != want:
            probs.append('%s name -> %s' % ('non-empty' if named else 'no/empty',
                                            csem.ret(ps)[:70]))
    ccheck(rep, rule, '_getcache', not probs and n >= 1,
           'self->_cache[provided], and [name] below it for a non-empty name'
           if not probs else {'levels': probs[:2]}, construct='levels')


def c05(rep):
    u = cu(rep)
    inv2_c(rep, u)
    verify_first(rep, u)
    verify_compare(rep, u)
    verify_snapshot_c(rep, u, 'INV-5')
    fills(rep, u)


def c06(rep):
    u = cu(rep)
    verify_snapshot_c(rep, u, 'R06.5')
    verify_first(rep, u, rule='R06.6')
    verify_compare(rep, u, rule='R06.6')


def verify_snapshot_c(rep, u, rule):
    """snapshot shape in C (verify_changed): every registry above the
    verifying one, and the generations of exactly those"""
    RO = 'PyObject_GetAttr(PyObject_GetAttr(self, str_registry), strro)'
    # tuple(ro): calling the tuple type with one argument IS PySequence_Tuple
    TS = ['PyObject_CallFunctionObjArgs(&PyTuple_Type, %s, NULL)' % RO,
          'PySequence_Tuple(%s)' % RO]
    SLS = ['PyTuple_GetSlice(%s, 1, PyTuple_GET_SIZE(%s))' % (T, T) for T in TS] + \
        ['PyTuple_GetSlice(%s, 1, PyTuple_Size(%s))' % (T, T) for T in TS]
    p_snap, p_gen = [], []
    n = 0
    for ps in csem.returning(csem.S(u, 'verify_changed')):
        st = {show(e.e): show(e.val) for e in ps.stores()}
        if csem.ret(ps) == 'NULL':
            if any(v != 'NULL' for v in st.values()):
                p_snap.append('a failing path leaves a partial snapshot')
            continue
        n += 1
        if st.get('self->_verify_ro') not in SLS:
            p_snap.append('_verify_ro = `%s`' % (st.get('self->_verify_ro') or 'unset')[:90])
        if st.get('self->_verify_generations') != '_generations_tuple(%s)' % \
                st.get('self->_verify_ro'):
            p_gen.append('_verify_generations = `%s`'
                         % (st.get('self->_verify_generations') or 'unset')[:90])
    ccheck(rep, rule, 'verify_changed', not p_snap and n >= 1,
           '_verify_ro = tuple(self._registry.ro)[1:]' if not p_snap else
           {'problems': sorted(set(p_snap))[:3]}, construct='snapshot')
    ccheck(rep, rule, 'verify_changed', not p_gen and n >= 1,
           'generations are taken from exactly the registries stored in _verify_ro'
           if not p_gen else {'problems': sorted(set(p_gen))[:3]},
           construct='generations')


def name_guard_c(rep, u, rule, fn, first_uses):
    probs = csem.name_guard(u, fn, first_uses)
    ccheck(rep, rule, fn, not probs,
           'non-str name raises ValueError and returns NULL before any of %s'
           % first_uses if not probs else {'problems': sorted(set(probs))[:3]},
           construct='name-guard')


def c08(rep):
    u = cu(rep)
    name_guard_c(rep, u, 'R08.3', '_lookup', ['_getcache', 'PySequence_Tuple'])
    name_guard_c(rep, u, 'R08.3', '_lookup1', ['_getcache', '_lookup'])
    name_guard_c(rep, u, 'R08.3', '_adapter_hook', ['providedBy', '_lookup1'])
    # R08.2 key agreement in C (part of the memoisation protocol)
    probs, kinds = csem.cache_protocol(u, '_lookup')
    kp = [p for p in probs if 'key' in p]
    ccheck(rep, 'R08.2', '_lookup', not kp and 'hit' in kinds,
           'key = required[0] iff PyTuple_GET_SIZE(required) == 1 else the tuple; '
           'read and write use the same key' if not kp else
           {'problems': sorted(set(kp))[:3]}, construct='keys')
    # _lookup1
    C = '_getcache(self, provided, name)'
    G = 'PyDict_GetItem(%s, required)' % C
    p_probe, p_del, p_tab = [], [], []
    kinds = set()
    for ps in csem.returning(csem.S(u, '_lookup1')):
        r = csem.ret(ps)
        gets = csem.calls(ps, 'PyDict_GetItem')
        dl = csem.calls(ps, '_lookup')
        if not gets:
            if r != 'NULL' or dl:
                p_probe.append('returns `%s` without probing the cache' % r[:40])
            continue
        if [show(g.e) for g in gets] != [G]:
            p_probe.append('probes %s' % [show(g.e)[:60] for g in gets])
            continue
        hit = ps.fact(G)
        if hit:
            none, dflt = ps.fact('(%s == Py_None)' % G), ps.fact('default_')
            # either test decides alone when it is false (short-circuit order
            # is free): no default, or not None -> the cached value
            if none is False or dflt is False:
                want = G
            elif none is True and dflt is True:
                want = 'default_'
            else:
                p_tab.append('cached None / default not examined')
                continue
            kinds.add('hit-default' if want == 'default_' else 'hit')
            if r != want or dl:
                p_tab.append('hit returns `%s` (required `%s`)' % (r[:50], want[:50]))
        else:
            if r == 'NULL' and not dl:
                continue
            kinds.add('miss')
            if len(dl) != 1:
                p_del.append('miss calls _lookup %d times' % len(dl))
                continue
            a = csem.args_of(dl[0])
            packed = a[1] == 'PyTuple_Pack(1, required)' or (
                a[1] == 'PyTuple_New(1)' and any(
                    csem.args_of(e) == ['PyTuple_New(1)', '0', 'required']
                    and ps.index(e) < ps.index(dl[0])
                    for e in csem.calls(ps, 'PyTuple_SET_ITEM')))
            if not packed or [a[0]] + a[2:] != ['self', 'provided', 'name', 'default_']:
                p_del.append('miss delegates to _lookup(%s)' % ', '.join(a)[:80])
            if r != show(dl[0].e):
                p_del.append('miss returns `%s`' % r[:50])
    ccheck(rep, 'R08.2', '_lookup1', not p_probe,
           'probes _getcache(self, provided, name) with the bare specification'
           if not p_probe else {'problems': sorted(set(p_probe))[:3]}, construct='probe')
    ccheck(rep, 'R08.1', '_lookup1', not p_del and 'miss' in kinds,
           'miss delegates to _lookup(self, (required,), provided, name, default_)'
           if not p_del else {'problems': sorted(set(p_del))[:3]}, construct='delegate')
    ccheck(rep, 'R08.5', '_lookup1', not p_tab and {'hit', 'hit-default'} <= kinds,
           'cached None with a default -> the default; otherwise the cached value'
           if not p_tab else {'problems': sorted(set(p_tab))[:3]}, construct='table')
    # _adapter_hook
    RQ = 'providedBy(_get_module(Py_TYPE(self)), object)'
    L1 = '_lookup1(self, %s, provided, name, Py_None)' % RQ
    SELF = 'PyObject_GetAttr(object, str__self__)'
    p_del, p_call, p_res = [], [], []
    kinds = set()
    for ps in csem.returning(csem.S(u, '_adapter_hook')):
        r = csem.ret(ps)
        l1 = csem.calls(ps, '_lookup1')
        fc = [e for e in csem.calls(ps, 'PyObject_CallFunctionObjArgs')]
        if not l1:
            if r != 'NULL' or fc:
                p_del.append('returns `%s` without a lookup' % r[:40])
            continue
        if [show(e.e) for e in l1] != [L1]:
            p_del.append('looks up %s' % [show(e.e)[:80] for e in l1])
            continue
        found = ps.fact(L1)
        if not found:
            if r != 'NULL':
                p_res.append('failed lookup returns %s' % r[:40])
            continue
        none = ps.fact('(%s == Py_None)' % L1)
        if none is None:
            p_call.append('factory not compared with None')
            continue
        if none:
            if fc:
                p_call.append('calls a None factory')
            res = L1
        else:
            sup = ps.fact('PyObject_TypeCheck(object, &PySuper_Type)')
            if sup is None:
                p_call.append('super objects not recognised')
                continue
            if sup and ps.fact(SELF) is False:
                if r != 'NULL':
                    p_res.append('failed __self__ read returns %s' % r[:40])
                continue
            arg = SELF if sup else 'object'
            want = 'PyObject_CallFunctionObjArgs(%s, %s, NULL)' % (L1, arg)
            kinds.add('super' if sup else 'plain')
            if [show(e.e) for e in fc] != [want]:
                p_call.append('factory call %s (required %s)' % (
                    [show(e.e)[-60:] for e in fc], want[-40:]))
                continue
            if any(csem.args_of(e)[1:2] == ['str__self__'] and
                   ps.index(e) < ps.index(l1[0]) for e in csem.calls(ps, 'PyObject_GetAttr')):
                p_call.append('the super proxy is unwrapped before the lookup')
            res = want
            if ps.fact(res) is False:
                if r != 'NULL' and r != res:
                    p_res.append('failed factory returns %s' % r[:40])
                continue
            none = ps.fact('(%s == Py_None)' % res)
            if none is None:
                p_res.append('factory result not compared with None')
                continue
        dflt = ps.fact('default_')
        if none and dflt is None:
            p_res.append('None result: default not consulted')
            continue
        want_r = 'default_' if (none and dflt) else res
        kinds.add('default' if want_r == 'default_' else 'value')
        same = ps.fact('(default_ == %s)' % res)
        if same is None and none:
            # the result is known to be None here: comparing the default with
            # Py_None is the same test
            same = ps.fact('(default_ == Py_None)')
        if same and r in (res, 'Py_None'):
            continue        # the default is the None that was found
        if none and not dflt and r in (res, 'Py_None'):
            continue        # no default: None
        if r != want_r:
            p_res.append('returns `%s` (required `%s`)' % (r[-50:], want_r[-50:]))
    ccheck(rep, 'R08.1', '_adapter_hook', not p_del,
           'looks up (providedBy(object),) via _lookup1(self, required, provided, '
           'name, None)' if not p_del else {'problems': sorted(set(p_del))[:3]},
           construct='delegate')
    ccheck(rep, 'R08.5', '_adapter_hook', not p_call and {'super', 'plain'} <= kinds,
           'factory(object) only when factory is not None; a super proxy is '
           'replaced by its __self__ after the lookup and before the call'
           if not p_call else {'problems': sorted(set(p_call))[:3]}, construct='call')
    ccheck(rep, 'R08.5', '_adapter_hook', not p_res and {'default', 'value'} <= kinds,
           'returns the factory result when it is not None, else the default (or '
           'None)' if not p_res else {'problems': sorted(set(p_res))[:3]},
           construct='result')
    # queryAdapter(object, provided) -> _adapter_hook(provided, object)
    for fn in ('LB_queryAdapter', 'LB_adapter_hook'):
        f = u.func(fn)
        g = ccfg(f)
        kw = [n.e.a[2] for n in g.nodes if n.e is not None and n.e.k == 'decl'
              and n.e.a[2] is not None and n.e.a[2].k == 'initlist']
        names = [x.a[0] for x in kw[0].a[0] if x is not None and x.k == 'str'] if kw else []
        pa = [c for n in g.nodes for c in node_calls(n, 'PyArg_ParseTupleAndKeywords')]
        outs = [show(a)[1:] for a in pa[0].a[1][4:]] if pa else []
        want_names = ['object', 'provided', 'name', 'default'] if fn == 'LB_queryAdapter' \
            else ['provided', 'object', 'name', 'default']
        okn = names == want_names and \
            [o.rstrip('_') for o in outs] == [w for w in want_names]
        cs = [e for ps in csem.returning(csem.S(u, fn)) for e in csem.calls(ps, '_adapter_hook')]
        okc = bool(cs) and all(csem.args_of(e) ==
                               ['self', 'provided', 'object', 'name', 'default_'] for e in cs)
        ccheck(rep, 'R08.1', fn, okn and okc,
               'keywords %s bound to %s; worker called as _adapter_hook(self, '
               'provided, object, name, default_) (%s)' % (names, outs, okc),
               construct='permutation')
    lookup_default_c(rep, u, 'R08.5')


def lookup_default_c(rep, u, rule):
    """_lookup: the substitution None -> default applies to the returned
    value only (never to what is stored), iff a default was given."""
    probs = csem.lookup_result(u)
    ccheck(rep, rule, '_lookup', not probs,
           'default_ returned iff the looked-up value is None and default_ != '
           'NULL; otherwise the looked-up value; the default is never stored'
           if not probs else {'problems': sorted(set(probs))[:3]}, construct='default')


def c04(rep):
    u = cu(rep)
    lookup_default_c(rep, u, 'R04.6')
    fills_one(rep, u, 'R04.6')


def fills_one(rep, u, rule):
    probs, kinds = csem.cache_protocol(u, '_lookup')
    ccheck(rep, rule, '_lookup', not probs and 'miss' in kinds,
           'the negative/positive cache stores exactly what _uncached_lookup '
           'returned (never the caller\'s default)' if not probs else
           {'problems': sorted(set(probs))[:3]}, construct='stored-value')


def c02(rep):
    """R02.5 (C): the C query methods read only the implied set."""
    sb_queries(rep, 'R02.5')


def sb_queries(rep, rule, only=None):
    u = cu(rep)
    if only is not None:
        return _sb_decl_queries(rep, u, rule)
    probs = []
    kinds = set()
    M = 'PyDict_GetItem(self->_implied, other)'
    for ps in csem.returning(csem.S(u, 'SB_extends')):
        impl = ps.fact('self->_implied')
        r = csem.ret(ps)
        if impl is False:
            if r != 'NULL':
                probs.append('no implied set: returns %s' % r)
            continue
        m = ps.fact(M)
        if m is None:
            probs.append('returns `%s` without testing membership of other in '
                         'self->_implied' % r[:60])
            continue
        kinds.add(m)
        if r != ('Py_True' if m else 'Py_False'):
            probs.append('%s returns %s' % ('member' if m else 'non-member', r[:40]))
        extra = [k for k, t, p in ps.order if k not in (M, 'self->_implied')]
        if extra:
            probs.append('also depends on `%s`' % extra[0][:60])
    ccheck(rep, rule, 'SB_extends', not probs and kinds == {True, False},
           'isOrExtends(other) = other is a key of self->_implied' if not probs else
           {'problems': sorted(set(probs))[:3]}, construct='membership')
    _sb_decl_queries(rep, u, rule)
    tbl = dict((n, fn) for n, fn, _ in u.method_table('SB_methods'))
    ccheck(rep, rule, 'SB_methods',
           tbl.get('isOrExtends') == 'SB_extends' and tbl.get('providedBy') == 'SB_providedBy'
           and tbl.get('implementedBy') == 'SB_implementedBy',
           'method table %s' % tbl, construct='table')


def _sb_decl_queries(rep, u, rule):
    for fn, src, arg in (('SB_providedBy', 'providedBy', 'ob'),
                         ('SB_implementedBy', 'implementedBy', 'cls')):
        D = '%s(_get_module(Py_TYPE(self)), %s)' % (src, arg)
        TC = 'PyObject_TypeCheck(%s, _get_specification_base_class(Py_TYPE(self)))' % D
        probs = []
        kinds = set()
        for ps in csem.returning(csem.S(u, fn)):
            d = ps.fact(D)
            r = csem.ret(ps)
            if d is None:
                probs.append('returns `%s` without computing %s(module, %s)'
                             % (r[:40], src, arg))
            elif not d:
                if r != 'NULL':
                    probs.append('failed declaration lookup returns %s' % r[:40])
            else:
                tc = ps.fact(TC)
                if tc is None:
                    probs.append('declaration kind not tested')
                    continue
                kinds.add(tc)
                want = 'SB_extends(%s, self)' % D if tc else \
                    'PyObject_CallFunctionObjArgs(%s, self, NULL)' % D
                if r != want:
                    probs.append('%s declaration: returns `%s`' % (
                        'specification' if tc else 'foreign', r[:70]))
        ccheck(rep, rule, fn, not probs and kinds == {True, False},
               'tests membership of self in the implied set of %s(module, %s) '
               '(direct for specification objects, by calling the declaration '
               'otherwise)' % (src, arg) if not probs else
               {'problems': sorted(set(probs))[:3]}, construct='membership')
