"""C-accelerator side of the rules (clang AST of the build configuration)."""
from ..core import AnalysisError
from ..cfront import (unit, ccfg, show, calls, c_assigned, c_reaching, c_resolve,
                      node_calls, nodes_calling, returns, is_var, is_field,
                      witness, E)

CACHE_FIELDS = ('_cache', '_mcache', '_scache')
WORKERS = {'lookup': '_lookup', 'lookup1': '_lookup1',
           'queryAdapter': '_adapter_hook', 'adapter_hook': '_adapter_hook',
           'lookupAll': '_lookupAll', 'subscriptions': '_subscriptions'}
UNCACHED = {'_lookup': ('str_uncached_lookup', '_cache', 3),
            '_lookupAll': ('str_uncached_lookupAll', '_mcache', 2),
            '_subscriptions': ('str_uncached_subscriptions', '_scache', 2)}


def cu(rep):
    u = unit(rep.repo.root)
    if '_zope_interface_coptimizations.c' not in rep.repo.files_parsed:
        rep.repo.files_parsed.append('_zope_interface_coptimizations.c')
        rep.repo._src['_zope_interface_coptimizations.c'] = open(u.path).read()
        rep.assume('C analysis covers the preprocessor configuration of the '
                   'installed interpreter only (heap types; -DNDEBUG): ' + u.cmd)
    return u


def where(n):
    return '_zope_interface_coptimizations.c:%s' % (n.line if n is not None else '?')


def ccheck(rep, rule, site, ok, detail, construct='', node=None):
    o = rep.check(rule, site, ok, detail, construct=construct, config='C')
    rep.obls[-1].where = where(node) if node is not None else \
        '_zope_interface_coptimizations.c'
    return o


def pred_call(name, argpred=None):
    def p(n):
        for c in node_calls(n, name):
            if argpred is None or argpred(c):
                return True
        return False
    return p


def struct_pyobject_fields(u, name):
    return [f for f, t in u.structs.get(name, []) if t.replace(' ', '') == 'PyObject*']


# ---------------------------------------------------------------------------

def clears_all(rep, rule, u, struct, clear_fn, traverse_fn):
    fields = struct_pyobject_fields(u, struct)
    rep.require(bool(fields), 'struct %s has no PyObject* members' % struct)
    f = u.func(clear_fn)
    g = ccfg(f)
    for fld in fields:
        p = pred_call('Py_CLEAR', lambda c, fld=fld: is_field(c.a[1][0], 'self', fld))
        ok = g.must_pass_after(g.entry, p)
        ccheck(rep, rule, clear_fn, ok,
               'Py_CLEAR(self->%s) on every path' % fld if ok else
               {'field_not_cleared': fld, 'path': witness(g, g.entry, p)},
               construct='clear:' + fld, node=g.entry.succ[0][0] if g.entry.succ else None)
    t = u.func(traverse_fn)
    gt = ccfg(t)
    for fld in fields:
        p = pred_call('Py_VISIT', lambda c, fld=fld: is_field(c.a[1][0], 'self', fld))
        ccheck(rep, rule, traverse_fn, gt.must_pass_after(gt.entry, p) or any(p(n) for n in gt.nodes),
               'GC traversal visits self->%s' % fld, construct='visit:' + fld)
    return fields


def inv2_c(rep, u, rule='INV-2'):
    fields = clears_all(rep, rule, u, 'LB', 'LB_clear', 'LB_traverse')
    ccheck(rep, rule, 'struct LB', set(fields) == set(CACHE_FIELDS),
           'cache members of struct LB: %s' % fields, construct='members')
    f = u.func('LB_changed')
    g = ccfg(f)
    ccheck(rep, rule, 'LB_changed', g.must_pass_after(g.entry, pred_call('LB_clear')),
           'LB_changed drops all three caches (LB_clear) on every path',
           construct='changed')
    lb = dict((n, fn) for n, fn, _ in u.method_table('LB_methods'))
    vb = dict((n, fn) for n, fn, _ in u.method_table('VB_methods'))
    ccheck(rep, rule, 'LB_methods', lb.get('changed') == 'LB_changed',
           'LookupBase.changed is LB_changed (%s)' % lb.get('changed'),
           construct='table')
    ccheck(rep, rule, 'VB_methods', vb.get('changed') == 'verify_changed',
           'VerifyingBase.changed is verify_changed (%s)' % vb.get('changed'),
           construct='table')
    clears_all(rep, rule, u, 'VB', 'VB_clear', 'VB_traverse')
    f = u.func('VB_clear')
    g = ccfg(f)
    ccheck(rep, rule, 'VB_clear', g.must_pass_after(g.entry, pred_call('LB_clear')),
           'VB_clear also clears the inherited caches (LB_clear)', construct='base')
    f = u.func('verify_changed')
    g = ccfg(f)
    first = g.entry
    ccheck(rep, rule, 'verify_changed',
           g.must_pass_after(g.entry, pred_call('VB_clear')),
           'verify_changed clears caches and snapshots (VB_clear) on every path',
           construct='changed')


def verify_first(rep, u, rule='INV-5'):
    lb = dict((n, fn) for n, fn, _ in u.method_table('LB_methods'))
    vb = dict((n, fn) for n, fn, _ in u.method_table('VB_methods'))
    missing = sorted(set(lb) - set(vb))
    ccheck(rep, rule, 'VB_methods', not missing,
           'every LookupBase entry point is overridden in VerifyingBase '
           '(missing: %s)' % missing, construct='coverage')
    for name, fn in sorted(vb.items()):
        if name == 'changed':
            continue
        worker = WORKERS.get(name)
        if worker is None:
            ccheck(rep, rule, fn, False, 'unknown entry point %s' % name,
                   construct='worker')
            continue
        f = u.func(fn)
        g = ccfg(f)
        wn = nodes_calling(g, worker)
        # the verify test: `_verify(self) < 0` with the T edge returning NULL
        vt = [n for n in g.nodes if n.kind == 'test' and node_calls(n, '_verify')]
        okv = False
        detail = 'no `_verify(self) < 0` test'
        if vt and wn:
            v = vt[0]
            e = v.e
            okform = e.k == 'bin' and e.a[0] == '<' and e.a[2].k == 'const' and \
                e.a[2].a[0] == 0
            tnext = [m for m, lab in v.succ if lab == 'T']
            okret = bool(tnext) and tnext[0].e is not None and \
                tnext[0].e.k == 'return' and tnext[0].e.a[0] is not None and \
                tnext[0].e.a[0].k == 'null'
            okdom = all(g.dominated_by(w, lambda n: n is v) for w in wn)
            okv = okform and okret and okdom
            detail = ('_verify(self) < 0 -> return NULL (%s/%s) dominates the '
                      'call of %s (%s)' % (okform, okret, worker, okdom))
        elif not wn:
            others = sorted({c.a[0] for n in g.nodes for c in node_calls(n)
                             if isinstance(c.a[0], str)})
            detail = ('does not call its worker %s directly (calls %s): the '
                      'generation check is bypassed' % (worker, others))
        ccheck(rep, rule, fn, okv, detail, construct='verify-first',
               node=vt[0] if vt else None)
        # worker gets the parsed arguments in the worker's order
        if wn:
            c = node_calls(wn[0], worker)[0]
            args = [show(a) for a in c.a[1]]
            want = {
                '_lookup': ['self', 'required', 'provided', 'name', 'default_'],
                '_lookup1': ['self', 'required', 'provided', 'name', 'default_'],
                '_adapter_hook': ['self', 'provided', 'object', 'name', 'default_'],
                '_lookupAll': ['self', 'required', 'provided'],
                '_subscriptions': ['self', 'required', 'provided'],
            }[worker]
            ccheck(rep, rule, fn, args == want,
                   '%s(%s) (required order %s)' % (worker, ', '.join(args), want),
                   construct='worker-args', node=wn[0])


def verify_compare(rep, u, rule='INV-5'):
    f = u.func('_verify')
    g = ccfg(f)
    # every `return 0` is either after a changed() call or behind changed == 0
    cmpn = [n for n in g.nodes if node_calls(n, 'PyObject_RichCompareBool')]
    ok = len(cmpn) == 1
    detail = 'comparisons: %d' % len(cmpn)
    if ok:
        c = node_calls(cmpn[0], 'PyObject_RichCompareBool')[0]
        a, b, op = c.a[1]
        opv = op.a[0] if op.k == 'const' else None
        ra, rb = c_resolve(g, cmpn[0], a), c_resolve(g, cmpn[0], b)
        sides = [show(ra), show(rb)]
        okargs = 'self->_verify_generations' in sides
        other = [x for x in (ra, rb) if show(x) != 'self->_verify_generations']
        okgen = False
        if okargs and len(other) == 1:
            v = other[0]
            okgen = v is not None and v.k == 'call' and v.a[0] == '_generations_tuple'
            if okgen:
                gn = [n for n in g.nodes if node_calls(n, '_generations_tuple')]
                arg = c_resolve(g, gn[0], v.a[1][0]) if gn else v.a[1][0]
                okgen = show(arg) == 'self->_verify_ro'
        var = list(c_assigned(cmpn[0]))[0] if c_assigned(cmpn[0]) else None
        # unchanged exit
        unchanged = 0 if opv == 3 else (1 if opv == 2 else None)
        chg = pred_call('PyObject_CallMethodObjArgs',
                        lambda cc: len(cc.a[1]) > 1 and show(cc.a[1][1]) == 'strchanged')
        okexit = unchanged is not None
        if okexit:
            for r in returns(g):
                if r.e.a[0] is not None and r.e.a[0].k == 'const' and r.e.a[0].a[0] == 0:
                    # paths reaching this return without changed()
                    back = g.reach(r, avoid=chg, forward=False)
                    if g.entry.id in back:
                        # must be guarded by `changed == unchanged` T
                        pr = [p for p, lab in r.pred]
                        okg = all(p.kind == 'test' and p.e.k == 'bin' and p.e.a[0] == '=='
                                  and is_var(p.e.a[1], var) and p.e.a[2].k == 'const'
                                  and p.e.a[2].a[0] == unchanged for p in pr)
                        okexit = okexit and okg
        ok = okargs and okgen and okexit
        detail = ('compares self->_verify_generations with '
                  '_generations_tuple(self->_verify_ro) (%s/%s); returns without '
                  'changed() only when they are equal (%s)' % (okargs, okgen, okexit))
    ccheck(rep, rule, '_verify', ok, detail, construct='compare',
           node=cmpn[0] if cmpn else None)
    # _generations_tuple covers every element
    f = u.func('_generations_tuple')
    g = ccfg(f)
    heads = [n for n in g.nodes if n.e is not None and n.e.k == 'loophead']
    ok = len(heads) == 1
    detail = 'loops: %d' % len(heads)
    if ok:
        tests = [n for n in g.nodes if n.kind == 'test' and n.e.k == 'bin'
                 and n.e.a[0] == '<' and is_var(n.e.a[1], 'i') and is_var(n.e.a[2], 'l')]
        lv = [v for n in g.nodes for k, v in c_assigned(n).items() if k == 'l' and v is not None]
        okl = bool(lv) and all(v.k == 'call' and v.a[0] == 'PyTuple_GET_SIZE'
                               and is_var(v.a[1][0], 'ro') for v in lv)
        iv = [v for n in g.nodes for k, v in c_assigned(n).items() if k == 'i']
        oki = any(v is not None and v.k == 'const' and v.a[0] == 0 for v in iv)
        geta = [c for n in g.nodes for c in node_calls(n, 'PyObject_GetAttr')]
        okg = len(geta) == 1 and show(geta[0].a[1][0]) == 'PyTuple_GET_ITEM(ro, i)' \
            and show(geta[0].a[1][1]) == 'str_generation'
        seti = [c for n in g.nodes for c in node_calls(n, 'PyTuple_SET_ITEM')]
        oks = len(seti) == 1 and [show(a) for a in seti[0].a[1][:2]] == ['generations', 'i']
        # returns inside the loop only on the error path (NULL)
        okr = True
        for r in returns(g):
            v = r.e.a[0]
            if v is not None and v.k != 'null':
                # a non-NULL return must not be inside the loop
                inloop = heads[0].id in g.reach(r, forward=False) and \
                    any(t.id in g.reach(r, forward=False) for t in tests) and \
                    not any(lab == 'F' and m is r or
                            (lab == 'F' and r.id in g.reach(m, include_start=True,
                                                            avoid=lambda x: x is heads[0]))
                            for t in tests for m, lab in t.succ)
                okr = okr and not inloop
        ok = bool(tests) and okl and oki and okg and oks and okr
        detail = ('for i in [0, PyTuple_GET_SIZE(ro)): generation of ro[i] stored '
                  'at i; no early non-error return (bounds %s/%s/%s, get %s, '
                  'store %s, no-early-return %s)' % (bool(tests), okl, oki, okg, oks, okr))
    ccheck(rep, rule, '_generations_tuple', ok, detail, construct='all-elements')


def fills(rep, u, rule='INV-4'):
    for fn, (meth, field, nargs) in UNCACHED.items():
        f = u.func(fn)
        g = ccfg(f)
        sets = [n for n in g.nodes if node_calls(n, 'PyDict_SetItem')]
        ok = len(sets) == 1
        detail = 'PyDict_SetItem calls: %d' % len(sets)
        if ok:
            c = node_calls(sets[0], 'PyDict_SetItem')[0]
            cache, key, val = c.a[1]
            okv = False
            vd = 'stored value %s' % show(val)
            if is_var(val):
                defs = c_reaching(g, sets[0], val.a[0])
                okv = bool(defs) and all(
                    v is not None and v.k == 'call' and
                    v.a[0] == 'PyObject_CallMethodObjArgs' and
                    show(v.a[1][1]) == meth for d, v in defs)
                vd = 'value stored in the cache comes only from self.%s(...): %s' % (
                    meth[3:], [show(v)[:70] if v is not None else 'param' for d, v in defs])
                if okv:
                    args = [show(a) for a in defs[0][1].a[1][2:]]
                    want = ['required', 'provided'] + (['name'] if nargs == 3 else []) + ['NULL']
                    okv = args == want
                    vd += '; arguments %s' % args
            # the container comes from the right cache field
            okc = False
            cd = show(cache)
            if is_var(cache):
                defs = c_reaching(g, sets[0], cache.a[0])
                def from_field(v):
                    if v is None or v.k != 'call':
                        return False
                    if v.a[0] == '_getcache':
                        return field == '_cache' and [show(a) for a in v.a[1]] == \
                            ['self', 'provided', 'name']
                    if v.a[0] == '_subcache':
                        return is_field(v.a[1][0], 'self', field) and show(v.a[1][1]) == 'provided'
                    return False
                okc = bool(defs) and all(from_field(v) for d, v in defs)
                cd = [show(v)[:60] if v is not None else 'param' for d, v in defs]
            # same container and key are used for the read
            gets = [c2 for n in g.nodes for c2 in node_calls(n, 'PyDict_GetItem')]
            okk = len(gets) == 1 and show(gets[0].a[1][0]) == show(cache) and \
                show(gets[0].a[1][1]) == show(key)
            ok = okv and okc and okk
            detail = '%s; container %s (required self->%s); read and write use the same key `%s` (%s)' % (
                vd, cd, field, show(key), okk)
        ccheck(rep, rule, fn, ok, detail, construct='fill', node=sets[0] if sets else None)
    # _getcache reads the _cache field, keyed provided then name
    f = u.func('_getcache')
    g = ccfg(f)
    sc = [c for n in g.nodes for c in node_calls(n, '_subcache')]
    ok = len(sc) == 2 and show(sc[0].a[1][0]) == 'self->_cache' and \
        show(sc[0].a[1][1]) == 'provided' and show(sc[1].a[1][1]) == 'name'
    ccheck(rep, rule, '_getcache', ok,
           'two-level cache self->_cache[provided][name]: %s' % [show(c) for c in sc],
           construct='levels')


def c05(rep):
    u = cu(rep)
    inv2_c(rep, u)
    verify_first(rep, u)
    verify_compare(rep, u)
    fills(rep, u)


def c06(rep):
    u = cu(rep)
    # R06.5 snapshot shape in C
    f = u.func('verify_changed')
    g = ccfg(f)
    sl = [c for n in g.nodes for c in node_calls(n, 'PyTuple_GetSlice')]
    ok = len(sl) == 1
    detail = 'PyTuple_GetSlice calls: %d' % len(sl)
    if ok:
        a = sl[0].a[1]
        ok = a[1].k == 'const' and a[1].a[0] == 1 and \
            show(a[2]) == 'PyTuple_GET_SIZE(%s)' % show(a[0])
        # the sliced tuple is tuple(registry.ro)
        src = c_reaching(g, [n for n in g.nodes if node_calls(n, 'PyTuple_GetSlice')][0],
                         a[0].a[0]) if is_var(a[0]) else []
        oksrc = bool(src) and all(
            v is not None and v.k == 'call' and v.a[0] == 'PyObject_CallFunctionObjArgs'
            and 'PyTuple_Type' in show(v.a[1][0]) for d, v in src)
        getro = [c for n in g.nodes for c in node_calls(n, 'PyObject_GetAttr')]
        okattr = [show(c.a[1][1]) for c in getro] == ['str_registry', 'strro']
        ok = ok and oksrc and okattr
        detail = ('_verify_ro = tuple(self._registry.ro)[1:] (slice %s, source '
                  '%s, attributes %s)' % (show(sl[0]), oksrc, okattr))
    ccheck(rep, 'R06.5', 'verify_changed', ok, detail, construct='snapshot')
    st = {}
    for n in g.nodes:
        if n.e is not None and n.e.k == 'expr' and n.e.a[0].k == 'assign' and \
                n.e.a[0].a[1].k == 'field':
            st[n.e.a[0].a[1].a[1]] = (n, n.e.a[0].a[2])
    ok = '_verify_generations' in st and '_verify_ro' in st
    if ok:
        gv = c_resolve(g, st['_verify_generations'][0], st['_verify_generations'][1])
        rv = st['_verify_ro'][1]
        ok = gv is not None and gv.k == 'call' and gv.a[0] == '_generations_tuple' \
            and show(gv.a[1][0]) == show(rv)
    ccheck(rep, 'R06.5', 'verify_changed', ok,
           'generations are taken from exactly the registries stored in '
           '_verify_ro: %s' % {k: show(v[1]) for k, v in st.items()},
           construct='generations')
    verify_first(rep, u, rule='R06.6')
    verify_compare(rep, u, rule='R06.6')


def name_guard_c(rep, u, rule, fn, first_uses):
    f = u.func(fn)
    g = ccfg(f)
    tests = [n for n in g.nodes if n.kind == 'test' and n.e.k == 'call'
             and n.e.a[0] == 'PyUnicode_Check' and is_var(n.e.a[1][0], 'name')]
    ok = len(tests) == 1
    detail = 'no PyUnicode_Check(name) guard'
    if ok:
        t = tests[0]
        fnext = [m for m, lab in t.succ if lab == 'F']
        okraise = bool(fnext) and bool(node_calls(fnext[0], 'PyErr_SetString')) and \
            'PyExc_ValueError' in show(fnext[0].e)
        okret = False
        if okraise:
            nn = [m for m, lab in fnext[0].succ]
            okret = bool(nn) and nn[0].e is not None and nn[0].e.k == 'return' and \
                nn[0].e.a[0].k == 'null'
        uses = [n for n in g.nodes for nm in first_uses if node_calls(n, nm)]
        # the accepting way past the guard: name == NULL or the check is true
        def guard(n):
            return n is t
        namenull = [n for n in g.nodes if n.kind == 'test' and is_var(n.e, 'name')]
        okdom = bool(uses) and all(
            g.dominated_by(x, lambda n: n is t or n in namenull) for x in uses)
        ok = okraise and okret and okdom
        detail = ('non-str name raises ValueError and returns NULL (%s/%s) before '
                  'any of %s (%s)' % (okraise, okret, first_uses, okdom))
    ccheck(rep, rule, fn, ok, detail, construct='name-guard',
           node=tests[0] if tests else None)


def c08(rep):
    u = cu(rep)
    name_guard_c(rep, u, 'R08.3', '_lookup', ['_getcache', 'PySequence_Tuple'])
    name_guard_c(rep, u, 'R08.3', '_lookup1', ['_getcache', '_lookup'])
    name_guard_c(rep, u, 'R08.3', '_adapter_hook', ['providedBy', '_lookup1'])
    # R08.2 key agreement in C
    f = u.func('_lookup')
    g = ccfg(f)
    kd = [(n, v) for n in g.nodes for k, v in c_assigned(n).items()
          if k == 'key' and v is not None and v.k != 'null']
    ok = len(kd) == 2
    detail = 'key definitions: %s' % [show(v) for n, v in kd]
    if ok:
        one = [n for n, v in kd if show(v) == 'PyTuple_GET_ITEM(required, 0)']
        tup = [n for n, v in kd if show(v) == 'required']
        ok = len(one) == 1 and len(tup) == 1
        if ok:
            t = [p for p, lab in one[0].pred]
            ok = len(t) == 1 and t[0].kind == 'test' and \
                show(t[0].e) == '(PyTuple_GET_SIZE(required) == 1)' and \
                any(m is one[0] and lab == 'T' for m, lab in t[0].succ) and \
                any(m is tup[0] and lab == 'F' for m, lab in t[0].succ)
    ccheck(rep, 'R08.2', '_lookup', ok,
           'key = required[0] iff PyTuple_GET_SIZE(required) == 1 else the tuple; %s'
           % detail, construct='keys')
    f = u.func('_lookup1')
    g = ccfg(f)
    gets = [c for n in g.nodes for c in node_calls(n, 'PyDict_GetItem')]
    ok = len(gets) == 1 and [show(a) for a in gets[0].a[1]] == ['cache', 'required']
    cd = [v for n in g.nodes for k, v in c_assigned(n).items() if k == 'cache' and v is not None]
    ok = ok and len(cd) == 1 and show(cd[0]) == '_getcache(self, provided, name)'
    ccheck(rep, 'R08.2', '_lookup1', ok,
           'probes _getcache(self, provided, name) with the bare specification',
           construct='probe')
    # miss -> _lookup(self, (required,), provided, name, default_)
    dl = [c for n in g.nodes for c in node_calls(n, '_lookup')]
    ok = len(dl) == 1 and [show(a) for a in dl[0].a[1]][2:] == ['provided', 'name', 'default_'] \
        and show(dl[0].a[1][0]) == 'self'
    if ok:
        tup = dl[0].a[1][1]
        seti = [c for n in g.nodes for c in node_calls(n, 'PyTuple_SET_ITEM')]
        ok = is_var(tup) and len(seti) == 1 and \
            [show(a) for a in seti[0].a[1]] == [tup.a[0], '0', 'required']
        new = [v for n in g.nodes for k, v in c_assigned(n).items()
               if k == tup.a[0] and v is not None]
        ok = ok and len(new) == 1 and show(new[0]) == 'PyTuple_New(1)'
    ccheck(rep, 'R08.1', '_lookup1', ok,
           'miss delegates to _lookup(self, (required,), provided, name, default_)',
           construct='delegate')
    # hit table of _lookup1: None && default given -> default
    hit = [n for n in g.nodes if n.kind == 'test' and show(n.e) == '(result == Py_None)']
    ok = len(hit) == 1
    if ok:
        t2 = [m for m, lab in hit[0].succ if lab == 'T']
        ok = bool(t2) and t2[0].kind == 'test' and show(t2[0].e) == '(default_ != NULL)'
        if ok:
            st = [m for m, lab in t2[0].succ if lab == 'T']
            ok = bool(st) and show(st[0].e) == 'result = default_'
    ccheck(rep, 'R08.5', '_lookup1', ok,
           'cached None with a default -> the default; otherwise the cached value',
           construct='table')
    # _adapter_hook
    f = u.func('_adapter_hook')
    g = ccfg(f)
    rq = [v for n in g.nodes for k, v in c_assigned(n).items() if k == 'required' and v is not None]
    okr = len(rq) == 1 and show(rq[0]) == 'providedBy(module, object)'
    l1 = [c for n in g.nodes for c in node_calls(n, '_lookup1')]
    okl = len(l1) == 1 and [show(a) for a in l1[0].a[1]] == \
        ['self', 'required', 'provided', 'name', 'Py_None']
    ccheck(rep, 'R08.1', '_adapter_hook', okr and okl,
           'looks up (providedBy(object),) via _lookup1(self, required, provided, '
           'name, None): %s / %s' % ([show(v) for v in rq], [show(c) for c in l1]),
           construct='delegate')
    fc = [n for n in g.nodes if node_calls(n, 'PyObject_CallFunctionObjArgs')]
    ok = len(fc) == 1
    detail = 'factory calls: %d' % len(fc)
    if ok:
        c = node_calls(fc[0], 'PyObject_CallFunctionObjArgs')[0]
        okargs = [show(a) for a in c.a[1]] == ['factory', 'object', 'NULL']
        guard = [n for n in g.nodes if n.kind == 'test' and show(n.e) == '(factory != Py_None)']
        okg = len(guard) == 1 and g.dominated_by(fc[0], lambda n: n is guard[0]) and \
            fc[0].id in g.reach([m for m, lab in guard[0].succ if lab == 'T'][0],
                                include_start=True)
        sup = [n for n in g.nodes if n.kind == 'test' and
               show(n.e) == 'PyObject_TypeCheck(object, &PySuper_Type)']
        oks = len(sup) == 1
        if oks:
            ga = [n for n in g.nodes for k, v in c_assigned(n).items()
                  if v is not None and show(v) == 'PyObject_GetAttr(object, str__self__)']
            re = [n for n in g.nodes if n.e is not None and show(n.e) == 'object = self']
            oks = len(ga) == 1 and len(re) == 1 and \
                g.dominated_by(re[0], lambda n: n is sup[0]) and \
                fc[0].id in g.reach(re[0]) and \
                all(re[0].id in g.reach(x) for x in nodes_calling(g, '_lookup1'))
        ok = okargs and okg and oks
        detail = ('factory(object) (%s) only when factory is not None (%s); a '
                  'super proxy is replaced by its __self__ after the lookup and '
                  'before the call (%s)' % (okargs, okg, oks))
    ccheck(rep, 'R08.5', '_adapter_hook', ok, detail, construct='call')
    # result: NULL/non-None returned, None -> default when given
    rets = returns(g)
    vals = sorted(show(r.e.a[0]) for r in rets)
    okv = set(vals) <= {'NULL', 'result', 'default_'} and 'default_' in vals and 'result' in vals
    dn = [r for r in rets if show(r.e.a[0]) == 'default_']
    okd = all(any(p.kind != 'test' for p, l in r.pred) for r in dn)
    ccheck(rep, 'R08.5', '_adapter_hook', okv,
           'returns the factory result when it is not None, else the default '
           '(or None): %s' % vals, construct='result')
    # queryAdapter(object, provided) -> _adapter_hook(provided, object)
    for fn in ('LB_queryAdapter', 'LB_adapter_hook'):
        f = u.func(fn)
        g = ccfg(f)
        kw = [n.e.a[2] for n in g.nodes if n.e is not None and n.e.k == 'decl'
              and n.e.a[0] == 'kwlist']
        names = [x.a[0] for x in kw[0].a[0] if x is not None and x.k == 'str'] if kw else []
        pa = [c for n in g.nodes for c in node_calls(n, 'PyArg_ParseTupleAndKeywords')]
        outs = [show(a)[1:] for a in pa[0].a[1][4:]] if pa else []
        want_names = ['object', 'provided', 'name', 'default'] if fn == 'LB_queryAdapter' \
            else ['provided', 'object', 'name', 'default']
        okn = names == want_names and \
            [o.rstrip('_') for o in outs] == [w for w in want_names]
        c = [c for n in g.nodes for c in node_calls(n, '_adapter_hook')]
        okc = len(c) == 1 and [show(a) for a in c[0].a[1]] == \
            ['self', 'provided', 'object', 'name', 'default_']
        ccheck(rep, 'R08.1', fn, okn and okc,
               'keywords %s bound to %s; worker called as _adapter_hook(self, '
               'provided, object, name, default_) (%s)' % (names, outs, okc),
               construct='permutation')
    lookup_default_c(rep, u, 'R08.5')


def lookup_default_c(rep, u, rule):
    """_lookup: the substitution None -> default happens after the cache
    store, returns default_ iff result is None and a default was given."""
    f = u.func('_lookup')
    g = ccfg(f)
    rd = [r for r in returns(g) if show(r.e.a[0]) == 'default_']
    ok = len(rd) == 1
    detail = '`return default_` sites: %d' % len(rd)
    if ok:
        r = rd[0]
        t1 = [n for n in g.nodes if n.kind == 'test' and show(n.e) == '(result == Py_None)']
        t2 = [n for n in g.nodes if n.kind == 'test' and show(n.e) == '(default_ != NULL)']
        okg = len(t1) == 1 and len(t2) == 1 and \
            g.dominated_by(r, lambda n: n is t1[0]) and g.dominated_by(r, lambda n: n is t2[0])
        sets = nodes_calling(g, 'PyDict_SetItem')
        # no path from the None-test back to the store (substitution after store)
        okafter = okg and all(s.id not in g.reach(t1[0]) for s in sets)
        ok = okg and okafter
        detail = ('default_ returned iff result == Py_None and default_ != NULL '
                  '(%s); the test comes after the cache store (%s)' % (okg, okafter))
    ccheck(rep, rule, '_lookup', ok, detail, construct='default')


def c04(rep):
    u = cu(rep)
    lookup_default_c(rep, u, 'R04.6')
    fills_one(rep, u, 'R04.6')


def fills_one(rep, u, rule):
    f = u.func('_lookup')
    g = ccfg(f)
    sets = [n for n in g.nodes if node_calls(n, 'PyDict_SetItem')]
    ok = len(sets) == 1
    detail = 'stores: %d' % len(sets)
    if ok:
        c = node_calls(sets[0], 'PyDict_SetItem')[0]
        val = c.a[1][2]
        defs = c_reaching(g, sets[0], val.a[0]) if is_var(val) else []
        ok = bool(defs) and all(
            v is not None and v.k == 'call' and v.a[0] == 'PyObject_CallMethodObjArgs'
            and show(v.a[1][1]) == 'str_uncached_lookup' for d, v in defs)
        detail = ('the negative/positive cache stores exactly what '
                  '_uncached_lookup returned (never the caller\'s default): %s'
                  % [show(v)[:60] if v is not None else 'param' for d, v in defs])
    ccheck(rep, rule, '_lookup', ok, detail, construct='stored-value',
           node=sets[0] if sets else None)


def c02(rep):
    """R02.5 (C): the C query methods read only the implied set."""
    u = cu(rep)
    f = u.func('SB_extends')
    g = ccfg(f)
    impl = [v for n in g.nodes for k, v in c_assigned(n).items() if k == 'implied' and v is not None]
    okimpl = len(impl) == 1 and show(impl[0]) == 'self->_implied'
    tests = [n for n in g.nodes if n.kind == 'test' and
             show(n.e) == '(PyDict_GetItem(implied, other) != NULL)']
    ok = okimpl and len(tests) == 1
    if ok:
        t = tests[0]
        tt = [m for m, lab in t.succ if lab == 'T']
        ff = [m for m, lab in t.succ if lab == 'F']
        ok = bool(tt) and bool(ff) and show(tt[0].e) == 'return Py_True' and \
            show(ff[0].e) == 'return Py_False'
    ccheck(rep, 'R02.5', 'SB_extends', ok,
           'isOrExtends(other) = other is a key of self->_implied', construct='membership')
    for fn, src in (('SB_providedBy', 'providedBy(module, ob)'),
                    ('SB_implementedBy', 'implementedBy(module, cls)')):
        f = u.func(fn)
        g = ccfg(f)
        d = [v for n in g.nodes for k, v in c_assigned(n).items() if k == 'decl' and v is not None]
        okd = len(d) == 1 and show(d[0]) == src
        items = sorted(show(v) for n in g.nodes for k, v in c_assigned(n).items()
                       if k == 'item' and v is not None)
        okitems = items == sorted(['SB_extends(decl, self)',
                                   'PyObject_CallFunctionObjArgs(decl, self, NULL)'])
        rets = sorted(show(r.e.a[0]) for r in returns(g))
        ccheck(rep, 'R02.5', fn, okd and okitems and rets == ['NULL', 'item'],
               'tests membership of self in the implied set of %s (direct for '
               'specification objects, by calling the declaration otherwise): %s'
               % (src, items), construct='membership')
    tbl = dict((n, fn) for n, fn, _ in u.method_table('SB_methods'))
    ccheck(rep, 'R02.5', 'SB_methods',
           tbl.get('isOrExtends') == 'SB_extends' and tbl.get('providedBy') == 'SB_providedBy'
           and tbl.get('implementedBy') == 'SB_implementedBy',
           'method table %s' % tbl, construct='table')
