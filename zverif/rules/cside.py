"""C-accelerator side of the rules (filled in as the C front end lands)."""


def c05(rep):
    pass


def c06(rep):
    pass


def c08(rep):
    pass


def c02(rep):
    pass
