"""C11 - lookups stay memory-safe and atomic when other code mutates the
registry.  The schedule/fault quantifier collapses, for the memory-safety
clauses, to "every point at which the C lookup code can run arbitrary
Python": those points are call sites, enumerated completely here."""
import ast

from ..core import AnalysisError, norm_src
from ..pyfront import (find_def, find_all, match, walk_local, methods_of,
                       ClassTable)
from ..flowq import pred_of, any_pred, witness_path, reaching_defs, def_value
from ..cfg import cfg_of, header_expr
from ..cfront import (ccfg, show, node_calls, c_assigned, c_reaching, is_var,
                      is_field, returns, nodes_calling)
from ..cown import Summaries, volatile_fields, Borrow, Balance, RUNS_PYTHON
from . import shared, cside
from .cside import ccheck

# functions reachable from the method tables that are not part of the lookup
# path proper (module-state loader: fails only on import errors / memory
# pressure during first use)
OUT_OF_SCOPE = {'_zic_state_load_declarations': 'module state initialisation, '
                'not re-entered by lookups', '_get_module': 'pure accessor'}
# one accepted idiom (DESIGN.md C11): the result of
# PyObject_GetAttr(object, "__self__") is used after its Py_DECREF; it is
# co-owned by the super object, which the caller keeps alive for the call and
# whose __self__ is read-only.
ACCEPTED = set()   # modelled in cown (Balance: co-owned __self__ of a parameter)


def run(rep):
    repo = rep.repo
    u = cside.cu(rep)
    rep.rule('B1', 'no borrowed reference into volatile state (the three '
             'caches, the verify snapshots) is used, passed on, or handed to '
             'a callee that may run Python, after/while arbitrary Python code '
             'can run, unless it was Py_INCREFed first', floor=20)
    rep.rule('B2', 'ownership balance on every path of the lookup family: '
             'every new reference is released/returned/stolen exactly once, '
             'borrowed ones are never released, nothing is used after its '
             'release, results of allocating calls are NULL-tested', floor=20)
    rep.rule('B2b', 'a store to a volatile field that is separated from the '
             'last clear by a may-run-Python call releases the old value',
             floor=1)
    rep.rule('B3', 'Python reference implementation: the cache dict written '
             'after the uncached call is a local obtained before it, and '
             'changed() empties/rebinds the outer dictionaries', floor=4)
    rep.rule('B4', 'changed() is the last step of every mutator: no storage '
             'write or extendor update can follow it', floor=4)
    rep.rule('B5', 'the C lookups resolve `required` (PySequence_Tuple, may '
             'run Python) before touching any cache field', floor=3)
    rep.rule('B3c', 'C twins of B3: _lookup/_lookupAll/_subscriptions store '
             'exactly the uncached result, under the probed key, into the '
             'dictionary they fetched BEFORE the callback (never a re-fetched, '
             'live one): no answer computed before a mutation survives in the '
             'cache', floor=3)
    rep.rule('B7', 'check-then-use on shared state: the per-order tables that the '
             'mutators trim (del byorder[-1]) are the very list objects the uncached '
             'walks of the lookup object read; an index into one of them must not be '
             'able to raise IndexError out of the lookup (handled, sliced, or taken '
             'from a private copy) - a length test before it is stale as soon as '
             'other Python code runs', floor=3)
    rep.rule('B8', 'hashing a key can run Python too (`provided` is any hashable object, '
             '`name` may be an instance of a str subclass, a class specification hashes '
             'in Python): no key is hashed into a cache dictionary the function does not '
             'own - a volatile field of self handed to a probing helper, or a local still '
             'borrowed out of the caches - because changed() inside __hash__ frees that '
             'dictionary under PyDict_GetItem/PyDict_SetItem', floor=4)
    rep.rule('B6', 'the extendor lists handed to in-flight walks are replaced, '
             'never edited in place (add_extendor/remove_extendor build a new '
             'list per ancestor; shared with C04 R04.3)', floor=2)
    rep.decline('"an interrupted lookup returns an answer that was correct '
                'before or after the mutation" (value of a walk over a '
                'registry mutated mid-walk)')
    rep.decline('thread schedules other than switches at the enumerated '
                'callback points; free-threaded builds')
    rep.assume('with the GIL, other Python code runs inside these C functions '
               'only at calls that may execute Python (effect table in '
               'zverif/cown.py)')
    rep.assume('key *comparison* (__eq__ of a colliding key) inside a dictionary probe is '
               'not modelled as a callback point; key *hashing* is (rule B8)')

    summ = Summaries(u)
    rep.require(not (summ.unknown_api - {'PyList_New', 'PyModuleDef_Init',
                                         'PyModule_AddObject',
                                         'PyType_FromModuleAndSpec'}),
                'CPython API callee(s) missing from the effect table: %s'
                % sorted(summ.unknown_api))
    vol, reach = volatile_fields(u)
    rep.require(vol == {'_cache', '_mcache', '_scache', '_verify_ro',
                        '_verify_generations'},
                'derived volatile field set changed: %s' % sorted(vol))
    scope = sorted(f for f in reach if f not in OUT_OF_SCOPE)
    rep.require(len(scope) >= 25, 'lookup family shrank: %s' % scope)
    rep.stat('c_functions', len(scope))

    # ---- B1 -------------------------------------------------------------------
    bor = Borrow(u, summ, vol)
    for fn in scope:
        fs, vvars = bor.analyse(fn)
        t1 = [f for f in fs if f['tier'] == 1]
        t2 = [f for f in fs if f['tier'] == 2]
        for f in t2:
            rep.note('tier-2 %s: %s used after %s' % (fn, f['var'], f['callback']))
        if not t1:
            ccheck(rep, 'B1', fn, True,
                   'volatile-borrowed locals %s: none used after a may-run-Python '
                   'call' % (vvars or '[]'), construct='borrow')
        for f in t1:
            ccheck(rep, 'B1', fn, False,
                   {'kind': f['kind'], 'pointer': f['var'],
                    'borrowed_at': f['defined'][:90],
                    'python_can_run_at': f['callback'],
                    'then_used_at': f['use'], 'line': f['line'],
                    'why': 'the callback (or another thread) may call changed(), '
                           'which frees the dictionary/tuple this pointer refers to'},
                   construct='%s:%s' % (f['kind'], f['var']))
            rep.obls[-1].where = '_zope_interface_coptimizations.c:%s' % f['line']

    # ---- B8 -------------------------------------------------------------------
    nb8 = 0
    for fn in scope:
        hs = bor.hash_into_borrowed(fn)
        for h in hs:
            nb8 += 1
            ccheck(rep, 'B8', fn, False,
                   {'dictionary': h['dict_expr'], 'hashed_at': h['call'], 'line': h['line'],
                    'how': h['how'],
                    'why': 'the key\'s __hash__ may call changed() (any registration does), '
                           'which frees this dictionary while the probe/fill is using it'},
                   construct='hash-into-borrowed:%s' % h['dict_expr'])
            rep.obls[-1].where = '_zope_interface_coptimizations.c:%s' % h['line']
        if not hs:
            ccheck(rep, 'B8', fn, True, 'no key is hashed into a borrowed cache dictionary',
                   construct='hash-into-borrowed')
    rep.stat('b8_helpers_hashing_into_a_parameter', len(bor.hashes_into_param()))

    # ---- B2 -------------------------------------------------------------------
    bal = Balance(u, summ)
    npaths = 0
    for fn in scope:
        fs, n = bal.analyse(fn, accepted=ACCEPTED)
        npaths += n
        if not fs:
            ccheck(rep, 'B2', fn, True, 'balanced on all %d paths' % n,
                   construct='balance')
        for f in fs:
            ccheck(rep, 'B2', fn, False,
                   {'kind': f['kind'], 'pointer': f['var'], 'at': f['at'],
                    'line': f['line'], 'note': f['extra'], 'path_tail': f['path']},
                   construct='%s:%s' % (f['kind'], f['var']))
            rep.obls[-1].where = '_zope_interface_coptimizations.c:%s' % f['line']
    rep.stat('c_paths_enumerated', npaths)

    # ---- B2b ------------------------------------------------------------------
    from . import csem as csem_
    for fn in scope:
        f = u.func(fn)
        g = ccfg(f)
        for n in g.nodes:
            if n.e is None:
                continue
            for x in n.e.walk():
                if x.k == 'assign' and x.a[1] is not None and x.a[1].k == 'field' \
                        and x.a[1].a[1] in vol and is_var(x.a[1].a[0], 'self'):
                    fld = x.a[1].a[1]
                    if x.a[2] is not None and x.a[2].k == 'null':
                        continue
                    # last known-NULL points: clears of the field
                    def clears(m, fld=fld):
                        # `self->f = NULL` leaves the field empty (the value it held
                        # was taken over by a local first: B2 follows that reference)
                        if m.e is not None:
                            for y in m.e.walk():
                                if y.k == 'assign' and y.a[0] == '=' and y.a[1] is not None and \
                                        is_field(y.a[1], 'self', fld) and y.a[2] is not None \
                                        and y.a[2].k == 'null':
                                    return True
                        for c in node_calls(m):
                            if c.a[0] == 'Py_CLEAR' and is_field(c.a[1][0], 'self', fld):
                                return True
                            if isinstance(c.a[0], str) and c.a[0] in u.funcs and \
                                    c.a[1] and is_var(c.a[1][0], 'self') and \
                                    csem_.fn_clears(u, c.a[0], fld):
                                return True
                            if c.a[0] in ('Py_XDECREF', 'Py_DECREF', 'Py_SETREF',
                                          'Py_XSETREF') and c.a[1] and \
                                    is_field(c.a[1][0], 'self', fld):
                                return True
                            if c.a[0] == 'ASSURE_DICT':
                                return False
                        return False
                    # is there a may-run-Python call between the last clear and
                    # the store (or in the store itself, before the assignment)?
                    cb = []
                    for m in g.nodes:
                        if m.e is None:
                            continue
                        if m is not n and n.id not in g.reach(m, avoid=clears):
                            continue
                        calls_here = [c for c in node_calls(m)
                                      if isinstance(c.a[0], str) and
                                      summ.may_run_python(c.a[0], strict=False)]
                        if m is n:
                            calls_here = [c for c in calls_here]
                        if calls_here and not clears(m):
                            # reachable from a clear (or entry) without another clear
                            cb.append(show(calls_here[0])[:60])
                    ok = not cb
                    ccheck(rep, 'B2b', fn, ok,
                           'store to self->%s happens with the field known '
                           'empty' % fld if ok else
                           {'field': fld, 'store': show(n.e)[:80],
                            'python_can_run_before_store': cb[:3],
                            'why': 're-entrant code may have filled the field '
                                   'since it was cleared; the old value is '
                                   'overwritten without being released'},
                           construct='store:' + fld, node=n)

    # ---- B5 -------------------------------------------------------------------
    from . import csem
    for fn in ('_lookup', '_lookupAll', '_subscriptions'):
        bad = []
        touched = 0
        for ps in csem.S(u, fn):
            res = [i for i, e in enumerate(ps.events) if e.kind == 'call' and
                   e.name == 'PySequence_Tuple' and csem.args_of(e) == ['required']]
            for i, e in enumerate(ps.events):
                txt = repr(e)
                if e.kind == 'call' and e.name in csem.NOISE:
                    continue
                if any(('self->' + fld) in txt for fld in vol) or \
                        (e.kind == 'call' and e.name in ('_getcache', '_subcache')):
                    touched += 1
                    if not res or res[0] > i:
                        bad.append(txt[:70])
                    break
        ok = touched > 0 and not bad
        ccheck(rep, 'B5', fn, ok,
               'PySequence_Tuple(required) precedes the first cache access on all '
               '%d paths that touch a cache' % touched if ok else
               {'cache_touched_before_required_is_resolved': sorted(set(bad))[:3]},
               construct='resolve-first')

    # ---- B3 (Python side) -------------------------------------------------------
    from . import sem as _sem
    from ..pyfront import find_def as _fd
    _amod = repo.module('adapter.py')
    for fn_ in ('lookup', 'lookup1', 'adapter_hook', 'lookupAll', 'subscriptions'):
        _sem.fetch_order_spec(rep, 'B3', _fd(_amod, 'LookupBase.' + fn_), 'LookupBase.' + fn_)
    mod = repo.module('adapter.py')
    from ..sympath import summaries as _S, normal as _N
    for meth, unc in (('lookup', '_uncached_lookup'),
                      ('lookupAll', '_uncached_lookupAll'),
                      ('subscriptions', '_uncached_subscriptions')):
        f = find_def(mod, 'LookupBase.' + meth)
        probs = []
        n = 0
        for ps in _N(_S(f)):
            calls = [i for i, e in enumerate(ps.events) if e.kind == 'call' and
                     _sem.nt(e.r.func) == 'self.%s' % unc]
            if not calls:
                continue
            iu = calls[0]
            res = _sem.nt(ps.events[iu].r)
            sts = [(i, e) for i, e in enumerate(ps.events) if e.kind == 'store'
                   and isinstance(e.r, ast.Subscript) and _sem.nt(e.val) == res]
            if not sts:
                probs.append('the computed result is not stored')
                continue
            n += 1
            for i, e in sts:
                cont = _sem.nt(e.r.value)
                # the container must have been obtained before the call, and
                # nothing re-obtains it afterwards
                before = [j for j, x in enumerate(ps.events[:iu])
                          if (x.kind == 'call' and _sem.nt(x.r) == cont)
                          or (x.kind == 'store' and _sem.nt(x.val) == cont)]
                after = [j for j, x in enumerate(ps.events) if j > iu and j < i and
                         x.kind == 'call' and (
                             _sem.nt(x.r) == cont or '_getcache' in _sem.nt(x.r.func)
                             or _sem.nt(x.r).startswith(('self._mcache.', 'self._scache.',
                                                         'self._cache.')))]
                if not before:
                    probs.append('the result is stored through `%s`, which was not '
                                 'obtained before the uncached call' % cont[:60])
                if after:
                    probs.append('the cache is read again after the uncached call '
                                 '(`%s`): a fresh, or the cleared, dictionary may be '
                                 'written' % _sem.nt(ps.events[after[0]].r)[:60])
        if not n:
            probs.append('uncached call / result store not found')
        rep.check('B3', 'LookupBase.' + meth, not probs,
                  'the dictionary written after self.%s() is the one fetched before the '
                  'call (a detached dict is written, never a freed or a fresh one)' % unc
                  if not probs else {'problems': sorted(set(probs))[:3]},
                  construct='local-cache', node=f)
    cside.fills(rep, u, 'B3c', only=('_lookup', '_lookupAll', '_subscriptions'))
    from . import shared as _shared
    _shared.extendor_index(rep, 'B6', mod)
    from . import racesem as _race
    _race.live_table_index(rep, mod, 'B7')
    ch = find_def(mod, 'LookupBase.changed')
    ok = all(_sem.paths_have(ch, ['self.%s.clear()' % c, 'self.%s = {}' % c])[0]
             for c in ('_cache', '_mcache', '_scache'))
    rep.check('B3', 'LookupBase.changed', ok,
              'the outer dictionaries are emptied in place (or rebound): '
              'entries stored by an interrupted lookup land in a dict that is '
              'no longer reachable from the lookup object', construct='detach',
              node=ch)

    # ---- B4 -----------------------------------------------------------------------
    table = ClassTable(repo, ['adapter.py'])
    for name in ('register', 'unregister', 'subscribe', 'unsubscribe'):
        f = find_def(mod, 'BaseAdapterRegistry.' + name)
        cfg = cfg_of(f)
        chg = pred_of('self.changed($$a)')
        cn = [n for n in cfg.nodes if n.ast is not None and chg(n)]
        writes, D = shared.content_writes(f, ('_adapters', '_subscribers', '_provided'))
        wn = {cfg.node_of(w).id: w for w, k, c, v in writes}
        ext = [n for n in cfg.nodes if n.ast is not None and header_expr(n) is not None
               and (find_all(header_expr(n), 'self._v_lookup.add_extendor($$a)') or
                    find_all(header_expr(n), 'self._v_lookup.remove_extendor($$a)'))]
        after = []
        for c in cn:
            r = cfg.reach(c)
            after += [norm_src(shared.stmt_of(w)).split('\n')[0][:60]
                      for i, w in wn.items() if i in r]
            after += [norm_src(header_expr(n))[:60] for n in ext if n.id in r]
        ok = bool(cn) and not after
        rep.check('B4', 'BaseAdapterRegistry.' + name, ok,
                  'nothing is written after self.changed(): a lookup run by the '
                  'notification sees the complete mutation' if ok else
                  {'written_after_changed': sorted(set(after))},
                  construct='changed-last', node=f)
