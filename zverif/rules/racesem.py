"""Check-then-use on the live per-order tables (C11 B7).

A registry keeps its registrations in two lists indexed by the number of
required specifications (`_adapters`, `_subscribers`).  The mutators trim
trailing empty entries off those lists (`del byorder[-1]`), and the uncached
walks of the lookup object read the *same list objects* of every registry in
the resolution order.  A walk that tests the length and indexes afterwards is
a check-then-use on shared state: a thread switch (or any Python code run in
between) that unregisters the last entry of that order makes the index raise
IndexError out of a lookup - an answer that is correct neither before nor
after the mutation.

The rule derives the trimmed attributes from the mutators' own path summaries
and requires of every index into such a list inside the lookup object that it
cannot raise out of the walk: it sits in a `try` that handles IndexError, it
is a slice, or the list is a private copy (`tuple(..)`, `list(..)`, `[:]`).
"""
import ast

from ..core import norm_src
from ..pyfront import find_def, methods_of, inlined, walk_local
from ..sympath import summaries

CATCHES = ('IndexError', 'LookupError', 'Exception', 'BaseException')


def trimmed_tables(mod, cls_name='BaseAdapterRegistry'):
    """attributes of the registry whose list is shortened by some method:
    a `del <list>[<negative or computed index>]` / `.pop()` on a value that
    resolves to `self.<attr>`"""
    from .sem import nt
    cls = find_def(mod, cls_name)
    out = {}
    for name, f in sorted(methods_of(cls).items()):
        for ps in summaries(f, normal_only=False):
            for e in ps.events:
                tgt = None
                if e.kind == 'del' and isinstance(e.r, ast.Subscript):
                    tgt = e.r.value
                elif e.kind == 'call' and isinstance(e.r, ast.Call) and \
                        isinstance(e.r.func, ast.Attribute) and \
                        e.r.func.attr in ('pop', 'clear') and not e.r.keywords:
                    tgt = e.r.func.value
                if tgt is None:
                    continue
                t = nt(tgt)
                if t.startswith('self.') and t.count('.') == 1 and \
                        not t.endswith(')'):
                    out.setdefault(t[5:], set()).add('%s.%s' % (cls_name, name))
    return out


def _copy_of(e, attrs):
    """`tuple(X.attr)` / `list(X.attr)` / `X.attr[:]` -> attr"""
    if isinstance(e, ast.Call) and isinstance(e.func, ast.Name) and \
            e.func.id in ('tuple', 'list') and len(e.args) == 1 and not e.keywords:
        a = e.args[0]
        if isinstance(a, ast.Attribute) and a.attr in attrs:
            return a.attr
    if isinstance(e, ast.Subscript) and isinstance(e.slice, ast.Slice) and \
            isinstance(e.value, ast.Attribute) and e.value.attr in attrs and \
            e.slice.lower is None and e.slice.upper is None and e.slice.step is None:
        return e.value.attr
    return None


def _handled(node, func):
    """the node sits in the body of a try (inside func) that handles IndexError"""
    child, cur = node, getattr(node, 'parent', None)
    while cur is not None and cur is not func:
        if isinstance(cur, ast.Try):
            in_body = any(child is st for st in cur.body)
            if in_body:
                for h in cur.handlers:
                    if h.type is None:
                        return True
                    types = h.type.elts if isinstance(h.type, ast.Tuple) else [h.type]
                    for t in types:
                        nm = t.id if isinstance(t, ast.Name) else \
                            (t.attr if isinstance(t, ast.Attribute) else None)
                        if nm in CATCHES:
                            return True
        if isinstance(cur, (ast.FunctionDef, ast.AsyncFunctionDef, ast.Lambda)):
            break
        child, cur = cur, getattr(cur, 'parent', None)
    return False


def live_table_index(rep, mod, rule, cls_name='AdapterLookupBase'):
    tables = trimmed_tables(mod)
    rep.stat('trimmed per-order tables', len(tables))
    attrs = set(tables)
    cls = find_def(mod, cls_name)
    sites = 0
    for name, f0 in sorted(methods_of(cls).items()):
        f = inlined(f0)
        for parent in ast.walk(f):
            for child in ast.iter_child_nodes(parent):
                child.parent = parent
        # what every local name is bound to
        live, copies, other = {}, {}, set()
        for n in walk_local(f):
            tg = []
            if isinstance(n, ast.Assign):
                tg = [(t, n.value) for t in n.targets]
            elif isinstance(n, (ast.AnnAssign, ast.NamedExpr)) and n.value is not None:
                tg = [(n.target, n.value)]
            elif isinstance(n, (ast.For, ast.comprehension)):
                for x in ast.walk(n.target):
                    if isinstance(x, ast.Name):
                        other.add(x.id)
            for t, v in tg:
                if isinstance(t, ast.Name):
                    if isinstance(v, ast.Attribute) and v.attr in attrs:
                        live.setdefault(t.id, set()).add(v.attr)
                    elif _copy_of(v, attrs):
                        copies.setdefault(t.id, set()).add(_copy_of(v, attrs))
                    else:
                        other.add(t.id)
                else:
                    for x in ast.walk(t):
                        if isinstance(x, ast.Name):
                            other.add(x.id)
        probs, n_here = [], 0
        for n in walk_local(f):
            if not (isinstance(n, ast.Subscript) and isinstance(n.ctx, ast.Load)):
                continue
            v = n.value
            attr = None
            if isinstance(v, ast.Attribute) and v.attr in attrs:
                attr = v.attr
            elif isinstance(v, ast.Name) and v.id in live:
                attr = sorted(live[v.id])[0]
            if attr is None:
                if isinstance(v, ast.Name) and v.id in copies and v.id not in other:
                    n_here += 1     # a private copy: its length cannot change
                continue
            if isinstance(n.slice, ast.Slice):
                n_here += 1
                continue            # a slice never raises
            n_here += 1
            if not _handled(n, f):
                probs.append('`%s` (the live %s list of a registry, trimmed by %s) '
                             'is indexed after its length was looked at; an '
                             'unregistration in between raises IndexError out of '
                             'the lookup' % (norm_src(n)[:40], attr,
                                             ', '.join(sorted(tables[attr]))[:80]))
        if not n_here:
            continue
        sites += n_here
        rep.check(rule, '%s.%s' % (cls_name, name), not probs,
                  'every index into a live per-order table is taken where an '
                  'IndexError cannot escape the walk (%d site(s))' % n_here
                  if not probs else {'problems': sorted(set(probs))[:3]},
                  construct='live-index', node=f0)
    if attrs:
        rep.require_soft(sites >= 3, '%s: %d indexed reads of the per-order tables '
                         'found in %s (3 confirmed by hand)' % (rule, sites, cls_name))
    else:
        rep.note('%s: no method trims a per-order table; nothing to race with' % rule)
