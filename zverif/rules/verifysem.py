"""verify._verify_element as a decision procedure (C17 R17.3).

The function's behaviour is a finite function of twelve boolean observations
(attribute missing, description is a Method, class verification, builtin /
descriptor, plain function, found on a class, bound method of a Python
function, property, callable, incompatibility message non-empty).  Every
enumerated path fixes some of them (its facts); for EVERY completion of the
others the path's outcome must be the reference outcome.  Conditions spelled
as nested ifs, early returns, elif chains, conditional expressions or locals
holding a test all give the same facts; a dropped or reordered test that
changes behaviour makes some completion disagree."""
import ast
import itertools

from ..core import norm_src
from ..pyfront import find_def, dotted
from ..facts import canon
from ..sympath import summaries
from .sem import nt

A = 'getattr(candidate, name)'
ATOMS = {
    'exc': 'EXCEPT(AttributeError)',
    'm': 'isinstance(desc, Method)',
    'c': "vtype == 'c'",
    'd1': 'inspect.ismethoddescriptor(%s)' % A,
    'd2': 'inspect.isbuiltin(%s)' % A,
    'fn': 'isinstance(%s, FunctionType)' % A,
    'ct': 'isinstance(candidate, type)',
    'mt': 'isinstance(%s, MethodTypes)' % A,
    'ft': 'FunctionType is type(%s.__func__)' % A,
    'sm': 'isinstance(inspect.getattr_static(candidate, name), staticmethod)',
    'pr': 'isinstance(%s, property)' % A,
    'ca': 'callable(%s)' % A,
}
KEY2ATOM = {v: k for k, v in ATOMS.items()}


def reference(a):
    if a['exc']:
        return ('return',) if (not a['m'] and a['c']) else ('raise', 'missing')
    if not a['m']:
        return ('return',)
    if a['d1'] or a['d2']:
        return ('return',)
    if a['fn']:
        # an implicit first argument is supplied only to a function found
        # on the class under class verification - and not to a staticmethod
        # of that class, which getattr() hands out as a plain function too
        d = 'F1' if (a['ct'] and a['c'] and not a['sm']) else 'F0'
    elif a['mt'] and a['ft']:
        d = 'M'
    elif a['pr'] and a['c']:
        return ('return',)
    else:
        return ('return',) if a['ca'] else ('raise', 'not-a-method')
    return ('raise', 'incompatible', d) if a['ms'] else ('return', d)


class _Undecided(Exception):
    pass


def _value(e, a):
    """value of a small expression under the total assignment a"""
    if isinstance(e, ast.Constant):
        return e.value
    if isinstance(e, ast.IfExp):
        return _value(e.body, a) if _truth(e.test, a) else _value(e.orelse, a)
    return _truth(e, a)


def _truth(e, a):
    if isinstance(e, ast.BoolOp):
        vs = [_truth(v, a) for v in e.values]
        return all(vs) if isinstance(e.op, ast.And) else any(vs)
    if isinstance(e, ast.UnaryOp) and isinstance(e.op, ast.Not):
        return not _truth(e.operand, a)
    if isinstance(e, ast.Constant):
        return bool(e.value)
    c, pol = canon(e, True)
    if c in KEY2ATOM:
        v = a[KEY2ATOM[c]]
        return v if pol else (not v)
    raise _Undecided(c)


def _descriptor(ps, a):
    """tag of the implementation description built on the path"""
    ds = [e for e in ps.events if e.kind == 'call' and
          dotted(e.r.func) in ('fromFunction', 'fromMethod')]
    if not ds:
        return None, None
    if len(ds) > 1:
        return 'several', None
    from .sem import nform
    c = nform(ds[0].r)
    pos = [nt(x) for x in c.args]
    kw = {k.arg: k.value for k in c.keywords}
    if dotted(c.func) == 'fromMethod':
        ok = pos + [nt(kw[k]) for k in ('interface', 'name') if k in kw] == [A, 'iface', 'name']
        return ('M' if ok else 'bad:' + nt(c)[:60]), nt(c)
    if pos != [A, 'iface'] or nt(kw.get('name')) != 'name' or \
            set(kw) - {'name', 'imlevel'}:
        return 'bad:' + nt(c)[:60], nt(c)
    lvl = _value(kw['imlevel'], a) if 'imlevel' in kw else 0
    if lvl not in (0, 1):
        return 'bad:imlevel %r' % (lvl,), nt(c)
    return 'F%d' % lvl, nt(c)


def verify_element(rep, mod, rule):
    f = find_def(mod, '_verify_element')
    site = 'verify._verify_element'
    paths = [ps for ps in summaries(f, normal_only=False)
             if ps.kind in ('return', 'fall') or ps.ret_node is not None]
    rep.require(len(paths) >= 8, '_verify_element: only %d paths' % len(paths))
    probs = {'missing': [], 'describe': [], 'compare': [], 'other': []}
    seen = set()
    # fromFunction / fromMethod always hand back a description (never None):
    # a test of their result against None has one feasible outcome
    imod = rep.repo.module('interface.py')
    nonnull = True
    for nm in ('fromFunction', 'fromMethod'):
        for ps in summaries(find_def(imod, nm)):
            if ps.kind in ('return', 'fall') and not (
                    isinstance(ps.ret, ast.Call) and dotted(ps.ret.func) in
                    ('Method', 'fromFunction', 'fromMethod')):
                nonnull = False
    for ps in paths:
        known = {}
        extra = []
        compound = []
        inc = None
        dead = False
        for c, t, p in ps.order:
            if nonnull and c.endswith(' is None') and \
                    c.startswith(('fromFunction(', 'fromMethod(')):
                if t:
                    dead = True
                continue
            if c in KEY2ATOM:
                known[KEY2ATOM[c]] = t
            elif c.startswith('_incompat('):
                inc = c
                known['ms'] = t
            else:
                # a compound of the observations constrains their completions
                try:
                    e_ = ast.parse(c, mode='eval').body
                    probe = {k: False for k in list(ATOMS) + ['ms']}
                    _truth(e_, probe)
                    compound.append((e_, t))
                except (SyntaxError, _Undecided):
                    extra.append(c)
        if dead:
            continue
        if extra:
            probs['other'].append('decision depends on `%s`' % extra[0][:70])
            continue
        # no handler entered: the attribute was found
        known.setdefault('exc', False)
        free = [k for k in list(ATOMS) + ['ms'] if k not in known]
        for vals in itertools.product((False, True), repeat=len(free)):
            a = dict(known)
            a.update(zip(free, vals))
            if any(_truth(e_, a) != t_ for e_, t_ in compound):
                continue
            want = reference(a)
            try:
                inc_n0 = nt(ast.parse(inc, mode='eval').body) if inc is not None else None
            except SyntaxError:
                inc_n0 = inc
            try:
                d, dtext = _descriptor(ps, a)
            except _Undecided as u:
                probs['describe'].append('imlevel depends on `%s`' % str(u)[:60])
                break
            # actual outcome
            if ps.kind == 'raise':
                r = nt(ps.raised)
                if r == 'BrokenImplementation(iface, desc, candidate)':
                    got = ('raise', 'missing')
                elif r == "BrokenMethodImplementation(desc, 'implementation is not a " \
                          "method', %s, iface, candidate)" % A:
                    got = ('raise', 'not-a-method')
                elif inc is not None and r in (
                        'BrokenMethodImplementation(desc, %s, %s, iface, candidate)' % (inc, A),
                        'BrokenMethodImplementation(desc, %s, %s, iface, candidate)'
                        % (inc_n0, A)):
                    got = ('raise', 'incompatible', d)
                else:
                    got = ('raise', r[:70])
            else:
                rv = nt(ps.ret)
                got = ('return',) if rv == 'None' else ('return-value', rv[:40])
                if d is not None:
                    got = got + (d,)
            try:
                inc_n = nt(ast.parse(inc, mode='eval').body) if inc is not None else None
            except SyntaxError:
                inc_n = inc
            if d is not None and inc is not None and dtext is not None and \
                    inc_n != '_incompat(desc.getSignatureInfo(), %s.getSignatureInfo())' % dtext:
                probs['compare'].append('compares through `%s` (required: _incompat('
                                        'interface description, implementation '
                                        'description))' % inc[:90])
                break
            if d is not None and inc is None and not (ps.kind == 'raise' and
                                                      got[:2] != ('raise', 'incompatible')):
                probs['compare'].append('an implementation description is built but '
                                        'never compared')
                break
            if got != want:
                cat = 'missing' if a['exc'] else (
                    'describe' if (len(want) > 1 and want[-1] in ('F0', 'F1', 'M')) or
                    (len(got) > 1 and str(got[-1])[:1] in 'FMb') else 'other')
                probs[cat].append('with %s the code %s, required %s' % (
                    {k: v for k, v in a.items() if k in known or k in ('ct', 'c', 'sm')},
                    got, want))
                break
            seen.add(want)
    need = {('return',), ('raise', 'missing'), ('raise', 'not-a-method'),
            ('return', 'F0'), ('return', 'F1'), ('return', 'M'),
            ('raise', 'incompatible', 'F0'), ('raise', 'incompatible', 'F1'),
            ('raise', 'incompatible', 'M')}
    lost = sorted(need - seen)
    if lost:
        probs['other'].append('outcomes never produced: %s' % lost[:3])
    for cat, construct, text in (
            ('missing', 'missing', 'missing attribute -> BrokenImplementation (only '
             'non-method attributes of classes are excused)'),
            ('describe', 'imlevel', 'plain functions are described with imlevel=1 only '
             'when found on a class under class verification (imlevel 0 otherwise); '
             'bound methods of Python functions through fromMethod'),
            ('compare', 'argument-order', '_incompat(required = the interface '
             'description, implemented = the candidate\'s description); a non-empty '
             'message raises BrokenMethodImplementation'),
            ('other', 'table', 'non-method descriptions, builtins/descriptors, '
             'class-level properties and un-introspectable callables pass; a '
             'non-callable is rejected; all %d paths agree with the reference '
             'decision table for every completion of the untested observations'
             % len(paths))):
        rep.check(rule, site, not probs[cat], text if not probs[cat] else
                  {'problems': sorted(set(probs[cat]))[:3]}, construct=construct, node=f)
