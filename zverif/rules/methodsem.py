"""Path-summary rules for Method rendering / signature fields (C18)."""
import ast

from ..core import AnalysisError, norm_src
from ..pyfront import find_def, find_all, match, walk_local, dotted, FUNC, qualname
from ..flowq import iter_polarity
from ..sympath import summaries, normal
from .sem import nt
from .specsem import (fact_cmp, iterated, polarity_text, each_conditions,
                      all_paths)

FIELDS = ('positional', 'required', 'optional', 'varargs', 'kwargs')


def concat(e):
    """operands of a left/right nested string concatenation, as texts"""
    if isinstance(e, ast.BinOp) and isinstance(e.op, ast.Add):
        return concat(e.left) + concat(e.right)
    return [nt(e)]


def _join_arg(ret):
    """(J, wrapper ok) for a value of the form '(' + ', '.join(J) + ')'"""
    if ret is None:
        return None, False
    js = [n for n in ast.walk(ret) if isinstance(n, ast.Call) and
          isinstance(n.func, ast.Attribute) and n.func.attr == 'join' and
          isinstance(n.func.value, ast.Constant) and n.func.value.value == ', '
          and len(n.args) == 1 and not n.keywords]
    if len(js) != 1:
        return None, False
    J = js[0].args[0]
    j = nt(js[0])
    rt = nt(ret)
    ok = rt in ("'(%%s)' %% %s" % j, "'(%%s)' %% (%s,)" % j, "'({})'.format(%s)" % j,
                "f'({%s})'" % j) or concat(ret) == ["'('", j, "')'"]
    return J, ok


def render_spec(rep, mod, rule):
    """getSignatureString: the items handed to ', '.join(), whichever way they
    are produced (appends to a list, `sig[-1] +=`, a comprehension for the
    positionals, a local generator), decided per path"""
    from .sem import value_cases
    g = find_def(mod, 'Method.getSignatureString')
    raw = find_def(mod, 'Method.getSignatureString', raw=True)
    site = 'Method.getSignatureString'
    SRC = 'self.positional'
    E = 'EACH(%s)' % SRC
    probs = []
    kinds = set()
    nested = {st.name: st for st in raw.body if isinstance(st, FUNC)}
    outer = normal(summaries(g))
    emitters = []          # (summaries, container text or None for yields, comp or None)
    for ps in outer:
        J, okw = _join_arg(ps.ret)
        if J is None or not okw:
            probs.append('returns `%s`' % nt(ps.ret)[:70])
            continue
        if isinstance(J, ast.Call) and isinstance(J.func, ast.Name) and \
                J.func.id in nested and not J.args and not J.keywords:
            from ..pyfront import inlined
            if [e for e in ps.events if e.kind == 'call' and
                    not (nt(e.r) == nt(J) or (isinstance(e.r.func, ast.Attribute)
                                               and e.r.func.attr == 'join'))]:
                probs.append('other effects next to the generator')
            emitters.append((normal(summaries(inlined(nested[J.func.id]))), None, None))
        else:
            comp = J if isinstance(J, (ast.ListComp, ast.GeneratorExp)) else None
            emitters.append(([ps], nt(J), comp))
    for ss_, L, comp in emitters:
        for ps in ss_:
            its = iterated(ps)
            if any(polarity_text(i) != (SRC, 'fwd') for i in its):
                probs.append('walks %s' % its)
                continue
            if L is None:
                emits = [e for e in ps.events if e.kind == 'yield']
                if [e for e in ps.events if e.kind == 'yieldfrom']:
                    probs.append('delegating yield')
                augs = []
                others = []
            else:
                emits = [e for e in ps.events if e.kind == 'call' and
                         isinstance(e.r.func, ast.Attribute) and e.r.func.attr == 'append'
                         and nt(e.r.func.value) == L and len(e.r.args) == 1]
                others = [e for e in ps.events if e.kind == 'call' and
                          isinstance(e.r.func, ast.Attribute) and
                          e.r.func.attr in ('insert', 'extend', 'pop', 'remove', 'reverse',
                                            'sort')]
                augs = [e for e in ps.events if e.kind == 'aug' and nt(e.r) == '%s[-1]' % L]
            if others:
                probs.append('edits the list with %s' % nt(others[0].r)[:40])

            def item(e):
                return e.r if e.kind == 'yield' else e.r.args[0]
            tail = list(emits)
            pos_cases = []            # (optional?, parts)
            if comp is not None:
                # the positionals come from a comprehension over self.positional
                gs = comp.generators
                if len(gs) != 1 or gs[0].ifs or polarity_text(nt(gs[0].iter)) != (SRC, 'fwd') \
                        or not isinstance(gs[0].target, ast.Name):
                    probs.append('positionals rendered by `%s`' % nt(comp)[:70])
                    continue
                v = gs[0].target.id
                for conds, val in value_cases(comp.elt):
                    m = [t for c, t in conds if c in ('%s in self.optional.keys()' % v,
                                                      '%s in self.optional' % v)]
                    other = [c for c, t in conds if c not in (
                        '%s in self.optional.keys()' % v, '%s in self.optional' % v)]
                    if other or len(m) > 1:
                        probs.append('positional rendering depends on `%s`'
                                     % (other or conds)[0][0][:50])
                        continue
                    parts = [x.replace(v, E) if x == v or ('[%s]' % v) in x else x
                             for x in concat(val)]
                    pos_cases.append((m[0] if m else None, parts))
                if any(E in nt(item(e)) for e in emits):
                    probs.append('a positional is rendered twice')
            elif its:
                first = [e for e in emits if E in nt(item(e))]
                if len(first) != 1:
                    probs.append('a positional is rendered %d times' % len(first))
                    continue
                entry = concat(item(first[0]))
                for a in augs:
                    if ps.index(a) < ps.index(first[0]):
                        probs.append('sig[-1] edited before the positional is appended')
                    if not (isinstance(a.val, ast.BinOp) and isinstance(a.val.op, ast.Add)):
                        probs.append('sig[-1] edited with `%s`' % nt(a.val)[:40])
                        continue
                    entry = entry + concat(a.val.right)
                    nxt = [e for e in emits
                           if ps.index(first[0]) < ps.index(e) < ps.index(a)]
                    if nxt:
                        probs.append('sig[-1] edited after another entry was appended')
                opt = fact_cmp(ps, E, 'self.optional.keys()', 'in')
                if opt is None:
                    opt = fact_cmp(ps, E, 'self.optional', 'in')
                if opt is None:
                    probs.append('optionality of a positional is not tested')
                    continue
                pos_cases.append((opt, entry))
                tail = [e for e in emits if e is not first[0]]
                if any(ps.index(e) < ps.index(first[0]) for e in tail):
                    probs.append('*args/**kw rendered before the positionals')
            elif augs:
                probs.append('sig[-1] edited without a positional')
            for opt, entry in pos_cases:
                if opt is None:
                    probs.append('optionality of a positional is not tested')
                    continue
                want = [E, "'='", 'repr(self.optional[%s])' % E] if opt else [E]
                kinds.add('opt' if opt else 'req')
                if entry != want:
                    probs.append('%s positional rendered as %s' % (
                        'optional' if opt else 'required', ' + '.join(entry)[:80]))
            va, kw = ps.fact('self.varargs'), ps.fact('self.kwargs')
            if va is None or kw is None:
                probs.append('varargs/kwargs presence not tested')
                continue
            want = (["'*' + self.varargs"] if va else []) + \
                (["'**' + self.kwargs"] if kw else [])
            kinds.add(('va' if va else 'nova') + ('kw' if kw else 'nokw'))
            if [nt(item(e)) for e in tail] != want:
                probs.append('after the positionals renders %s (required %s)'
                             % ([nt(item(e))[:30] for e in tail], want))
    for fn in [g] + [nested[k] for k in nested]:
        for lp in walk_local(fn):
            if isinstance(lp, ast.For) and \
                    [n for n in walk_local(lp) if isinstance(n, (ast.Break, ast.Return))]:
                probs.append('early exit from the walk')
    if not probs and not {'opt', 'req', 'vakw', 'novanokw', 'vanokw', 'novakw'} <= kinds:
        probs.append('path kinds %s' % sorted(kinds))
    rep.check(rule, site, not probs,
              'positionals in order (+ =repr(default) iff optional), then *varargs, '
              'then **kwargs, joined with ", " in parentheses' if not probs else
              {'problems': sorted(set(probs))[:4]}, construct='render', node=g)
    gi = find_def(mod, 'Method.getSignatureInfo')
    probs = []
    want = {k: 'self.' + k for k in FIELDS}
    for ps in normal(summaries(gi)):
        ret = ps.ret
        pairs = {}
        if isinstance(ret, ast.Dict):
            for k, v in zip(ret.keys, ret.values):
                if isinstance(k, ast.Constant):
                    pairs[k.value] = nt(v)
                else:
                    probs.append('non-literal key')
        elif isinstance(ret, ast.Call) and dotted(ret.func) == 'dict' and not ret.args:
            pairs = {k.arg: nt(k.value) for k in ret.keywords}
        base = nt(ret) if not pairs else None
        for e in ps.events:
            if e.kind == 'store' and isinstance(e.r, ast.Subscript) and \
                    nt(e.r.value) in ('{}', 'dict()') and \
                    isinstance(e.r.slice, ast.Constant):
                pairs[e.r.slice.value] = nt(e.val)
        if base is not None and base not in ('{}', 'dict()'):
            probs.append('returns `%s`' % base[:50])
        if pairs != want:
            probs.append('reports %s' % sorted(pairs.items())[:6])
    rep.check(rule, 'Method.getSignatureInfo', not probs,
              'the five fields are reported under their own names' if not probs
              else {'problems': sorted(set(probs))[:3]}, construct='info', node=gi)


def field_rewrites(rep, repo, rule, skip):
    """whoever rewrites positional of a Method it did not build from scratch
    rewrites required consistently"""
    sites = 0
    for rel in repo.all_py():
        m = repo.module(rel)
        for fn in ast.walk(m):
            if not isinstance(fn, FUNC) or fn.name == skip:
                continue
            # candidates: the function mentions a signature field other than
            # through `self`; confirmed below on its path summaries
            if fn.name in ('__init__',) or not any(
                    (isinstance(n, ast.Attribute) and n.attr in ('positional', 'required')
                     and not (isinstance(n.value, ast.Name) and n.value.id == 'self'))
                    or (isinstance(n, ast.Constant) and n.value in ('positional', 'required'))
                    for n in walk_local(fn)):
                continue
            from ..pyfront import inlined
            try:
                fsum = normal(summaries(inlined(fn)))
            except AnalysisError:
                continue
            wr = [e for ps in fsum for e in ps.events if e.kind == 'store' and
                  isinstance(e.r, ast.Attribute) and e.r.attr in ('positional', 'required')
                  and nt(e.r.value) != 'self']
            if not wr:
                continue
            tg = [wr[0].node.ast]
            sites += 1
            site = '%s:%s' % (rel, qualname(fn))
            probs = []
            detail = None
            for ps in normal(summaries(inlined(fn))):
                st = {}
                for e in ps.events:
                    if e.kind == 'store' and isinstance(e.r, ast.Attribute) and \
                            e.r.attr in FIELDS and nt(e.r.value) != 'self':
                        st.setdefault(nt(e.r.value), {})[e.r.attr] = e
                for obj, w in st.items():
                    p, r = w.get('positional'), w.get('required')
                    if p is None and r is None:
                        continue
                    if p is None or r is None:
                        probs.append('rewrites %s of %s only (required is a prefix '
                                     'of positional)' % (sorted(w), obj[:40]))
                        continue
                    kp = match('%s.positional[$k:]' % obj, p.val)
                    kr = match('%s.required[$k:]' % obj, r.val)
                    if kp is None or kr is None or nt(kp['k']) != nt(kr['k']):
                        probs.append('positional = `%s`, required = `%s`'
                                     % (nt(p.val)[-30:], nt(r.val)[-30:]))
                    else:
                        detail = ('drops the same %s leading parameter(s) from '
                                  'positional and required' % nt(kp['k']))
            rep.check(rule, site, not probs and detail is not None,
                      detail if not probs else {'problems': sorted(set(probs))[:3]},
                      construct='positional/required', node=tg[0])
    rep.require_soft(sites >= 1, '%s: no signature-field rewrite found' % rule)


def abc_method(rep, repo, rule):
    """ABC-derived descriptions: the function is described as written
    (imlevel 0) and exactly the leading positional name is then removed from
    positional and required; describing with imlevel=1 instead drops
    co_varnames[0] whatever it is (the *args name of `def update(*args, **kw)`)"""
    m = repo.module('common/__init__.py')
    cls = find_def(m, 'ABCInterfaceClass')
    from ..pyfront import methods_of
    f = None
    for k, v in methods_of(cls).items():
        if k.endswith('__method_from_function'):
            f = v
    if f is None:
        raise AnalysisError('anchor vanished: ABCInterfaceClass.__method_from_function')
    probs = []
    n = 0
    for ps in normal(summaries(f)):
        ff = [e for e in ps.events if e.kind == 'call' and dotted(e.r.func) == 'fromFunction']
        if len(ff) != 1:
            probs.append('%d fromFunction calls' % len(ff))
            continue
        n += 1
        c = ff[0].r
        params = ['func', 'interface', 'imlevel', 'name']
        bound = dict(zip(params, [nt(a) for a in c.args]))
        bound.update({k.arg: nt(k.value) for k in c.keywords})
        kw = bound
        if bound.get('imlevel', '0') != '0' or len(c.args) > 4 or \
                any(isinstance(a, ast.Starred) for a in c.args):
            probs.append('describes the function with imlevel=%s (drops '
                         'co_varnames[0] even when it is not a positional self)'
                         % bound.get('imlevel', '?'))
        if (bound.get('func'), bound.get('interface'), bound.get('name')) != \
                ('function', 'self', 'name'):
            probs.append('described as `%s`' % nt(c)[:70])
        D = nt(c)
        st = {e.r.attr: nt(e.val) for e in ps.stores() if isinstance(e.r, ast.Attribute)
              and nt(e.r.value) == D}
        if kw.get('imlevel', '0') == '0' and st != {
                'positional': '%s.positional[1:]' % D, 'required': '%s.required[1:]' % D}:
            probs.append('fields rewritten: %s' % {k: v[-25:] for k, v in st.items()})
        if nt(ps.ret) != D:
            probs.append('returns `%s`' % nt(ps.ret)[:50])
        # nothing else of the description is edited (optional, varargs, ...)
        for e in ps.events:
            if e is ff[0]:
                continue
            if e.kind == 'call' and isinstance(e.r.func, ast.Attribute) and \
                    nt(e.r.func.value).startswith(D + '.') and e.r.func.attr in (
                        'pop', 'popitem', 'clear', 'update', 'setdefault', 'remove',
                        'append', 'extend', 'insert', '__setitem__', '__delitem__'):
                probs.append('also edits the description: `%s`'
                             % nt(e.r).replace(D, '<method>')[:70])
            if e.kind in ('del', 'aug') and nt(e.r).startswith(D):
                probs.append('also edits the description: `%s %s`'
                             % (e.kind, nt(e.r).replace(D, '<method>')[:60]))
            if e.kind == 'store' and isinstance(e.r, ast.Subscript) and \
                    nt(e.r.value).startswith(D + '.'):
                probs.append('also edits the description: `%s[...] = ...`'
                             % nt(e.r.value).replace(D, '<method>')[:60])
    if not n:
        probs.append('no describing path')
    rep.check(rule, 'common/__init__.py:ABCInterfaceClass.__method_from_function',
              not probs, 'describes the ABC\'s function as written and removes the '
              'implied self from positional and required' if not probs else
              {'problems': sorted(set(probs))[:3]}, construct='abc-method', node=f)


def from_method(rep, mod, rule):
    fm = find_def(mod, 'fromMethod')
    probs = []
    kinds = set()
    for ps in normal(summaries(fm)):
        b = ps.fact('isinstance(meth, MethodType)')
        if b is None:
            probs.append('bound methods are not recognised')
            continue
        src = 'meth.__func__' if b else 'meth'
        kinds.add(b)
        want = ('fromFunction(%s, interface, imlevel=1, name=name)' % src,
                'fromFunction(%s, interface, 1, name)' % src,
                'fromFunction(%s, interface, 1, name=name)' % src)
        if nt(ps.ret) not in want:
            probs.append('%s described by `%s`' % ('bound method' if b else 'function',
                                                   nt(ps.ret)[:70]))
    rep.check(rule, 'interface.fromMethod', not probs and kinds == {True, False},
              'bound methods are unwrapped (__func__) and described with imlevel=1 '
              '(self removed)' if not probs else {'problems': sorted(set(probs))},
              construct='fromMethod', node=fm)
