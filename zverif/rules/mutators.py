"""Semantic rules for BaseAdapterRegistry.register / unregister / subscribe /
unsubscribe / _find_leaf, formulated over guards (canonical facts on CFG
edges, with locals resolved) and path summaries, so that they are independent
of spelling and of extracted private helpers (inlined by pyfront)."""
import ast

from ..core import AnalysisError, norm_src
from ..pyfront import (find_def, find_all, match, walk_local, dotted, same,
                       calls_in, clone)
from ..flowq import iter_polarity, resolve_local, assigned_at
from ..cfg import cfg_of, header_expr
from ..facts import (canon, guarded, guarded_any, test_nodes, resolve,
                     resolved_test)
from ..sympath import summaries, normal
from . import shared
from .sem import nt

R_NORM = 'tuple([_convert_None_to_Interface(r) for r in required])'


def norm_required(text):
    """normalise the spelling of the normalised `required` tuple and of
    len(key) - 1 == len(required)"""
    for v in ('r', 'x', 'spec', 'req', 'i'):
        text = text.replace('tuple([_convert_None_to_Interface(%s) for %s in required])' % (v, v), 'R')
        text = text.replace('tuple((_convert_None_to_Interface(%s) for %s in required))' % (v, v), 'R')
    text = text.replace('tuple(map(_convert_None_to_Interface, required))', 'R')
    text = text.replace('len(R + (provided,)) - 1', 'len(R)')
    return text


def nodes_matching(cfg, pattern, mode='eval'):
    out = []
    for n in cfg.nodes:
        if n.ast is None:
            continue
        h = header_expr(n)
        if h is None:
            continue
        if mode == 'exec':
            if isinstance(h, ast.stmt) and match(pattern, h, 'exec') is not None:
                out.append(n)
        elif find_all(h, pattern):
            out.append(n)
    return out


def count_test(cfg, value_patterns, const):
    """canonical text of the resolved test `<count> == const`"""
    for n in cfg.nodes:
        if n.kind != 'test' or n.ast is None:
            continue
        c, pol = canon(resolved_test(cfg, n, depth=6), True)
        try:
            e = ast.parse(c, mode='eval').body
        except SyntaxError:
            continue
        if isinstance(e, ast.Compare) and isinstance(e.ops[0], ast.Eq):
            l, r = e.left, e.comparators[0]
            if isinstance(r, ast.Constant) and r.value == const and any(
                    match(p, l) is not None for p in value_patterns):
                return c, n
    return None, None


def extendor_transitions(rep, rule, mod, fname, kind):
    f = find_def(mod, 'BaseAdapterRegistry.' + fname)
    site = 'BaseAdapterRegistry.' + fname
    cfg = cfg_of(f)
    if kind == 'add':
        pats = ['self._provided.get(provided, 0) + 1', '1 + self._provided.get(provided, 0)']
        ctext, cnode = count_test(cfg, pats, 1)
        calls = nodes_matching(cfg, 'self._v_lookup.add_extendor(provided)')
        stores = [n for n in cfg.nodes if isinstance(n.ast, ast.Assign) and
                  match('self._provided[provided]', n.ast.targets[0]) is not None]
        okv = len(stores) == 1 and any(
            match(p, resolve(cfg, stores[0], stores[0].ast.value)) is not None for p in pats)
        ok = ctext is not None and len(calls) == 1 and okv and \
            guarded(cfg, calls[0], ctext, True)
        # ... and whenever the count becomes 1 the call happens: the F side
        # of the guard is the only way around the call
        if ok:
            t = [(n, pol) for n, pol in test_nodes(cfg, ctext)]
            for n, pol in t:
                lab = 'T' if pol else 'F'
                nxt = [m for m, l in n.succ if l == lab]
                ok = ok and all(cfg.must_pass_after(n, lambda x: x is calls[0])
                                or m is calls[0] or calls[0].id in cfg.reach(m, include_start=True)
                                for m in nxt)
        rep.check(rule, site, ok,
                  'count stored as get(provided, 0) + 1 (%s); add_extendor(provided) '
                  'exactly when it becomes 1 (test `%s`, calls %d)'
                  % (okv, ctext, len(calls)), construct='add_extendor', node=f)
        return
    if fname == 'unregister':
        pats = ['self._provided[provided] - 1']
    else:
        pats = ['self._provided[provided] + len($n) - $o', 'self._provided[provided] - ($o - len($n))',
                'self._provided[provided] - $o + len($n)', 'self._provided[provided] + (len($n) - $o)']
    ctext, cnode = count_test(cfg, pats, 0)
    calls = nodes_matching(cfg, 'self._v_lookup.remove_extendor(provided)')
    dels = nodes_matching(cfg, 'del self._provided[provided]', 'exec')
    stores = [n for n in cfg.nodes if isinstance(n.ast, ast.Assign) and
              match('self._provided[provided]', n.ast.targets[0]) is not None]
    ok = ctext is not None and len(calls) == 1 and len(dels) == 1 and len(stores) == 1
    detail = 'count test %s, remove_extendor %d, del %d, store %d' % (
        ctext, len(calls), len(dels), len(stores))
    if ok:
        okv = any(match(p, resolve(cfg, stores[0], stores[0].ast.value)) is not None
                  for p in pats)
        g1 = guarded(cfg, calls[0], ctext, True) and guarded(cfg, dels[0], ctext, True)
        g2 = guarded(cfg, stores[0], ctext, False)
        if fname == 'unsubscribe':
            # len_old is the length of the old leaf taken before the removal
            lo = [n for n in cfg.nodes if isinstance(n.ast, ast.Assign) and
                  isinstance(n.ast.targets[0], ast.Name) and
                  match('len($o)', n.ast.value) is not None]
        ok = okv and g1 and g2
        detail = ('count = %s (%s); zero -> delete the count and remove_extendor '
                  '(%s); otherwise store it (%s)' % (pats[0], okv, g1, g2))
    rep.check(rule, site, ok, detail, construct='remove_extendor', node=f)


def unsubscribe_new(rep, rule, mod):
    f = find_def(mod, 'BaseAdapterRegistry.unsubscribe')
    site = 'BaseAdapterRegistry.unsubscribe'
    cfg = cfg_of(f)
    defs = [n for n in cfg.nodes if isinstance(n.ast, ast.Assign) and
            any(isinstance(t, ast.Name) and t.id == 'new' for t in n.ast.targets)]
    ok = len(defs) == 2
    detail = 'definitions of new: %s' % [norm_src(n.ast.value) for n in defs]
    if ok:
        empty = [n for n in defs if match('()', n.ast.value) is not None]
        rem = [n for n in defs if match('self._removeValueFromLeaf($old, value)',
                                        n.ast.value) is not None]
        ok = len(empty) == 1 and len(rem) == 1 and \
            guarded(cfg, empty[0], 'value is None', True) and \
            guarded(cfg, rem[0], 'value is None', False)
        if ok:
            old = match('self._removeValueFromLeaf($old, value)', rem[0].ast.value)['old']
            oldv = resolve(cfg, rem[0], old)
            ok = match("$c.get('')", oldv) is not None
            detail = ("value None -> (); else _removeValueFromLeaf(<leaf stored "
                      "under ''>, value): old = %s" % norm_src(oldv))
    rep.check(rule, site, ok, detail, construct='new', node=f)
    # nothing written before the "nothing removed" return
    writes, D = shared.content_writes(f, ('_subscribers', '_provided'))
    wnodes = [cfg.node_of(w) for w, k, c, v in writes]
    tn = test_nodes(cfg, 'len(new) == len_old') or test_nodes(cfg, 'len(new) == len(old)')
    if not tn:
        # resolved spelling
        for n in cfg.nodes:
            if n.kind == 'test' and n.ast is not None:
                c, pol = canon(resolved_test(cfg, n, depth=2), True)
                if c.startswith('len(new) == len('):
                    tn = [(n, pol)]
    ok = len(tn) == 1
    if ok:
        t, pol = tn[0]
        lab = 'T' if pol else 'F'
        same_len = [m for m, l in t.succ if l == lab]
        # equal lengths: returns without reaching any write
        okr = bool(same_len) and all(
            not any(w.id in cfg.reach(m, include_start=True) for w in wnodes)
            for m in same_len)
        before = cfg.reach(cfg.entry, include_start=True, avoid=lambda n: n is t)
        okb = not any(w.id in before for w in wnodes)
        ok = okr and okb
    rep.check(rule, site, ok,
              'returns without any storage write when nothing was removed '
              '(len(new) == len_old), and nothing is written before that test',
              construct='early-return', node=f)
    # the leaf is stored when non-empty, deleted when empty
    st = nodes_matching(cfg, "$c[''] = new", 'exec')
    dl = nodes_matching(cfg, "del $c['']", 'exec')
    ok = len(st) == 1 and len(dl) == 1 and guarded(cfg, st[0], 'new', True) and \
        guarded(cfg, dl[0], 'new', False)
    rep.check(rule, site, ok,
              "a non-empty remainder is stored back under '', an empty one deletes "
              "the entry (%d/%d)" % (len(st), len(dl)), construct='leaf-write', node=f)
    kinds = []
    okw = True
    for w, kind, cont, val in writes:
        stt = shared.stmt_of(w)
        if match("$c[''] = new", stt, 'exec') is not None or \
                match("del $c['']", stt, 'exec') is not None:
            kinds.append('leaf')
        elif match('del $c[$k]', stt, 'exec') is not None:
            kinds.append('prune')
        elif match('del self._provided[provided]', stt, 'exec') is not None or \
                match('self._provided[provided] = $n', stt, 'exec') is not None:
            kinds.append('count')
        else:
            okw = False
            kinds.append('OTHER:' + norm_src(stt).split('\n')[0][:50])
    rep.check(rule, site, okw, 'storage writes: %s' % sorted(set(kinds)),
              construct='writes', node=f)


def value_filter(rep, rule, mod):
    """unregister removes only when the stored value IS the given one (or no
    value was given) and something is stored."""
    f = find_def(mod, 'BaseAdapterRegistry.unregister')
    site = 'BaseAdapterRegistry.unregister'
    cfg = cfg_of(f)
    dl = nodes_matching(cfg, 'del $c[name]', 'exec')
    ok = len(dl) == 1
    detail = 'leaf deletions: %d' % len(dl)
    if ok:
        d = dl[0]
        cont = d.ast.targets[0].value
        old = '%s.get(name)' % norm_src(resolve(cfg, d, cont)) if False else None
        # the stored value as probed: <container>.get(name), possibly via a local
        g_notnone = False
        g_ident = False
        for cand in ('old', '%s.get(name)' % norm_src(cont)):
            if guarded(cfg, d, '%s is None' % cand, False):
                g_notnone = True
            alts = [('value is None', True)]
            for a, b in ((cand, 'value'), ('value', cand)):
                c, pol = canon(ast.parse('%s is %s' % (a, b), mode='eval').body, True)
                alts.append((c, True))
            if guarded_any(cfg, d, alts):
                g_ident = True
        # no equality in the filter
        eqs = [n for n in cfg.nodes if n.kind == 'test' and n.ast is not None and
               isinstance(n.ast, ast.Compare) and isinstance(n.ast.ops[0], (ast.Eq, ast.NotEq))
               and 'value' in norm_src(n.ast)]
        ok = g_notnone and g_ident and not eqs
        detail = ('the leaf is deleted only if something is stored (%s) and (no '
                  'value was given or the stored value IS the given one) (%s); '
                  'equality tests on value: %s' % (g_notnone, g_ident,
                                                    [norm_src(n.ast) for n in eqs]))
    rep.check(rule, site, ok, detail, construct='value-filter', node=f)


def prune(rep, rule, mod, fname):
    """over path summaries: the descent is recorded once per level as
    (container, key) in a fresh list; the prune walk runs over that list
    backwards, deletes container[key] only when it is empty and never
    continues past a non-empty one"""
    from .declsem import alloc_site
    from .specsem import polarity_text
    f = find_def(mod, 'BaseAdapterRegistry.' + fname)
    site = 'BaseAdapterRegistry.' + fname
    cfg = cfg_of(f)
    ss = normal(summaries(f))
    probs = []
    walks = 0
    kinds = set()
    for ps in ss:
        its = [(k, c) for k, (c, t, p) in enumerate(ps.order)
               if t and c.startswith('ITER(')]
        for k, c in its:
            src = ps.order_ast.get(k)
            if src is None:
                continue
            base, d = iter_polarity(src)
            s_ = alloc_site(base)
            if s_ is None:
                continue
            E = 'EACH(%s)' % nt(src)
            slot = '%s[0][%s[1]]' % (E, E)
            recs = [e for e in ps.events if e.kind == 'call' and
                    isinstance(e.r.func, ast.Attribute) and e.r.func.attr == 'append'
                    and alloc_site(e.r.func.value) == s_]
            if not recs:
                continue
            walks += 1
            if d != 'rev':
                probs.append('the recorded descent is walked %s (required: leaf -> root)' % d)
            for e in recs:
                a = e.r.args[0] if e.r.args else None
                if not (isinstance(a, ast.Tuple) and len(a.elts) == 2 and
                        nt(a.elts[1]).startswith('EACH(') and
                        'provided,)' in nt(a.elts[1])):
                    probs.append('descent recorded as `%s`' % nt(a)[:60])
            emp = [(j, t) for j, (cc, t, p) in enumerate(ps.order) if cc == slot and j > k]
            dels = [e for e in ps.dels() if nt(e.r) == slot]
            if not emp:
                probs.append('a container is removed without testing that it is empty')
                continue
            j, t = emp[-1]
            kinds.add(t)
            if t:
                if dels:
                    probs.append('a non-empty container is removed')
                if ps.reenters_loop(cfg, j):
                    probs.append('the walk continues past a non-empty container')
            elif len(dels) != 1:
                probs.append('an emptied container is not removed')
    if not walks:
        probs.append('pruning walk over the recorded descent not found')
    elif kinds != {True, False}:
        probs.append('outcomes of the emptiness test seen: %s' % sorted(kinds))
    rep.check(rule, site, not probs,
              'emptied containers are removed leaf -> root, each only if empty, '
              'stopping at the first non-empty one (%d walk paths)' % walks
              if not probs else {'problems': sorted(set(probs))[:3]},
              construct='prune', node=f)
    STORE = 'self._adapters' if fname == 'unregister' else 'self._subscribers'
    probs = []
    ndel = 0
    for ps in ss:
        for e in ps.dels():
            if nt(e.r) != '%s[-1]' % STORE:
                continue
            ndel += 1
            idx = ps.index(e)
            before = [(c, t) for c, t, p in ps.order if p <= idx]
            nonempty = [t for c, t in before if c == STORE]
            last = [t for c, t in before if c == '%s[-1]' % STORE]
            if not nonempty or nonempty[-1] is not True or not last or last[-1] is not False:
                probs.append('a trailing per-order mapping is dropped without testing '
                             'that it exists and is empty')
    if not ndel:
        probs.append('trailing empty per-order mappings are never dropped')
    rep.check(rule, site, not probs,
              'trailing per-order mappings are dropped only while empty'
              if not probs else {'problems': sorted(set(probs))[:2]},
              construct='trailing', node=f)


def leaf_container(text, storage):
    """is `text` the container reached by descending self.<storage>[len(R)]
    along R + (provided,) (one modelled iteration), or a fresh mapping?"""
    t = norm_required(text)
    ok = {
        'self.%s[len(R)].get(EACH(R + (provided,)))' % storage,
        'self._mappingType()',
    }
    return t in ok, t


def descent(rep, rule, mod, fname, storage):
    """key construction: the leaf container written/read is
    self.<storage>[len(R)] descended along R + (provided,), R = required with
    None -> Interface."""
    f = find_def(mod, 'BaseAdapterRegistry.' + fname)
    site = 'BaseAdapterRegistry.' + fname
    ss = normal(summaries(f))
    seen = set()
    problems = []
    for ps in ss:
        if not any(t and c.startswith('ITER(') and 'provided,)' in norm_required(c)
                   for c, t, p in ps.order):
            continue
        for e in ps.events:
            tgt = None
            if e.kind in ('store', 'del') and isinstance(e.r, ast.Subscript):
                key = nt(e.r.slice)
                if key in ("''", 'name', '_normalize_name(name)'):
                    tgt = e.r.value
            if e.kind == 'call' and isinstance(e.r.func, ast.Attribute) and \
                    e.r.func.attr == 'get' and e.r.args and \
                    nt(e.r.args[0]) in ("''", 'name', '_normalize_name(name)'):
                tgt = e.r.func.value
            if tgt is None:
                continue
            ok, t = leaf_container(nt(tgt), storage)
            seen.add(t)
            if not ok:
                problems.append('leaf container `%s`' % t[:90])
    if not seen:
        problems.append('no leaf access found')
    rep.check(rule, site, not problems,
              'the leaf is self.%s[len(required)] descended along required + '
              '(provided,) with None -> Interface (%d access forms)' % (storage, len(seen))
              if not problems else {'problems': sorted(set(problems))[:4]},
              construct='descent', node=f)


def no_reentry(rep, rule, mod):
    """The four storage primitives hold local references into the nested
    registration mappings; a call of another storage writer while such a
    reference is live may prune/replace the mapping it points into (the later
    write then lands in a detached mapping).  Rule: none of them calls a
    method that (transitively) writes the registration storage."""
    from ..pyfront import methods_of
    cls = find_def(mod, 'BaseAdapterRegistry')
    ms = methods_of(cls)
    writers = set()
    for name, f in ms.items():
        writes, D = shared.content_writes(f, ('_adapters', '_subscribers', '_provided'))
        if writes:
            writers.add(name)
    changed = True
    while changed:
        changed = False
        for name, f in ms.items():
            if name in writers:
                continue
            for n in walk_local(f):
                if isinstance(n, ast.Call) and isinstance(n.func, ast.Attribute) and \
                        isinstance(n.func.value, ast.Name) and n.func.value.id == 'self' \
                        and n.func.attr in writers:
                    writers.add(name)
                    changed = True
    rep.require({'register', 'unregister', 'subscribe', 'unsubscribe'} <= writers,
                'storage writers not recognised: %s' % sorted(writers))
    for name in ('register', 'unregister', 'subscribe', 'unsubscribe'):
        f = ms[name]
        bad = []
        for ps in normal(summaries(f)):
            re = [e for e in ps.events
                  if e.kind == 'call' and isinstance(e.r.func, ast.Attribute) and
                  nt(e.r.func.value) == 'self' and e.r.func.attr in writers]
            if not re:
                continue
            # pure delegation (nothing of the storage is touched on this path)
            others = [e for e in ps.events if e not in re and not (
                e.kind == 'call' and isinstance(e.r.func, ast.Name) and
                e.r.func.id in ('isinstance', 'len', 'tuple', 'str', 'type'))]
            if len(re) == 1 and not others:
                continue
            bad.extend(nt(e.r)[:70] for e in re)
        rep.check(rule, 'BaseAdapterRegistry.' + name, not bad,
                  'calls no other writer of the registration storage (writers: %s)'
                  % sorted(writers) if not bad else
                  {'re-entrant storage writer called while local references into '
                   'the storage are live': sorted(set(bad))[:3]},
                  construct='no-reentry', node=f)
