"""Semantic rules for BaseAdapterRegistry.register / unregister / subscribe /
unsubscribe / _find_leaf, formulated over guards (canonical facts on CFG
edges, with locals resolved) and path summaries, so that they are independent
of spelling and of extracted private helpers (inlined by pyfront)."""
import ast

from ..core import AnalysisError, norm_src
from ..pyfront import (find_def, find_all, match, walk_local, dotted, same,
                       calls_in, clone)
from ..flowq import iter_polarity, resolve_local, assigned_at
from ..cfg import cfg_of, header_expr
from ..facts import (canon, guarded, guarded_any, test_nodes, resolve,
                     resolved_test)
from ..sympath import summaries, normal
from . import shared
from .sem import nt

R_NORM = 'tuple([_convert_None_to_Interface(r) for r in required])'


class _NormReq(ast.NodeTransformer):
    """R = the normalised `required` (each member through
    _convert_None_to_Interface), however it is spelled; key = R + (provided,)"""

    @staticmethod
    def _is_conv(e, var):
        return isinstance(e, ast.Call) and dotted(e.func) == '_convert_None_to_Interface' \
            and len(e.args) == 1 and isinstance(e.args[0], ast.Name) and e.args[0].id == var

    def _conv_all(self, e):
        if isinstance(e, (ast.ListComp, ast.GeneratorExp)) and len(e.generators) == 1:
            g = e.generators[0]
            return isinstance(g.target, ast.Name) and not g.ifs and \
                isinstance(g.iter, ast.Name) and g.iter.id == 'required' and \
                self._is_conv(e.elt, g.target.id)
        if isinstance(e, ast.Call) and dotted(e.func) == 'map' and len(e.args) == 2:
            return dotted(e.args[0]) == '_convert_None_to_Interface' and \
                isinstance(e.args[1], ast.Name) and e.args[1].id == 'required'
        return False

    def visit_Call(self, node):
        if dotted(node.func) in ('tuple', 'list') and len(node.args) == 1 and \
                self._conv_all(node.args[0]):
            return ast.Name(id='R', ctx=ast.Load())
        self.generic_visit(node)
        return node

    def visit_ListComp(self, node):
        if self._conv_all(node):
            return ast.Name(id='R', ctx=ast.Load())
        self.generic_visit(node)
        return node

    def _seq(self, node):
        self.generic_visit(node)
        # (*A, b) -> A + (b,)
        if len(node.elts) == 2 and isinstance(node.elts[0], ast.Starred) and \
                not isinstance(node.elts[1], ast.Starred):
            return ast.BinOp(left=node.elts[0].value, op=ast.Add(),
                             right=ast.Tuple(elts=[node.elts[1]], ctx=ast.Load()))
        return node

    visit_Tuple = visit_List = _seq

    def visit_BinOp(self, node):
        self.generic_visit(node)
        # A + [b]  ->  A + (b,)   (a key built as a list)
        if isinstance(node.op, ast.Add) and isinstance(node.right, ast.List) and \
                len(node.right.elts) == 1:
            node.right = ast.Tuple(elts=node.right.elts, ctx=ast.Load())
        return node


def norm_required(text):
    """normalise the spelling of the normalised `required` tuple and of
    len(key) - 1 == len(required)"""
    try:
        e = ast.parse(text, mode='eval').body
        text = norm_src(_NormReq().visit(e))
    except SyntaxError:
        pass
    text = text.replace('len(R + (provided,)) - 1', 'len(R)')
    return text


def nodes_matching(cfg, pattern, mode='eval'):
    out = []
    for n in cfg.nodes:
        if n.ast is None:
            continue
        h = header_expr(n)
        if h is None:
            continue
        if mode == 'exec':
            if isinstance(h, ast.stmt) and match(pattern, h, 'exec') is not None:
                out.append(n)
        elif find_all(h, pattern):
            out.append(n)
    return out


def count_test(cfg, value_patterns, const):
    """canonical text of the resolved test `<count> == const`"""
    for n in cfg.nodes:
        if n.kind != 'test' or n.ast is None:
            continue
        c, pol = canon(resolved_test(cfg, n, depth=6), True)
        try:
            e = ast.parse(c, mode='eval').body
        except SyntaxError:
            continue
        if isinstance(e, ast.Compare) and isinstance(e.ops[0], ast.Eq):
            l, r = e.left, e.comparators[0]
            if isinstance(r, ast.Constant) and r.value == const and any(
                    match(p, l) is not None for p in value_patterns):
                return c, n
    return None, None


class _NumSub(ast.NodeTransformer):
    def __init__(self, text, value):
        self.text, self.value = text, value

    def generic_visit(self, node):
        if isinstance(node, ast.expr) and nt(node) == self.text:
            return ast.Constant(value=self.value)
        return super().generic_visit(node)


_NUM_OK = (ast.Expression, ast.Compare, ast.BinOp, ast.UnaryOp, ast.BoolOp, ast.Constant,
           ast.Add, ast.Sub, ast.Mult, ast.Not, ast.USub, ast.And, ast.Or, ast.Eq, ast.NotEq,
           ast.Lt, ast.LtE, ast.Gt, ast.GtE, ast.Load)


def _first_count_test(ps, G):
    """truth of "the old count G is 0" (the new count is 1) as decided by a
    fact of the path that is an arithmetic test on G: the fact must take one
    value for G == 0 and the other for every G >= 1 (counts are naturals)"""
    for c, t, p in ps.order:
        if G not in c:
            continue
        try:
            e = ast.parse(c, mode='eval')
        except SyntaxError:
            continue
        vals = []
        for g in (0, 1, 2, 3, 7):
            e2 = _NumSub(G, g).visit(ast.parse(c, mode='eval'))
            if not all(isinstance(n, _NUM_OK) for n in ast.walk(e2)):
                vals = None
                break
            ast.fix_missing_locations(e2)
            try:
                vals.append(bool(eval(compile(e2, '<count-test>', 'eval'), {'__builtins__': {}})))
            except Exception:
                vals = None
                break
        if vals and all(v != vals[0] for v in vals[1:]):
            return t == vals[0]
    return None


def extendor_transitions(rep, rule, mod, fname, kind):
    """over path summaries: the per-provided count is stored as old + 1 and
    add_extendor runs exactly when it becomes 1; on removal the new count is
    old - (what was removed), zero deletes the count and runs remove_extendor,
    anything else is stored back"""
    f = find_def(mod, 'BaseAdapterRegistry.' + fname)
    site = 'BaseAdapterRegistry.' + fname
    ss = normal(summaries(f))
    CNT = 'self._provided[provided]'
    probs = []
    if kind == 'add':
        pats = ['self._provided.get(provided, 0) + 1', '1 + self._provided.get(provided, 0)']
        seen = set()
        for ps in ss:
            st = [e for e in ps.stores() if nt(e.r) == CNT]
            adds = [e for e in ps.events if e.kind == 'call' and
                    nt(e.r) == 'self._v_lookup.add_extendor(provided)']
            if not st:
                if adds:
                    probs.append('add_extendor without counting')
                continue
            if len(st) != 1 or nt(st[0].val) not in pats:
                probs.append('count stored as %s' % [nt(e.val)[:50] for e in st])
                continue
            N = nt(st[0].val)
            one = ps.facts.get('%s == 1' % N)
            if one is None:
                # any test that separates "old count 0" from "old count >= 1"
                # (previous == 0, not previous, n < 2, ...) decides the same thing
                one = _first_count_test(ps, 'self._provided.get(provided, 0)')
            if one is None:
                probs.append('the new count is not compared with 1')
                continue
            seen.add(one)
            if (len(adds) == 1) != one or len(adds) > 1:
                probs.append('count becomes %s: add_extendor called %d times'
                             % ('1' if one else 'more than 1', len(adds)))
        if seen != {True, False}:
            probs.append('count == 1 outcomes seen: %s' % sorted(seen))
        rep.check(rule, site, not probs,
                  'count stored as get(provided, 0) + 1; add_extendor(provided) '
                  'exactly when it becomes 1' if not probs else
                  {'problems': sorted(set(probs))[:3]}, construct='add_extendor', node=f)
        return
    if fname == 'unregister':
        pats = ['self._provided[provided] - 1']
    else:
        pats = ['self._provided[provided] + len($n) - $o',
                'self._provided[provided] - ($o - len($n))',
                'self._provided[provided] - $o + len($n)',
                'self._provided[provided] + (len($n) - $o)']

    def is_count(e):
        return any(match(p_, e) is not None for p_ in pats)
    seen = set()
    for ps in ss:
        st = [e for e in ps.stores() if nt(e.r) == CNT]
        dl = [e for e in ps.dels() if nt(e.r) == CNT]
        rm = [e for e in ps.events if e.kind == 'call' and
              nt(e.r) == 'self._v_lookup.remove_extendor(provided)']
        if not st and not dl:
            if rm:
                probs.append('remove_extendor without touching the count')
            continue
        zero = None
        for c, t, p in ps.order:
            try:
                e = ast.parse(c, mode='eval').body
            except SyntaxError:
                continue
            if isinstance(e, ast.Compare) and isinstance(e.ops[0], ast.Eq) and \
                    isinstance(e.comparators[0], ast.Constant) and \
                    e.comparators[0].value == 0 and is_count(e.left):
                zero = t
            elif is_count(e):
                zero = not t          # truthiness of the new count
        if zero is None:
            probs.append('the new count is not tested against zero (facts %s)'
                         % [c[:50] for c, t, p in ps.order][-2:])
            continue
        seen.add(zero)
        if zero:
            if len(dl) != 1 or len(rm) != 1 or st:
                probs.append('count reaches zero: del %d, remove_extendor %d, store %d'
                             % (len(dl), len(rm), len(st)))
        else:
            if dl or rm or len(st) != 1 or not is_count(st[0].val):
                probs.append('count stays positive: del %d, remove_extendor %d, '
                             'stores %s' % (len(dl), len(rm),
                                            [nt(e.val)[:50] for e in st]))
    if seen != {True, False}:
        probs.append('zero / non-zero outcomes seen: %s' % sorted(seen))
    rep.check(rule, site, not probs,
              'count = %s; zero -> delete the count and remove_extendor; otherwise '
              'store it' % pats[0] if not probs else {'problems': sorted(set(probs))[:3]},
              construct='remove_extendor', node=f)


def nfacts(ps):
    """the path's facts with their text normalised like nt() does for
    events (so both can be compared)"""
    out = []
    for c, t, p in ps.order:
        if c.startswith(('ITER(', 'EXCEPT(')):
            out.append((c, t, p))
            continue
        try:
            out.append((nt(ast.parse(c, mode='eval').body), t, p))
        except SyntaxError:
            out.append((c, t, p))
    return out


def nfact(ps, text):
    v = None
    for c, t, p in nfacts(ps):
        if c == text:
            v = t
    return v


def _leaf_get(ps, key="''"):
    """resolved text of the leaf probe <container>.get('') on the path"""
    for e in ps.events:
        if e.kind == 'call' and isinstance(e.r.func, ast.Attribute) and \
                e.r.func.attr == 'get' and len(e.r.args) == 1 and nt(e.r.args[0]) == key:
            return nt(e.r), nt(e.r.func.value)
    return None, None


def unsubscribe_new(rep, rule, mod):
    """over path summaries: the remainder is () when no value was given, else
    _removeValueFromLeaf(<leaf under ''>, value); when nothing was removed the
    method returns without any write; a non-empty remainder is stored back
    under '', an empty one deletes the entry; only leaf / emptied ancestors /
    the provided count are written"""
    f = find_def(mod, 'BaseAdapterRegistry.unsubscribe')
    site = 'BaseAdapterRegistry.unsubscribe'
    p_new, p_early, p_leaf, p_w = [], [], [], []
    kinds = set()
    leafk = set()
    for ps in normal(summaries(f)):
        old, cont = _leaf_get(ps)
        if old is None:
            if ps.stores() or ps.dels():
                p_w.append('writes without reading the leaf')
            continue
        rm = [e for e in ps.events if e.kind == 'call' and
              nt(e.r.func) == 'self._removeValueFromLeaf']
        vn = ps.facts.get('value is None')
        writes = [e for e in ps.events if e.kind in ('store', 'del', 'aug')]
        if nfact(ps, old) is False or vn is None:
            # nothing stored under '' at all: belt-and-suspenders return
            if writes and vn is None:
                p_early.append('writes although no subscriber is stored')
            if vn is None:
                continue
        if vn:
            kinds.add('all')
            NEW = '()'
            if rm:
                p_new.append('value None but _removeValueFromLeaf is called')
        else:
            kinds.add('one')
            if len(rm) != 1 or [nt(a) for a in rm[0].r.args] != [old, 'value']:
                p_new.append('remainder computed as %s (required '
                             '_removeValueFromLeaf(<leaf>, value))' %
                             [nt(e.r)[-60:] for e in rm])
                continue
            NEW = nt(rm[0].r)
        same = None
        for c, t, p in nfacts(ps):
            if c in ('len(%s) == len(%s)' % (NEW, old), 'len(%s) == len(%s)' % (old, NEW)):
                same = t
        if same is None and not vn:
            p_early.append('the remainder is not compared in length with the old leaf')
            continue
        if same:
            if writes:
                p_early.append('writes although nothing was removed')
            continue
        st = [e for e in ps.stores() if nt(e.r) == "%s['']" % cont]
        dl = [e for e in ps.dels() if nt(e.r) == "%s['']" % cont]
        nonempty = nfact(ps, NEW)
        if NEW == '()':
            nonempty = False if nonempty is None else nonempty
        if nonempty is None:
            p_leaf.append('remainder not tested for emptiness')
        elif nonempty:
            leafk.add('store')
            if [nt(e.val) for e in st] != [NEW] or dl:
                p_leaf.append('a non-empty remainder is not stored back')
        else:
            leafk.add('delete')
            if len(dl) != 1 or st:
                p_leaf.append('an empty remainder does not delete the entry')
        for e in writes:
            t = nt(e.r)
            if t == "%s['']" % cont or t.startswith('self._provided[') or \
                    (e.kind == 'del' and isinstance(e.r, ast.Subscript)):
                continue
            p_w.append('writes `%s`' % repr(e)[:60])
    if kinds != {'all', 'one'}:
        p_new.append('cases seen: %s' % sorted(kinds))
    if not {'delete'} <= leafk:
        p_leaf.append('leaf outcomes seen: %s' % sorted(leafk))
    rep.check(rule, site, not p_new,
              "value None -> (); else _removeValueFromLeaf(<leaf stored under ''>, value)"
              if not p_new else {'problems': sorted(set(p_new))[:3]}, construct='new', node=f)
    rep.check(rule, site, not p_early,
              'returns without any storage write when nothing was removed '
              '(len(new) == len(old leaf))' if not p_early else
              {'problems': sorted(set(p_early))[:3]}, construct='early-return', node=f)
    rep.check(rule, site, not p_leaf,
              "a non-empty remainder is stored back under '', an empty one deletes "
              "the entry" if not p_leaf else {'problems': sorted(set(p_leaf))[:3]},
              construct='leaf-write', node=f)
    rep.check(rule, site, not p_w, 'storage writes: leaf, emptied ancestors, count'
              if not p_w else {'problems': sorted(set(p_w))[:3]}, construct='writes', node=f)


def value_filter(rep, rule, mod):
    """unregister removes only when something is stored and (no value was
    given or the stored value IS the given one); over path summaries"""
    f = find_def(mod, 'BaseAdapterRegistry.unregister')
    site = 'BaseAdapterRegistry.unregister'
    probs = []
    kinds = set()
    for ps in normal(summaries(f)):
        old = None
        for key in ('name', '_normalize_name(name)'):
            o, cont = _leaf_get(ps, key)
            if o is not None:
                old, okey = o, key
        dl = [e for e in ps.dels() if isinstance(e.r, ast.Subscript)
              and nt(e.r.slice) in ('name', '_normalize_name(name)')]
        if old is None:
            if dl:
                probs.append('deletes without probing the leaf')
            continue
        stored = nfact(ps, '%s is None' % old)
        vn = ps.facts.get('value is None')
        ident = None
        for c, t, p in nfacts(ps):
            if c in ('%s is value' % old, 'value is %s' % old):
                ident = t
            try:
                e = ast.parse(c, mode='eval').body
            except SyntaxError:
                continue
            if isinstance(e, ast.Compare) and isinstance(e.ops[0], ast.Eq) and \
                    'value' in (nt(e.left), nt(e.comparators[0])) and old in c:
                probs.append('the stored value is compared with the given one by '
                             'equality (`%s`)' % c[:70])
            if c == old:
                probs.append('the stored value is tested for truth, not against None '
                             '(a falsy component can never be removed)')
        if stored is None and not dl:
            continue
        want = (stored is False) and (vn is True or ident is True)
        kinds.add(want)
        if want != bool(dl):
            probs.append('stored=%s value-given=%s identical=%s: %s'
                         % (stored is False, vn is False, ident,
                            'deleted' if dl else 'kept'))
    if kinds != {True, False}:
        probs.append('outcomes seen %s' % sorted(kinds))
    rep.check(rule, site, not probs,
              'the leaf is deleted only if something is stored (is not None) and (no '
              'value was given or the stored value IS the given one)'
              if not probs else {'problems': sorted(set(probs))[:3]},
              construct='value-filter', node=f)


def prune(rep, rule, mod, fname):
    """over path summaries, independent of how the descent was recorded: after
    the leaf entry was deleted, a container entry X[k] is deleted only right
    after X[k] was found empty, nothing more is deleted once a non-empty one was
    met, and a recognised walk over the recorded descent runs leaf -> root"""
    from .declsem import alloc_site
    f = find_def(mod, 'BaseAdapterRegistry.' + fname)
    site = 'BaseAdapterRegistry.' + fname
    cfg = cfg_of(f)
    ss = normal(summaries(f))
    STORE = 'self._adapters' if fname == 'unregister' else 'self._subscribers'
    probs = []
    pruned = 0
    kinds = set()
    for ps in ss:
        dels = [(i, e) for i, e in enumerate(ps.events) if e.kind == 'del'
                and isinstance(e.r, ast.Subscript)]
        # the leaf entry: del <leaf>[name] / del <leaf>['']
        leaf = [i for i, e in dels if nt(e.r.slice) in ("''", 'name', '_normalize_name(name)')]
        if not leaf:
            continue
        stopped = False
        for c, t, p in ps.order:
            pass
        for i, e in dels:
            if i <= leaf[0] or nt(e.r) == '%s[-1]' % STORE or \
                    nt(e.r.value) == 'self._provided':
                continue
            if nt(e.r.value) == STORE:
                probs.append('an element in the middle of the per-order list %s is '
                             'deleted (shifts all higher orders)' % STORE)
            slot = nt(e.r)
            before = [(c, t) for c, t, p in ps.order if p <= i and c == slot]
            pruned += 1
            if not before or before[-1][1] is not False:
                probs.append('a container is removed without testing that it is empty')
            # nothing non-empty was met earlier in the prune phase
            met = [c for c, t, p in ps.order if leaf[0] < p <= i and t is True
                   and c.endswith(']') and not c.startswith(('ITER(', STORE))
                   and ('EACH(' in c or '.pop()' in c) and '[' in c and c != slot
                   and not c.startswith('len(')]
            if met:
                probs.append('the walk continues past a non-empty container')
        for k, (c, t, p) in enumerate(ps.order):
            if p > leaf[0] and t is True and ('EACH(' in c or '.pop()' in c) and \
                    c.endswith(']') and not c.startswith(('ITER(', STORE, 'len(')):
                kinds.add(True)
                if ps.reenters_loop(cfg, k):
                    probs.append('the walk continues past a non-empty container')
            if p > leaf[0] and t is False and ('EACH(' in c or '.pop()' in c) and \
                    c.endswith(']') and not c.startswith(('ITER(', STORE, 'len(')):
                kinds.add(False)
        # direction of a recognised walk
        for k, (c, t, p) in enumerate(ps.order):
            if not (t and c.startswith('ITER(') and p > leaf[0]):
                continue
            src = ps.order_ast.get(k)
            if src is None:
                continue
            base, d = iter_polarity(src)
            recs = [e for e in ps.events if e.kind == 'call' and
                    isinstance(e.r.func, ast.Attribute) and e.r.func.attr == 'append'
                    and alloc_site(e.r.func.value) is not None
                    and alloc_site(e.r.func.value) == alloc_site(base)]
            if recs and d != 'rev':
                probs.append('the recorded descent is walked %s (required: leaf -> root)' % d)
            # the per-order LIST is not a level of the descent: removing an
            # element in its middle shifts every higher order down (only
            # trailing empty mappings may be dropped, below)
            recorded = [a for e in recs for a in e.r.args] + (
                list(base.elts) if isinstance(base, (ast.List, ast.Tuple)) else [])
            for r_ in recorded:
                if isinstance(r_, ast.Tuple) and r_.elts and nt(r_.elts[0]) == STORE:
                    probs.append('the per-order list %s itself is recorded as a level of '
                                 'the descent: pruning it removes an element in the '
                                 'middle of the list and shifts all higher orders' % STORE)
        for e in ps.events:
            if e.kind == 'call' and isinstance(e.r.func, ast.Attribute) and \
                    e.r.func.attr == 'pop' and e.r.args and nt(e.r.args[0]) == '0' and \
                    alloc_site(e.r.func.value) is not None:
                probs.append('the recorded descent is consumed root -> leaf')
    if not pruned:
        probs.append('emptied containers are never removed')
    rep.check(rule, site, not probs,
              'emptied containers are removed leaf -> root, each only if empty, '
              'stopping at the first non-empty one (%d removals on the paths)' % pruned
              if not probs else {'problems': sorted(set(probs))[:3]},
              construct='prune', node=f)
    STORE = 'self._adapters' if fname == 'unregister' else 'self._subscribers'
    probs = []
    ndel = 0
    for ps in ss:
        for e in ps.dels():
            if nt(e.r) != '%s[-1]' % STORE:
                continue
            ndel += 1
            idx = ps.index(e)
            before = [(c, t) for c, t, p in ps.order if p <= idx]
            nonempty = [t for c, t in before if c == STORE]
            last = [t for c, t in before if c == '%s[-1]' % STORE]
            if not nonempty or nonempty[-1] is not True or not last or last[-1] is not False:
                probs.append('a trailing per-order mapping is dropped without testing '
                             'that it exists and is empty')
    if not ndel:
        probs.append('trailing empty per-order mappings are never dropped')
    rep.check(rule, site, not probs,
              'trailing per-order mappings are dropped only while empty'
              if not probs else {'problems': sorted(set(probs))[:2]},
              construct='trailing', node=f)


def leaf_container(text, storage):
    """is `text` the container reached by descending self.<storage>[len(R)]
    along R + (provided,) (one modelled iteration), or a fresh mapping?"""
    t = norm_required(text)
    ok = {
        'self.%s[len(R)].get(EACH(R + (provided,)))' % storage,
        'self._mappingType()',
    }
    return t in ok, t


def descent(rep, rule, mod, fname, storage):
    """key construction: the leaf container written/read is
    self.<storage>[len(R)] descended along R + (provided,), R = required with
    None -> Interface."""
    f = find_def(mod, 'BaseAdapterRegistry.' + fname)
    site = 'BaseAdapterRegistry.' + fname
    ss = normal(summaries(f))
    seen = set()
    problems = []
    for ps in ss:
        if not any(t and c.startswith('ITER(') and 'provided,)' in norm_required(c)
                   for c, t, p in ps.order):
            continue
        for e in ps.events:
            tgt = None
            if e.kind in ('store', 'del') and isinstance(e.r, ast.Subscript):
                key = nt(e.r.slice)
                if key in ("''", 'name', '_normalize_name(name)'):
                    tgt = e.r.value
            if e.kind == 'call' and isinstance(e.r.func, ast.Attribute) and \
                    e.r.func.attr == 'get' and e.r.args and \
                    nt(e.r.args[0]) in ("''", 'name', '_normalize_name(name)'):
                tgt = e.r.func.value
            if tgt is None:
                continue
            ok, t = leaf_container(nt(tgt), storage)
            seen.add(t)
            if not ok:
                problems.append('leaf container `%s`' % t[:90])
    if not seen:
        problems.append('no leaf access found')
    rep.check(rule, site, not problems,
              'the leaf is self.%s[len(required)] descended along required + '
              '(provided,) with None -> Interface (%d access forms)' % (storage, len(seen))
              if not problems else {'problems': sorted(set(problems))[:4]},
              construct='descent', node=f)


def no_reentry(rep, rule, mod):
    """The four storage primitives hold local references into the nested
    registration mappings; a call of another storage writer while such a
    reference is live may prune/replace the mapping it points into (the later
    write then lands in a detached mapping).  Rule: none of them calls a
    method that (transitively) writes the registration storage."""
    from ..pyfront import methods_of
    cls = find_def(mod, 'BaseAdapterRegistry')
    ms = methods_of(cls)
    writers = set()
    for name, f in ms.items():
        writes, D = shared.content_writes(f, ('_adapters', '_subscribers', '_provided'))
        if writes:
            writers.add(name)
    changed = True
    while changed:
        changed = False
        for name, f in ms.items():
            if name in writers:
                continue
            for n in walk_local(f):
                if isinstance(n, ast.Call) and isinstance(n.func, ast.Attribute) and \
                        isinstance(n.func.value, ast.Name) and n.func.value.id == 'self' \
                        and n.func.attr in writers:
                    writers.add(name)
                    changed = True
    rep.require({'register', 'unregister', 'subscribe', 'unsubscribe'} <= writers,
                'storage writers not recognised: %s' % sorted(writers))
    for name in ('register', 'unregister', 'subscribe', 'unsubscribe'):
        f = ms[name]
        bad = []
        for ps in normal(summaries(f)):
            re = [e for e in ps.events
                  if e.kind == 'call' and isinstance(e.r.func, ast.Attribute) and
                  nt(e.r.func.value) == 'self' and e.r.func.attr in writers]
            if not re:
                continue
            # pure delegation (nothing of the storage is touched on this path)
            others = [e for e in ps.events if e not in re and not (
                e.kind == 'call' and isinstance(e.r.func, ast.Name) and
                e.r.func.id in ('isinstance', 'len', 'tuple', 'str', 'type'))]
            if len(re) == 1 and not others:
                continue
            bad.extend(nt(e.r)[:70] for e in re)
        rep.check(rule, 'BaseAdapterRegistry.' + name, not bad,
                  'calls no other writer of the registration storage (writers: %s)'
                  % sorted(writers) if not bad else
                  {'re-entrant storage writer called while local references into '
                   'the storage are live': sorted(set(bad))[:3]},
                  construct='no-reentry', node=f)


def register_same_value(rep, rule, mod):
    """register(): the no-op guard compares the stored value with the new one by
    identity; the identical object is not registered again (no store, no
    changed()), anything else is stored under the probed key"""
    import ast
    reg = find_def(mod, 'BaseAdapterRegistry.register')
    from . import sem as _sem
    probs = []
    kinds = set()
    for ps in _sem.normal(_sem.summaries(reg)):
        if ps.facts.get('value is None') is True:
            continue
        guards = []
        for c, t, p in ps.order:
            try:
                e = ast.parse(c, mode='eval').body
            except SyntaxError:
                continue
            if isinstance(e, ast.Compare) and len(e.ops) == 1:
                sides = [e.left, e.comparators[0]]
                if any(isinstance(x, ast.Name) and x.id == 'value' for x in sides):
                    o = [x for x in sides if not (isinstance(x, ast.Name) and x.id == 'value')]
                    if len(o) == 1 and isinstance(o[0], ast.Call) and \
                            isinstance(o[0].func, ast.Attribute) and o[0].func.attr == 'get':
                        guards.append((type(e.ops[0]).__name__, t, _sem.nt(o[0])))
        stores = [e for e in ps.stores() if isinstance(e.r, ast.Subscript)
                  and _sem.nt(e.val) == 'value']
        if not guards:
            probs.append('the stored value is not compared with the new one')
            continue
        op, same, probe = guards[-1]
        if op != 'Is':
            probs.append('no-op guard compares the stored value with the new one by %s '
                         '(required: identity, `is`)' % op)
            continue
        kinds.add(same)
        if same and (stores or [e for e in ps.events if e.kind == 'call' and
                                _sem.nt(e.r.func) == 'self.changed']):
            probs.append('the identical value is registered again')
        if not same and not [e for e in stores
                             if '%s.get(%s)' % (_sem.nt(e.r.value), _sem.nt(e.r.slice)) == probe]:
            probs.append('a different value is not stored under the probed key')
    if kinds != {True, False}:
        probs.append('guard outcomes seen: %s' % sorted(kinds))
    rep.check(rule, 'BaseAdapterRegistry.register', not probs,
              'registering the very object that is stored (identity) is a no-op; '
              'anything else is stored under the probed key'
              if not probs else {'problems': sorted(set(probs))[:3]},
              construct='same-value', node=reg)
