"""Components (registry.py) rules over path summaries: argument agreement of
listing / registry call / event (U5), equality and filter dimensions (R16.1),
utility subscription counting (R16.2).  Nothing here depends on local names,
branch orientation, early returns, temporaries or extracted helpers."""
import ast
import itertools

from ..core import AnalysisError, norm_src
from ..pyfront import find_def, methods_of, dotted, walk_local, clone
from ..flowq import iter_polarity
from ..facts import canon
from ..sympath import summaries, normal
from .sem import nt


def _parse(text):
    return ast.parse(text, mode="eval").body


def _calls(ps, suffix):
    """call events whose callee's dotted name ends with suffix"""
    out = []
    for e in ps.events:
        if e.kind == 'call':
            d = dotted(e.r.func) or ''
            if d == suffix or d.endswith('.' + suffix) or d.endswith(suffix):
                out.append(e)
    return out


def _args(call):
    from .sem import nform
    return [nt(a) for a in nform(call).args]


def _tuple_parts(e):
    if isinstance(e, ast.Tuple):
        return [nt(x) for x in e.elts]
    return None


# ---------------------------------------------------------------------------
# U5

ARITY = {'registerAdapter': 4, 'unregisterAdapter': 3,
         'registerSubscriptionAdapter': 3, 'unregisterSubscriptionAdapter': 3,
         'registerHandler': 3, 'unregisterHandler': 3, 'registerUtility': 5,
         'unregisterUtility': 3}


def agreement(rep, rule, ms):
    def listing_store(ps, attr):
        for e in ps.stores():
            if isinstance(e.r, ast.Subscript) and nt(e.r.value) == 'self.%s' % attr \
                    and not isinstance(e.r.slice, ast.Slice):
                return e
        return None

    def listing_del(ps, attr):
        for e in ps.dels():
            if isinstance(e.r, ast.Subscript) and nt(e.r.value) == 'self.%s' % attr:
                return e
        return None

    def check(fname, extract, what):
        f = ms[fname]
        probs = []
        n = 0
        for ps in normal(summaries(f)):
            try:
                views = extract(ps)
            except (IndexError, AttributeError, TypeError):
                probs.append('an effect of unexpected shape')
                continue
            if views is None:
                continue
            n += 1
            if '#' in views.get('registry', {}):
                views['spec#'] = {'#': str(ARITY[fname])}
            dims = {}
            for label, d in views.items():
                for k, v in d.items():
                    dims.setdefault(k, {})[label] = v
            for k, by in dims.items():
                if len(set(by.values())) > 1:
                    probs.append('%s differs: %s' % (k, {a: b[:40] for a, b in by.items()}))
        if not n:
            probs.append('no path performs the registration effects')
        rep.check(rule, 'Components.' + fname, not probs,
                  'on all %d effect paths the listing, the registry call and the '
                  'event describe the same %s' % (n, what) if not probs else
                  {'problems': sorted(set(probs))[:3]}, construct='agreement', node=f)

    def reg_adapter(ps):
        c = _calls(ps, 'self.adapters.register')
        if not c:
            return None
        a = _args(c[0].r)
        out = {'registry': dict(zip('RPNF', a), **{'#': str(len(a))})}
        st = listing_store(ps, '_adapter_registrations')
        if st is None:
            out['listing'] = {'R': '<missing>'}
        else:
            k = _tuple_parts(st.r.slice)
            v = _tuple_parts(st.val)
            out['listing'] = dict(zip('RPN', k), **dict(zip('FI', v)))
        ev = _calls(ps, 'AdapterRegistration')
        if ev:
            out['event'] = dict(zip('RPNFI', _args(ev[0].r)[1:]))
        return out
    check('registerAdapter', reg_adapter, 'required/provided/name/factory/info')

    def unreg_adapter(ps):
        c = _calls(ps, 'self.adapters.unregister')
        if not c:
            return None
        out = {'registry': dict(zip('RPN', _args(c[0].r)), **{'#': str(len(_args(c[0].r)))})}
        d = listing_del(ps, '_adapter_registrations')
        out['listing'] = dict(zip('RPN', _tuple_parts(d.r.slice))) if d is not None \
            else {'R': '<missing>'}
        ev = _calls(ps, 'AdapterRegistration')
        if ev:
            out['event'] = dict(zip('RPN', _args(ev[0].r)[1:4]))
        return out
    check('unregisterAdapter', unreg_adapter, 'required/provided/name')

    def reg_sub(ps):
        c = _calls(ps, 'self.adapters.subscribe')
        if not c:
            return None
        a = _args(c[0].r)
        out = {'registry': {'R': a[0], 'P': a[1], 'F': a[2], '#': str(len(a))}}
        ap = [e for e in _calls(ps, 'self._subscription_registrations.append')]
        if ap:
            out['listing'] = dict(zip('RPNFI', _tuple_parts(ap[0].r.args[0])))
        else:
            out['listing'] = {'R': '<missing>'}
        ev = _calls(ps, 'SubscriptionRegistration')
        if ev:
            out['event'] = dict(zip('RPNFI', _args(ev[0].r)[1:]))
        return out
    check('registerSubscriptionAdapter', reg_sub, 'required/provided/name/factory/info')

    def unreg_sub(ps):
        c = _calls(ps, 'self.adapters.unsubscribe')
        if not c:
            return None
        a = _args(c[0].r)
        out = {'registry': {'R': a[0], 'P': a[1], 'F': a[2], '#': str(len(a))}}
        ev = _calls(ps, 'SubscriptionRegistration')
        if ev:
            b = _args(ev[0].r)[1:]
            out['event'] = {'R': b[0], 'P': b[1], 'F': b[3]}
        return out
    check('unregisterSubscriptionAdapter', unreg_sub, 'required/provided/factory')

    def reg_handler(ps):
        c = _calls(ps, 'self.adapters.subscribe')
        if not c:
            return None
        a = _args(c[0].r)
        out = {'registry': {'R': a[0], 'P': a[1], 'F': a[2], '#': str(len(a))}}
        ap = [e for e in _calls(ps, 'self._handler_registrations.append')]
        if ap:
            t = _tuple_parts(ap[0].r.args[0])
            out['listing'] = {'R': t[0], 'N': t[1], 'F': t[2], 'I': t[3], 'P': 'None'}
        else:
            out['listing'] = {'R': '<missing>'}
        ev = _calls(ps, 'HandlerRegistration')
        if ev:
            b = _args(ev[0].r)[1:]
            out['event'] = {'R': b[0], 'N': b[1], 'F': b[2], 'I': b[3]}
        return out
    check('registerHandler', reg_handler, 'required/name/factory/info (provided None)')

    def unreg_handler(ps):
        c = _calls(ps, 'self.adapters.unsubscribe')
        if not c:
            return None
        a = _args(c[0].r)
        out = {'registry': {'R': a[0], 'P': a[1], 'F': a[2], '#': str(len(a))},
               'spec': {'P': 'None'}}
        ev = _calls(ps, 'HandlerRegistration')
        if ev:
            b = _args(ev[0].r)[1:]
            out['event'] = {'R': b[0], 'F': b[2]}
        return out
    check('unregisterHandler', unreg_handler, 'required/factory (provided None)')

    def reg_util(ps):
        c = _calls(ps, '_utility_registrations_cache.registerUtility')
        if not c:
            return None
        out = {'registry': dict(zip('PNCIF', _args(c[0].r)), **{'#': str(len(_args(c[0].r)))})}
        ev = _calls(ps, 'UtilityRegistration')
        if ev:
            out['event'] = dict(zip('PNCIF', _args(ev[0].r)[1:]))
        return out
    check('registerUtility', reg_util, 'provided/name/component/info/factory')

    def unreg_util(ps):
        c = _calls(ps, '_utility_registrations_cache.unregisterUtility')
        if not c:
            return None
        out = {'registry': dict(zip('PNC', _args(c[0].r)), **{'#': str(len(_args(c[0].r)))})}
        ev = _calls(ps, 'UtilityRegistration')
        if ev:
            out['event'] = dict(zip('PNC', _args(ev[0].r)[1:4]))
        return out
    check('unregisterUtility', unreg_util, 'provided/name/component')


# ---------------------------------------------------------------------------
# R16.1

def _listing_get(ps, attr):
    for e in ps.events:
        if e.kind == 'call' and nt(e.r.func) == 'self.%s.get' % attr:
            return nt(e.r)
    return None


def miss_tests(rep, rule, ms):
    for fname, attr, comp_param, cache_call in (
            ('unregisterUtility', '_utility_registrations', 'component',
             '_utility_registrations_cache.unregisterUtility'),
            ('unregisterAdapter', '_adapter_registrations', 'factory',
             'self.adapters.unregister')):
        f = ms[fname]
        probs = []
        nT = nF = 0
        for ps in normal(summaries(f)):
            old = _listing_get(ps, attr)
            ret = nt(ps.ret)
            if old is None:
                if ret != 'False' and ret != 'None':
                    probs.append('a path returns %s without consulting the listing' % ret)
                continue
            eff = _calls(ps, cache_call)
            a = ps.facts.get('%s is None' % old)
            if a is None:
                probs.append('the listing entry is not tested for absence')
                continue
            if a is True:
                want = False
            else:
                # which expression stands for the given component on this path?
                comps = set()
                for c, t, p in ps.order:
                    if c.endswith(' is None') and c != '%s is None' % old:
                        comps.add(c[:-len(' is None')])
                eq = [(c, t) for c, t, p in ps.order if '%s[0]' % old in c]
                ident = [c for c, t in eq if ' is ' in c]
                if ident:
                    probs.append('compares the component by identity: `%s`' % ident[0][:80])
                    continue
                given = None
                for x in comps:
                    if ps.facts.get('%s is None' % x) is False and any(
                            x in c for c, t in eq):
                        given = x
                isnone = [x for x in comps if ps.facts.get('%s is None' % x) is True]
                if eq:
                    c, t = eq[-1]
                    e = ast.parse(c, mode='eval').body
                    if not (isinstance(e, ast.Compare) and isinstance(e.ops[0], ast.Eq)):
                        probs.append('component compared through `%s`' % c[:80])
                        continue
                    want = t
                elif isnone:
                    want = True
                else:
                    probs.append('a registered entry is removed/kept without comparing '
                                 'the given component with it')
                    continue
            if want:
                nT += 1
                if ret != 'True' or len(eff) != 1:
                    probs.append('a matching registration is not removed (returns %s)' % ret)
            else:
                nF += 1
                if ret != 'False' or eff:
                    probs.append('a miss returns %s / has effects' % ret)
        if not (nT and nF):
            probs.append('hit paths %d, miss paths %d' % (nT, nF))
        rep.check(rule, 'Components.' + fname, not probs,
                  'a miss (nothing listed, or a given %s that is not == the listed '
                  'one) returns False without effects; otherwise the entry is '
                  'removed (%d/%d paths)' % (comp_param, nF, nT) if not probs else
                  {'problems': sorted(set(probs))[:3]}, construct='equality', node=f)

    f = ms['registerUtility']
    probs = []
    noop = repl = 0
    for ps in normal(summaries(f)):
        old = _listing_get(ps, '_utility_registrations')
        if old is None or ps.facts.get('%s is None' % old) is not False:
            continue
        cmpf = [(c, t) for c, t, p in ps.order if old in c and c != '%s is None' % old]
        if not cmpf:
            probs.append('an existing registration is not compared with the new one')
            continue
        bad = [c for c, t in cmpf if not isinstance(
            ast.parse(c, mode='eval').body, ast.Compare) or not isinstance(
            ast.parse(c, mode='eval').body.ops[0], ast.Eq)]
        if bad:
            probs.append('existing registration compared through `%s`' % bad[0][:80])
            continue
        txt = ' '.join(c for c, t in cmpf)
        same = all(t for c, t in cmpf)
        effects = _calls(ps, '_utility_registrations_cache.registerUtility')
        if same:
            if 'info' not in txt or not ('[:2]' in txt or ('[0]' in txt and '[1]' in txt)):
                probs.append('the no-op test does not cover component and info')
            noop += 1
            if effects or _calls(ps, 'notify'):
                probs.append('an identical registration is registered again')
        else:
            repl += 1
            un = _calls(ps, 'self.unregisterUtility')
            if len(un) != 1 or _args(un[0].r)[0] != '%s[0]' % old or not effects or \
                    ps.index(un[0]) > ps.index(effects[0]):
                probs.append('a different registration under the key is not '
                             'unregistered first')
    if not (noop and repl):
        probs.append('no-op paths %d, replace paths %d' % (noop, repl))
    rep.check(rule, 'Components.registerUtility', not probs,
              'already-registered test compares (component, info) by equality; '
              'identical -> no-op, different -> unregister the old one first'
              if not probs else {'problems': sorted(set(probs))[:3]},
              construct='equality', node=f)


class _Unknown(Exception):
    pass


def _bool_eval(e, val):
    if isinstance(e, ast.Constant) and isinstance(e.value, bool):
        return e.value
    if isinstance(e, ast.BoolOp):
        vs = [_bool_eval(v, val) for v in e.values]
        return all(vs) if isinstance(e.op, ast.And) else any(vs)
    if isinstance(e, ast.UnaryOp) and isinstance(e.op, ast.Not):
        return not _bool_eval(e.operand, val)
    if isinstance(e, ast.Compare) and len(e.ops) == 1 and \
            isinstance(e.ops[0], (ast.Eq, ast.NotEq)):
        a = tuple(sorted((nt(e.left), nt(e.comparators[0]))))
        v = val(a)
        return v if isinstance(e.ops[0], ast.Eq) else (not v)
    raise _Unknown(nt(e))


def _atoms(e, out):
    if isinstance(e, ast.Constant) and isinstance(e.value, bool):
        return
    if isinstance(e, ast.BoolOp):
        for v in e.values:
            _atoms(v, out)
    elif isinstance(e, ast.UnaryOp) and isinstance(e.op, ast.Not):
        _atoms(e.operand, out)
    elif isinstance(e, ast.Compare) and len(e.ops) == 1 and \
            isinstance(e.ops[0], (ast.Eq, ast.NotEq)):
        out.add(tuple(sorted((nt(e.left), nt(e.comparators[0])))))
    else:
        raise _Unknown(nt(e))


def listing_filters(rep, rule, ms):
    for fname, attr, width, posmap, unsub in (
            ('unregisterSubscriptionAdapter', '_subscription_registrations', 5,
             {'R': 0, 'P': 1, 'F': 3}, 'self.adapters.unsubscribe'),
            ('unregisterHandler', '_handler_registrations', 4,
             {'R': 0, 'F': 2}, 'self.adapters.unsubscribe')):
        f = ms[fname]
        LIST = 'self.%s' % attr
        probs = []
        kinds = set()
        nT = nF = 0
        for ps in normal(summaries(f)):
            un = _calls(ps, unsub)
            st = [e for e in ps.stores() if isinstance(e.r, ast.Subscript)
                  and nt(e.r.value) == LIST]
            ret = nt(ps.ret)
            lens = [(c, t) for c, t, p in ps.order if c.startswith('len(') and LIST in c]
            if not un:
                if ret == 'False':
                    nF += 1
                    if st:
                        probs.append('a path returning False rewrites the listing')
                    if lens and lens[-1][1] is not True:
                        probs.append('returns False although the filter removed something')
                continue
            nT += 1
            if ret != 'True':
                probs.append('a removing path returns %s' % ret)
            if lens and lens[-1][1] is not False:
                probs.append('removes although the filter removed nothing')
            if not lens:
                probs.append('a removing path does not test that the filter removed '
                             'something')
            if len(st) != 1 or not isinstance(st[0].r.slice, ast.Slice):
                probs.append('listing not rewritten in place exactly once')
                continue
            new = st[0].val
            if isinstance(new, ast.Call) and dotted(new.func) == 'list' and new.args:
                new = new.args[0]
            if not isinstance(new, (ast.ListComp, ast.GeneratorExp)) or \
                    len(new.generators) != 1:
                probs.append('new listing `%s` is not a filter of the old one' % nt(new)[:60])
                continue
            g = new.generators[0]
            src, d = iter_polarity(g.iter)
            tgt = [nt(x) for x in g.target.elts] if isinstance(g.target, ast.Tuple) else None
            if nt(src) != LIST or d != 'fwd':
                probs.append('filters `%s` (%s)' % (nt(g.iter)[:50], d))
                continue
            if tgt is None:
                # entry kept whole: element must be the entry itself
                if nt(new.elt) != nt(g.target):
                    probs.append('entries are rewritten')
                probs.append('entry not unpacked; dimensions not recognised')
                continue
            if _tuple_parts(new.elt) != tgt or len(tgt) != width:
                probs.append('kept entries are rewritten: `%s`' % nt(new.elt)[:60])
                continue
            a = _args(un[0].r)
            given = {'R': a[0], 'P': a[1], 'F': a[2]}
            cond0 = ast.BoolOp(op=ast.And(), values=list(g.ifs)) if len(g.ifs) > 1 \
                else (g.ifs[0] if g.ifs else None)
            if cond0 is None:
                probs.append('no filter')
                continue
            # `factory is None` may be decided by the path or be a term of the
            # filter itself (the same for every entry): both values are tabulated
            def has_fnone(e):
                return any(isinstance(n, (ast.Compare, ast.Name, ast.UnaryOp)) and
                           canon(n, True)[0] == 'factory is None' for n in ast.walk(e))

            class _Fix(ast.NodeTransformer):
                def __init__(self, val):
                    self.val = val

                def generic_visit(self, node):
                    if isinstance(node, (ast.Compare, ast.UnaryOp)):
                        c, pol = canon(node, True)
                        if c == 'factory is None':
                            return ast.Constant(value=self.val if pol else not self.val)
                    return super().generic_visit(node)
            path_fnone = ps.facts.get('factory is None')
            if path_fnone is None and not has_fnone(cond0):
                probs.append('filter chosen without testing whether a factory was given')
            variants = [path_fnone] if path_fnone is not None else (
                [True, False] if has_fnone(cond0) else [None])
            for fnone in variants:
                cond = _Fix(fnone).visit(clone(cond0)) if has_fnone(cond0) else cond0
                dims = [k for k in posmap if not (k == 'F' and fnone is True)]
                kinds.add(tuple(dims))
                want_atoms = {k: tuple(sorted((tgt[posmap[k]], given[k]))) for k in dims}
                try:
                    found = set()
                    _atoms(cond, found)
                    # an atom under a constant-false/true guard may be irrelevant
                    atoms = sorted(found | set(want_atoms.values()))
                    bad_row = None
                    for vals in itertools.product((False, True), repeat=len(atoms)):
                        env = dict(zip(atoms, vals))
                        keep = _bool_eval(cond, lambda k: env[k])
                        want_keep = not all(env[a_] for a_ in want_atoms.values())
                        if keep != want_keep:
                            bad_row = (env, keep)
                            break
                    if bad_row is not None:
                        env, keep = bad_row
                        probs.append('%san entry with %s is %s (the registry call is '
                                     'given %s)' % (
                                         '' if fnone is None else
                                         'factory %sgiven: ' % ('not ' if fnone else ''),
                                         {k[0]: v for k, v in env.items()},
                                         'kept' if keep else 'removed',
                                         sorted(want_atoms.values())))
                except _Unknown as u:
                    probs.append('filter term outside equality tests: `%s`' % str(u)[:60])
        if len(kinds) != 2:
            probs.append('filter variants seen: %s (required: with and without factory)'
                         % sorted(kinds))
        if not (nT and nF):
            probs.append('removing paths %d, False paths %d' % (nT, nF))
        rep.check(rule, 'Components.' + fname, not probs,
                  'listing entries are removed iff they == the arguments in exactly '
                  'the dimensions passed to the registry\'s unsubscribe (factory '
                  'only when given); kept entries unchanged, in order; False iff '
                  'nothing was removed' if not probs else
                  {'problems': sorted(set(probs))[:3]}, construct='filter', node=f)


# ---------------------------------------------------------------------------
# R16.2

def utility_counting(rep, rule, mod):
    ur = find_def(mod, '_UtilityRegistrations')
    um = methods_of(ur)
    f = um['registerUtility']
    probs = []
    kinds = set()
    SUB = 'self._is_utility_subscribed(provided, component)'
    for ps in normal(summaries(f)):
        q = [e for e in ps.events if e.kind == 'call' and nt(e.r) == SUB]
        inc = [e for e in ps.events if e.kind == 'call' and
               nt(e.r).endswith('__cache_utility(provided, component)')
               and '__uncache' not in nt(e.r)]
        sub = [e for e in ps.events if e.kind == 'call' and
               nt(e.r) == 'self._utilities.subscribe((), provided, component)']
        reg = [e for e in ps.events if e.kind == 'call' and
               nt(e.r) == 'self._utilities.register((), provided, name, component)']
        st = [e for e in ps.stores() if nt(e.r) in (
            'self._utility_registrations[provided, name]',
            'self._utility_registrations[(provided, name)]')]
        if len(q) != 1 or len(inc) != 1 or ps.index(q[0]) > ps.index(inc[0]):
            probs.append('subscribed must be read once, before the single count '
                         'increment (%d/%d)' % (len(q), len(inc)))
            continue
        t = ps.facts.get(SUB)
        kinds.add(t)
        if t is None or (t is False) != (len(sub) == 1) or len(sub) > 1:
            probs.append('subscribe iff not yet subscribed: subscribed=%s, '
                         'subscribe calls %d' % (t, len(sub)))
        if len(reg) != 1 or len(st) != 1 or \
                _tuple_parts(st[0].val) != ['component', 'info', 'factory']:
            probs.append('listing/registry not updated once with (provided, name, '
                         'component)')
    if kinds != {True, False}:
        probs.append('paths seen for subscribed: %s' % sorted(kinds, key=str))
    rep.check(rule, '_UtilityRegistrations.registerUtility', not probs,
              'subscribed is read before the count is incremented; subscribe iff '
              'not subscribed; one increment on every path; listing and registry '
              'get the same (provided, name, component)' if not probs else
              {'problems': sorted(set(probs))[:3]}, construct='register', node=f)

    f = um['unregisterUtility']
    probs = []
    kinds = set()
    for ps in normal(summaries(f)):
        dec = [e for e in ps.events if e.kind == 'call' and
               nt(e.r).endswith('__uncache_utility(provided, component)')]
        uns = [e for e in ps.events if e.kind == 'call' and
               nt(e.r) == 'self._utilities.unsubscribe((), provided, component)']
        unr = [e for e in ps.events if e.kind == 'call' and
               nt(e.r) == 'self._utilities.unregister((), provided, name)']
        dl = [e for e in ps.dels() if nt(e.r) in (
            'self._utility_registrations[provided, name]',
            'self._utility_registrations[(provided, name)]')]
        if len(dec) != 1:
            probs.append('%d decrements on a path' % len(dec))
            continue
        t = ps.facts.get(nt(dec[0].r))
        kinds.add(t)
        if t is None or (t is False) != (len(uns) == 1) or len(uns) > 1:
            probs.append('unsubscribe iff no registration remains: remaining=%s, '
                         'unsubscribe calls %d' % (t, len(uns)))
        if uns and ps.index(uns[0]) < ps.index(dec[0]):
            probs.append('unsubscribes before the count was decremented')
        if len(unr) != 1 or len(dl) != 1:
            probs.append('listing/registry entry not removed exactly once')
    if kinds != {True, False}:
        probs.append('paths seen for remaining: %s' % sorted(kinds, key=str))
    rep.check(rule, '_UtilityRegistrations.unregisterUtility', not probs,
              'one decrement per call; unsubscribe iff the component is no longer '
              'registered under any name' if not probs else
              {'problems': sorted(set(probs))[:3]}, construct='unregister', node=f)

    unc = None
    for k, v in um.items():
        if k.endswith('__uncache_utility'):
            unc = v
    rep.require(unc is not None, '__uncache_utility vanished')
    C = 'self._cache[provided][component]'
    probs = []
    kinds = set()
    for ps in normal(summaries(unc)):
        z = ps.facts.get('%s - 1 == 0' % C)
        if z is None:
            z2 = ps.facts.get('0 < %s - 1' % C)
            z = (not z2) if z2 is not None else None
        kinds.add(z)
        dl = [e for e in ps.dels() if nt(e.r) == C]
        st = [e for e in ps.stores() if nt(e.r) == C]
        if z is None:
            probs.append('the decremented count is not tested against zero: %s'
                         % [c for c, t, p in ps.order][:2])
            continue
        if z and (len(dl) != 1 or st):
            probs.append('count reaching zero does not delete the entry')
        if not z and (dl or [nt(e.val) for e in st] != ['%s - 1' % C]):
            probs.append('remaining count not stored as count - 1: %s'
                         % [repr(e)[:60] for e in st])
        r = ps.ret
        rc = canon(r, True) if r is not None else ('None', True)
        if rc != ('0 < %s - 1' % C, True):
            probs.append('returns `%s` (required: the decremented count > 0)' % nt(r)[:60])
    if kinds != {True, False}:
        probs.append('zero / non-zero paths seen: %s' % sorted(kinds, key=str))
    rep.check(rule, '_UtilityRegistrations.__uncache_utility', not probs,
              'count decremented by one; entry deleted at zero, else stored; '
              'reports whether registrations remain' if not probs else
              {'problems': sorted(set(probs))[:3]}, construct='uncache', node=unc)

    pop = None
    for k, v in um.items():
        if k.endswith('__populate_cache'):
            pop = v
    rep.require(pop is not None, '__populate_cache vanished')
    probs = []
    n = 0
    for ps in normal(summaries(pop)):
        its = [c[5:-1] for c, t, p in ps.order if t and c.startswith('ITER(')]
        inc = [e for e in ps.events if e.kind == 'call' and
               nt(e.r.func).endswith('__cache_utility')]
        if not its:
            if inc:
                probs.append('counts without a registration')
            continue
        if len(its) != 1 or 'self._utility_registrations.items()' not in its[0]:
            probs.append('walks %s' % [i[:50] for i in its])
            continue
        n += 1
        E = 'EACH(%s)' % its[0]
        conds = [c for c, t, p in ps.order if not c.startswith('ITER(')]
        if conds:
            probs.append('a listed registration is counted depending on `%s` (every '
                         'registration counts: a component listed under N names has '
                         'count N)' % conds[0][:60])
        if [[nt(a) for a in e.r.args] for e in inc] != [['%s[0][0]' % E, '%s[1][0]' % E]]:
            probs.append('counts %s' % [nt(e.r)[-70:] for e in inc])
    if not n:
        probs.append('the listing is never walked')
    # every listed registration is visited: no exit from inside the walk ...
    for lp in ast.walk(pop):
        if isinstance(lp, (ast.For, ast.While)) and any(
                isinstance(x, (ast.Break, ast.Return)) for x in ast.walk(lp)):
            probs.append('the walk over the listing can end early (break/return inside it)')
    # ... and a counter object created for a listing that already has entries (the
    # memo is rebuilt after re-initialisation, unpickling) starts from their counts
    ini_ = None
    for k, v in um.items():
        if k == '__init__':
            ini_ = v
    if ini_ is not None:
        for ps in normal(summaries(ini_)):
            if not any(e.kind == 'call' and nt(e.r.func).endswith('__populate_cache')
                       for e in ps.events):
                probs.append('_UtilityRegistrations.__init__ does not populate the counts '
                             'on every path')
    rep.check(rule, '_UtilityRegistrations.__populate_cache', not probs,
              'the count is rebuilt with one increment per listed registration '
              '(provided = key[0], component = value[0]), unconditionally'
              if not probs else {'problems': sorted(set(probs))[:3]},
              construct='populate', node=pop)

    uc = find_def(mod, '_UnhashableComponentCounter')
    # the strategy switch carries every (component, count) pair over unchanged
    ini = methods_of(uc).get('__init__')
    probs = []
    if ini is None:
        probs.append('no constructor')
    else:
        src = [a.arg for a in ini.args.args][1]
        want = ('[c0 for c0 in %s.items()]' % src, 'list(%s.items())' % src)
        ss_ = normal(summaries(ini))
        for ps in ss_:
            sts = [e for e in ps.stores() if nt(e.r) == 'self._data']
            if len(sts) != 1 or nt(sts[0].val) not in want:
                probs.append('self._data = %s (required: every (component, count) of the '
                             'hashable table)' % [nt(e.val)[:50] for e in sts])
            extra = [repr(e)[:60] for e in ps.events
                     if e.kind in ('aug', 'del') or (e.kind == 'store' and e not in sts)]
            if extra:
                probs.append('the counts are rebuilt instead of carried over: %s' % extra[:1])
        if not ss_:
            probs.append('constructor has no normal path')
    rep.check(rule, '_UnhashableComponentCounter.__init__', not probs,
              'the unhashable-component table starts as a copy of all (component, '
              'count) pairs of the table it replaces' if not probs else
              {'problems': sorted(set(probs))[:3]}, construct='carry-over', node=uc)
    ops = {}
    for name, m in methods_of(uc).items():
        if name in ('__getitem__', '__setitem__', '__delitem__'):
            key = [a.arg for a in m.args.args][1]
            # every fact of every path that compares the looked-up component
            found = set()
            for ps in summaries(m, normal_only=False):
                for c, t, p in ps.order:
                    try:
                        e = _parse(c)
                    except SyntaxError:
                        continue
                    for n in ast.walk(e):
                        if isinstance(n, ast.Compare) and any(
                                isinstance(x, ast.Name) and x.id == key
                                for side in [n.left] + n.comparators
                                for x in ast.walk(side)):
                            found |= {type(o).__name__ for o in n.ops}
                        elif isinstance(n, ast.Name) and n.id == key and e is n:
                            found.add('Truth')
            ops[name] = sorted(found)
    ok = len(ops) == 3 and all(v == ['Eq'] for v in ops.values())
    rep.check(rule, '_UnhashableComponentCounter', ok,
              'all three accessors find the component by equality (a mix makes '
              'reads and writes disagree for equal-but-distinct components): %s'
              % ops, construct='equality', node=uc)
