"""C16 - Components listings, lookups and events stay mutually consistent."""
import ast

from ..core import AnalysisError, norm_src
from ..pyfront import (find_def, find_all, match, walk_local, methods_of, dotted,
                       ClassTable, calls_in)
from ..flowq import (resolve_local, pred_of, any_pred, path_text)
from ..cfg import cfg_of, header_expr
from . import shared

LISTS = ('_utility_registrations', '_adapter_registrations',
         '_subscription_registrations', '_handler_registrations')


def events_at(n):
    """effect events of a CFG node, in evaluation order"""
    h = header_expr(n) if n.ast is not None else None
    out = []
    if h is None:
        return out
    a = n.ast
    if isinstance(a, ast.Assign):
        for t in a.targets:
            if isinstance(t, ast.Subscript) and isinstance(t.value, ast.Attribute) \
                    and t.value.attr in LISTS:
                if isinstance(t.slice, ast.Slice):
                    out.append(('L-', t.value.attr))
                else:
                    out.append(('L+', t.value.attr))
    if isinstance(a, ast.Delete):
        for t in a.targets:
            if isinstance(t, ast.Subscript) and isinstance(t.value, ast.Attribute) \
                    and t.value.attr in LISTS:
                out.append(('L-', t.value.attr))
    for c in calls_in(h):
        d = dotted(c.func) or ''
        if d.startswith('self._') and d.endswith('.append') and \
                d.split('.')[1] in LISTS:
            out.append(('L+', d.split('.')[1]))
        if d in ('self.adapters.register', 'self.adapters.subscribe',
                 'self.utilities.register', 'self.utilities.subscribe'):
            out.append(('R+', d))
        if d in ('self.adapters.unregister', 'self.adapters.unsubscribe',
                 'self.utilities.unregister', 'self.utilities.unsubscribe'):
            out.append(('R-', d))
        if d == 'self._utility_registrations_cache.registerUtility':
            out.append(('L+', '_utility_registrations'))
            out.append(('R+', d))
        if d == 'self._utility_registrations_cache.unregisterUtility':
            out.append(('L-', '_utility_registrations'))
            out.append(('R-', d))
        if d == 'self.unregisterUtility':
            out += [('L-', 'via unregisterUtility'), ('R-', 'via unregisterUtility'),
                    ('E-', 'via unregisterUtility')]
        if d == 'notify' and c.args and isinstance(c.args[0], ast.Call):
            k = dotted(c.args[0].func)
            if k == 'Registered':
                out.append(('E+', norm_src(c.args[0].args[0])[:60] if c.args[0].args else ''))
            elif k == 'Unregistered':
                out.append(('E-', norm_src(c.args[0].args[0])[:60] if c.args[0].args else ''))
    return out


def summaries(func):
    cfg = cfg_of(func)
    out = []
    for path in cfg.paths(limit=4096):
        if path[-1][0] is not cfg.exit:
            continue
        ev = []
        ret = 'None'
        conds = []
        for n, lab in path:
            if n.ast is None:
                continue
            if n.kind == 'test':
                conds.append((norm_src(n.ast)[:50], lab))
            ev += events_at(n)
            if isinstance(n.ast, ast.Return):
                ret = norm_src(n.ast.value) if n.ast.value is not None else 'None'
        out.append((ev, ret, conds, path))
    return out


def kinds(ev):
    return [k for k, _ in ev]


def utility_counter_memo(rep, rmod, rule):
    from . import sem as _sem
    f = find_def(rmod, 'Components._utility_registrations_cache')
    MEMO = 'self._v_utility_registrations_cache'
    FRESH = '_UtilityRegistrations(self.utilities, self._utility_registrations)'
    probs, hit, miss = [], 0, 0

    def ident(ps, a, b):
        for x, y in ((a, b), (b, a)):
            v = ps.facts.get('%s is %s' % (x, y))
            if v is not None:
                return v
        return None
    for ps in _sem.normal(_sem.summaries(f)):
        r = _sem.nt(ps.ret)
        sts = [(_sem.nt(e.r), _sem.nt(e.val)) for e in ps.stores()]
        if r == MEMO and not sts:
            hit += 1
            if ps.facts.get('%s is None' % MEMO) is not False:
                probs.append('the memo is reused without testing that there is one')
            if ident(ps, MEMO + '._utilities', 'self.utilities') is not True:
                probs.append('the memo is reused without having established that it refers '
                             'to the current utilities registry')
            if ident(ps, MEMO + '._utility_registrations',
                     'self._utility_registrations') is not True:
                probs.append('the memo is reused without having established that it refers '
                             'to the current listing')
        else:
            miss += 1
            if sts != [(MEMO, FRESH)] or r not in (FRESH, MEMO):
                probs.append('a miss path stores %s and returns `%s`' % (sts[:1], r[:50]))
    if not (hit and miss):
        probs.append('hit paths %d, miss paths %d' % (hit, miss))
    rep.check(rule, 'Components._utility_registrations_cache', not probs,
              'memo reused only for the current (utilities, listing) pair; rebuilt from the '
              'current pair otherwise' if not probs else {'problems': sorted(set(probs))[:3]},
              construct='counter-memo', node=f)


def run(rep):
    repo = rep.repo
    mod = repo.module('registry.py')
    amod = repo.module('adapter.py')
    rep.rule('U1', 'an unregister* path returning False has no listing write, '
             'registry call or event', floor=4)
    rep.rule('U2', 'an unregister* path returning True has exactly one listing '
             'removal, one registry removal and one Unregistered event, the '
             'event last', floor=4)
    rep.rule('U3', 'a register* path emits Registered exactly when it added to '
             'the registry (and event is true), after the addition; '
             'registrations keyed in a mapping have a no-op path without '
             'events and a replace path that emits Unregistered first', floor=6)
    rep.rule('U5', 'argument agreement: listing key, registry call and the '
             '*Registration of the event are built from the same '
             'required/provided/name/component variables', floor=8)
    rep.rule('R16.1', 'components/factories are compared by equality, and the '
             'listing filter of an unregister* constrains exactly the '
             'dimensions passed to the registry\'s unregister/unsubscribe',
             floor=5)
    rep.rule('R16.2', 'utility subscription counting: subscribed evaluated '
             'before the increment, subscribe iff not yet subscribed, one '
             'increment / decrement per call, unsubscribe iff the count reached '
             'zero; the unhashable fallback compares by equality in all three '
             'accessors', floor=4)
    rep.rule('R16.3', 'the underlying registries invalidate after every '
             'storage write (queries see the listed registrations)', floor=8)
    rep.rule('R16.4', 'the underlying registries keep their provided-count and '
             'extendor index exact: an interface leaves the index exactly when '
             'its count over ALL registrations reaches zero (shared with C07 '
             'R07.5 / C09 R09.6); otherwise live registrations for it stop '
             'answering while still being listed', floor=4)
    rep.rule('R16.5', 'queries answer from the registrations, not from a '
             'previous caller: LookupBase.lookup (PY and C) caches exactly what '
             '_uncached_lookup returned and never the per-call default (shared '
             'with C04 R04.6)', floor=3)
    rep.rule('R16.6', 'unregister removes a registration whatever its truth '
             'value: the only skips are "nothing stored" (is None) and "a '
             'different object than the one named" (identity) (shared with C09 '
             'R09.1)', floor=1)
    rep.rule('R16.7', 'a listed registration stays findable and the repair method finds '
             'nothing to repair: removing the last registration of a provided interface '
             'drops exactly that interface from the extendor index (never a base that is '
             'still registered), and subscribed() answers by membership of the leaf '
             '(C04 R04.3, C09 R09.1)', floor=3)
    rep.rule('R16.8', 're-initialisation: the per-(provided, component) counter object is '
             'memoised on the Components object and is only reused while it still refers '
             'to the CURRENT utilities registry and the CURRENT listing (Components.__init__ '
             're-run replaces both): the memo hit path has established both identities, '
             'every other path builds a fresh one from the current pair', floor=1)
    rep.decline('"every query answers as registries holding exactly the listed '
                'registrations" and "rebuildUtilityRegistryFromLocalCache finds '
                'nothing to repair" for arbitrary histories')

    comp = find_def(mod, 'Components')
    ms = methods_of(comp)

    # ---- U1 / U2 ------------------------------------------------------------------
    for name in ('unregisterUtility', 'unregisterAdapter',
                 'unregisterSubscriptionAdapter', 'unregisterHandler'):
        f = ms[name]
        su = summaries(f)
        bad1, bad2 = [], []
        nT = nF = 0
        for ev, ret, conds, path in su:
            ks = kinds(ev)
            if ret == 'False':
                nF += 1
                if ks:
                    bad1.append({'events': ev, 'conditions': conds[-4:]})
            elif ret == 'True':
                nT += 1
                if not (ks.count('L-') == 1 and ks.count('R-') == 1 and
                        ks.count('E-') == 1 and ks[-1] == 'E-' and
                        'L+' not in ks and 'R+' not in ks and 'E+' not in ks):
                    bad2.append({'events': ev, 'conditions': conds[-4:]})
            else:
                bad2.append({'returns': ret, 'events': ev})
        rep.check('U1', 'Components.' + name, nF >= 1 and not bad1,
                  '%d path(s) return False, none with an effect' % nF if not bad1
                  else {'paths_with_effects': bad1[:2]}, construct='false-paths',
                  node=f)
        rep.check('U2', 'Components.' + name, nT >= 1 and not bad2,
                  '%d path(s) return True, each with L- R- E- (event last)' % nT
                  if not bad2 else {'bad_paths': bad2[:2]}, construct='true-paths',
                  node=f)

    # ---- U3 -----------------------------------------------------------------------
    for name in ('registerUtility', 'registerAdapter',
                 'registerSubscriptionAdapter', 'registerHandler'):
        f = ms[name]
        su = summaries(f)
        bad = []
        for ev, ret, conds, path in su:
            ks = kinds(ev)
            has_r = 'R+' in ks
            has_e = 'E+' in ks
            ev_true = ('event', 'T') in [(c[0], c[1]) for c in conds]
            if has_e and not has_r:
                bad.append({'why': 'Registered without an addition', 'events': ev})
            if has_r and ev_true and not has_e:
                bad.append({'why': 'addition without Registered', 'events': ev})
            if has_r and has_e and ks.index('E+') < ks.index('R+'):
                bad.append({'why': 'Registered before the addition', 'events': ev})
            if has_e and not ev_true:
                bad.append({'why': 'Registered although event is false', 'events': ev})
            if ks.count('R+') > 1 or ks.count('E+') > 1:
                bad.append({'why': 'more than one addition/event', 'events': ev})
            if 'E-' in ks and ks.index('E-') > ks.index('E+') if has_e and 'E-' in ks else False:
                bad.append({'why': 'Unregistered after Registered', 'events': ev})
        rep.check('U3', 'Components.' + name, not bad,
                  'Registered iff added (and event), after the addition, on all '
                  '%d paths' % len(su) if not bad else {'bad_paths': bad[:2]},
                  construct='event-iff-added', node=f)
    # keyed registrations: no-op and replace paths
    for name, keyed in (('registerUtility', '_utility_registrations'),
                        ('registerAdapter', '_adapter_registrations')):
        f = ms[name]
        su = summaries(f)
        noop = [s for s in su if not kinds(s[0])]
        repl = [s for s in su if 'E-' in kinds(s[0]) and 'E+' in kinds(s[0])
                and kinds(s[0]).index('E-') < kinds(s[0]).index('E+')]
        probes = find_all(f, 'self.%s.get($k)' % keyed)
        rep.check('U3', 'Components.' + name, bool(noop) and bool(probes),
                  'registering what is already registered is a no-op without '
                  'events (%d such path(s), existing entry probed: %s)'
                  % (len(noop), bool(probes)) if noop else
                  'the registration is stored under a key that may already be '
                  'registered, but there is no path that leaves an identical '
                  'registration alone: re-registering emits a second Registered',
                  construct='noop-path', node=f)
        rep.check('U3', 'Components.' + name, bool(repl),
                  'replacing a registration emits Unregistered for the old one '
                  'before Registered (%d path(s))' % len(repl) if repl else
                  'a registration replaced under the same key is silently '
                  'overwritten: no Unregistered event for the old one',
                  construct='replace-path', node=f)

    # ---- U5 / R16.1 / R16.2: over path summaries (regsem) -----------------------------
    from . import regsem
    regsem.agreement(rep, 'U5', ms)
    regsem.miss_tests(rep, 'R16.1', ms)
    regsem.listing_filters(rep, 'R16.1', ms)
    regsem.utility_counting(rep, 'R16.2', mod)

    # ---- R16.3 --------------------------------------------------------------------
    from .C05 import inv1
    table = ClassTable(repo, ['adapter.py'])
    inv1(rep, amod, table, rule='R16.3')

    # ---- R16.4 --------------------------------------------------------------------
    from . import mutators
    mutators.extendor_transitions(rep, 'R16.4', amod, 'register', 'add')
    mutators.extendor_transitions(rep, 'R16.4', amod, 'subscribe', 'add')
    mutators.extendor_transitions(rep, 'R16.4', amod, 'unregister', 'remove')
    mutators.extendor_transitions(rep, 'R16.4', amod, 'unsubscribe', 'remove')

    # ---- R16.5 / R16.6 ------------------------------------------------------------
    from . import sem as _sem2, cside
    _sem2.cached_lookup_spec(rep, 'R16.5', find_def(amod, 'LookupBase.lookup'),
                             'LookupBase.lookup', '_uncached_lookup', '_getcache',
                             'single-or-tuple', True, ['required', 'provided', 'name'])
    u = cside.cu(rep)
    cside.lookup_default_c(rep, u, 'R16.5')
    cside.fills_one(rep, u, 'R16.5')
    mutators.value_filter(rep, 'R16.6', amod)
    # a re-registration under an existing key replaces the stored object unless it
    # IS that object (the listing is updated by equality-free replacement: an
    # equal-but-distinct factory must reach the registry as well)
    mutators.register_same_value(rep, 'R16.6', amod)
    utility_counter_memo(rep, mod, 'R16.8')
    shared.extendor_index(rep, 'R16.7', amod)
    from .C09 import subscribed_membership
    subscribed_membership(rep, amod, 'R16.7')
