"""C16 - Components listings, lookups and events stay mutually consistent."""
import ast

from ..core import AnalysisError, norm_src
from ..pyfront import (find_def, find_all, match, walk_local, methods_of, dotted,
                       ClassTable, calls_in)
from ..flowq import (resolve_local, pred_of, any_pred, path_text)
from ..cfg import cfg_of, header_expr
from . import shared

LISTS = ('_utility_registrations', '_adapter_registrations',
         '_subscription_registrations', '_handler_registrations')


def events_at(n):
    """effect events of a CFG node, in evaluation order"""
    h = header_expr(n) if n.ast is not None else None
    out = []
    if h is None:
        return out
    a = n.ast
    if isinstance(a, ast.Assign):
        for t in a.targets:
            if isinstance(t, ast.Subscript) and isinstance(t.value, ast.Attribute) \
                    and t.value.attr in LISTS:
                if isinstance(t.slice, ast.Slice):
                    out.append(('L-', t.value.attr))
                else:
                    out.append(('L+', t.value.attr))
    if isinstance(a, ast.Delete):
        for t in a.targets:
            if isinstance(t, ast.Subscript) and isinstance(t.value, ast.Attribute) \
                    and t.value.attr in LISTS:
                out.append(('L-', t.value.attr))
    for c in calls_in(h):
        d = dotted(c.func) or ''
        if d.startswith('self._') and d.endswith('.append') and \
                d.split('.')[1] in LISTS:
            out.append(('L+', d.split('.')[1]))
        if d in ('self.adapters.register', 'self.adapters.subscribe',
                 'self.utilities.register', 'self.utilities.subscribe'):
            out.append(('R+', d))
        if d in ('self.adapters.unregister', 'self.adapters.unsubscribe',
                 'self.utilities.unregister', 'self.utilities.unsubscribe'):
            out.append(('R-', d))
        if d == 'self._utility_registrations_cache.registerUtility':
            out.append(('L+', '_utility_registrations'))
            out.append(('R+', d))
        if d == 'self._utility_registrations_cache.unregisterUtility':
            out.append(('L-', '_utility_registrations'))
            out.append(('R-', d))
        if d == 'self.unregisterUtility':
            out += [('L-', 'via unregisterUtility'), ('R-', 'via unregisterUtility'),
                    ('E-', 'via unregisterUtility')]
        if d == 'notify' and c.args and isinstance(c.args[0], ast.Call):
            k = dotted(c.args[0].func)
            if k == 'Registered':
                out.append(('E+', norm_src(c.args[0].args[0])[:60] if c.args[0].args else ''))
            elif k == 'Unregistered':
                out.append(('E-', norm_src(c.args[0].args[0])[:60] if c.args[0].args else ''))
    return out


def summaries(func):
    cfg = cfg_of(func)
    out = []
    for path in cfg.paths(limit=4096):
        if path[-1][0] is not cfg.exit:
            continue
        ev = []
        ret = 'None'
        conds = []
        for n, lab in path:
            if n.ast is None:
                continue
            if n.kind == 'test':
                conds.append((norm_src(n.ast)[:50], lab))
            ev += events_at(n)
            if isinstance(n.ast, ast.Return):
                ret = norm_src(n.ast.value) if n.ast.value is not None else 'None'
        out.append((ev, ret, conds, path))
    return out


def kinds(ev):
    return [k for k, _ in ev]


def run(rep):
    repo = rep.repo
    mod = repo.module('registry.py')
    amod = repo.module('adapter.py')
    rep.rule('U1', 'an unregister* path returning False has no listing write, '
             'registry call or event', floor=4)
    rep.rule('U2', 'an unregister* path returning True has exactly one listing '
             'removal, one registry removal and one Unregistered event, the '
             'event last', floor=4)
    rep.rule('U3', 'a register* path emits Registered exactly when it added to '
             'the registry (and event is true), after the addition; '
             'registrations keyed in a mapping have a no-op path without '
             'events and a replace path that emits Unregistered first', floor=6)
    rep.rule('U5', 'argument agreement: listing key, registry call and the '
             '*Registration of the event are built from the same '
             'required/provided/name/component variables', floor=8)
    rep.rule('R16.1', 'components/factories are compared by equality, and the '
             'listing filter of an unregister* constrains exactly the '
             'dimensions passed to the registry\'s unregister/unsubscribe',
             floor=6)
    rep.rule('R16.2', 'utility subscription counting: subscribed evaluated '
             'before the increment, subscribe iff not yet subscribed, one '
             'increment / decrement per call, unsubscribe iff the count reached '
             'zero; the unhashable fallback compares by equality in all three '
             'accessors', floor=5)
    rep.rule('R16.3', 'the underlying registries invalidate after every '
             'storage write (queries see the listed registrations)', floor=8)
    rep.rule('R16.4', 'the underlying registries keep their provided-count and '
             'extendor index exact: an interface leaves the index exactly when '
             'its count over ALL registrations reaches zero (shared with C07 '
             'R07.5 / C09 R09.6); otherwise live registrations for it stop '
             'answering while still being listed', floor=4)
    rep.decline('"every query answers as registries holding exactly the listed '
                'registrations" and "rebuildUtilityRegistryFromLocalCache finds '
                'nothing to repair" for arbitrary histories')

    comp = find_def(mod, 'Components')
    ms = methods_of(comp)

    # ---- U1 / U2 ------------------------------------------------------------------
    for name in ('unregisterUtility', 'unregisterAdapter',
                 'unregisterSubscriptionAdapter', 'unregisterHandler'):
        f = ms[name]
        su = summaries(f)
        bad1, bad2 = [], []
        nT = nF = 0
        for ev, ret, conds, path in su:
            ks = kinds(ev)
            if ret == 'False':
                nF += 1
                if ks:
                    bad1.append({'events': ev, 'conditions': conds[-4:]})
            elif ret == 'True':
                nT += 1
                if not (ks.count('L-') == 1 and ks.count('R-') == 1 and
                        ks.count('E-') == 1 and ks[-1] == 'E-' and
                        'L+' not in ks and 'R+' not in ks and 'E+' not in ks):
                    bad2.append({'events': ev, 'conditions': conds[-4:]})
            else:
                bad2.append({'returns': ret, 'events': ev})
        rep.check('U1', 'Components.' + name, nF >= 1 and not bad1,
                  '%d path(s) return False, none with an effect' % nF if not bad1
                  else {'paths_with_effects': bad1[:2]}, construct='false-paths',
                  node=f)
        rep.check('U2', 'Components.' + name, nT >= 1 and not bad2,
                  '%d path(s) return True, each with L- R- E- (event last)' % nT
                  if not bad2 else {'bad_paths': bad2[:2]}, construct='true-paths',
                  node=f)

    # ---- U3 -----------------------------------------------------------------------
    for name in ('registerUtility', 'registerAdapter',
                 'registerSubscriptionAdapter', 'registerHandler'):
        f = ms[name]
        su = summaries(f)
        bad = []
        for ev, ret, conds, path in su:
            ks = kinds(ev)
            has_r = 'R+' in ks
            has_e = 'E+' in ks
            ev_true = ('event', 'T') in [(c[0], c[1]) for c in conds]
            if has_e and not has_r:
                bad.append({'why': 'Registered without an addition', 'events': ev})
            if has_r and ev_true and not has_e:
                bad.append({'why': 'addition without Registered', 'events': ev})
            if has_r and has_e and ks.index('E+') < ks.index('R+'):
                bad.append({'why': 'Registered before the addition', 'events': ev})
            if has_e and not ev_true:
                bad.append({'why': 'Registered although event is false', 'events': ev})
            if ks.count('R+') > 1 or ks.count('E+') > 1:
                bad.append({'why': 'more than one addition/event', 'events': ev})
            if 'E-' in ks and ks.index('E-') > ks.index('E+') if has_e and 'E-' in ks else False:
                bad.append({'why': 'Unregistered after Registered', 'events': ev})
        rep.check('U3', 'Components.' + name, not bad,
                  'Registered iff added (and event), after the addition, on all '
                  '%d paths' % len(su) if not bad else {'bad_paths': bad[:2]},
                  construct='event-iff-added', node=f)
    # keyed registrations: no-op and replace paths
    for name, keyed in (('registerUtility', '_utility_registrations'),
                        ('registerAdapter', '_adapter_registrations')):
        f = ms[name]
        su = summaries(f)
        noop = [s for s in su if not kinds(s[0])]
        repl = [s for s in su if 'E-' in kinds(s[0]) and 'E+' in kinds(s[0])
                and kinds(s[0]).index('E-') < kinds(s[0]).index('E+')]
        probes = find_all(f, 'self.%s.get($k)' % keyed)
        rep.check('U3', 'Components.' + name, bool(noop) and bool(probes),
                  'registering what is already registered is a no-op without '
                  'events (%d such path(s), existing entry probed: %s)'
                  % (len(noop), bool(probes)) if noop else
                  'the registration is stored under a key that may already be '
                  'registered, but there is no path that leaves an identical '
                  'registration alone: re-registering emits a second Registered',
                  construct='noop-path', node=f)
        rep.check('U3', 'Components.' + name, bool(repl),
                  'replacing a registration emits Unregistered for the old one '
                  'before Registered (%d path(s))' % len(repl) if repl else
                  'a registration replaced under the same key is silently '
                  'overwritten: no Unregistered event for the old one',
                  construct='replace-path', node=f)

    # ---- U5 -----------------------------------------------------------------------
    def agree(fname, listing_pat, reg_pat, event_pat, mode_l='exec'):
        f = ms[fname]
        l = find_all(f, listing_pat, mode_l)
        r = find_all(f, reg_pat)
        e = find_all(f, event_pat)
        ok = len(l) >= 1 and len(r) == 1 and len(e) == 1
        rep.check('U5', 'Components.' + fname, ok,
                  'listing `%s` / registry `%s` / event `%s` all present with '
                  'the same variables (%d/%d/%d)' % (listing_pat[:50], reg_pat[:50],
                                                     event_pat[:50], len(l), len(r), len(e)),
                  construct='agreement', node=f)
    agree('registerAdapter',
          'self._adapter_registrations[(required, provided, name)] = (factory, info)',
          'self.adapters.register(required, provided, name, factory)',
          'AdapterRegistration(self, required, provided, name, factory, info)')
    agree('unregisterAdapter',
          'del self._adapter_registrations[(required, provided, name)]',
          'self.adapters.unregister(required, provided, name)',
          'AdapterRegistration(self, required, provided, name, *old)')
    agree('registerSubscriptionAdapter',
          'self._subscription_registrations.append((required, provided, name, factory, info))',
          'self.adapters.subscribe(required, provided, factory)',
          'SubscriptionRegistration(self, required, provided, name, factory, info)',
          mode_l='eval')
    agree('unregisterSubscriptionAdapter',
          'self._subscription_registrations[:] = new',
          'self.adapters.unsubscribe(required, provided, factory)',
          "SubscriptionRegistration(self, required, provided, name, factory, '')")
    agree('registerHandler',
          'self._handler_registrations.append((required, name, factory, info))',
          'self.adapters.subscribe(required, None, factory)',
          'HandlerRegistration(self, required, name, factory, info)', mode_l='eval')
    agree('unregisterHandler',
          'self._handler_registrations[:] = new',
          'self.adapters.unsubscribe(required, None, factory)',
          "HandlerRegistration(self, required, name, factory, '')")
    agree('registerUtility',
          'self._utility_registrations_cache.registerUtility(provided, name, component, info, factory)',
          'self._utility_registrations_cache.registerUtility(provided, name, component, info, factory)',
          'UtilityRegistration(self, provided, name, component, info, factory)',
          mode_l='eval')
    agree('unregisterUtility',
          'self._utility_registrations_cache.unregisterUtility(provided, name, component)',
          'self._utility_registrations_cache.unregisterUtility(provided, name, component)',
          'UtilityRegistration(self, provided, name, component, *old[1:])',
          mode_l='eval')

    # ---- R16.1 --------------------------------------------------------------------
    f = ms['unregisterUtility']
    t = [n for n in walk_local(f) if isinstance(n, ast.If)
         and any(isinstance(s, ast.Return) and match('False', s.value) is not None
                 for s in n.body)]
    ok = len(t) == 1 and match(
        'old is None or (component is not None and component != old[0])', t[0].test) is not None
    rep.check('R16.1', 'Components.unregisterUtility', ok,
              'miss test `%s` (required: equality, component != old[0])'
              % (norm_src(t[0].test) if t else 'missing'), construct='equality', node=f)
    f = ms['unregisterAdapter']
    t = [n for n in walk_local(f) if isinstance(n, ast.If)
         and any(isinstance(s, ast.Return) and match('False', s.value) is not None
                 for s in n.body)]
    ok = len(t) == 1 and match(
        'old is None or (factory is not None and factory != old[0])', t[0].test) is not None
    rep.check('R16.1', 'Components.unregisterAdapter', ok,
              'miss test `%s`' % (norm_src(t[0].test) if t else 'missing'),
              construct='equality', node=f)
    f = ms['registerUtility']
    ok = bool(find_all(f, 'reg[:2] == (component, info)'))
    rep.check('R16.1', 'Components.registerUtility', ok,
              'already-registered test compares (component, info) by equality',
              construct='equality', node=f)

    def filter_dims(fname, with_factory, without_factory, unsub_pat):
        f = ms[fname]
        comps = [n for n in walk_local(f) if isinstance(n, ast.ListComp)]
        got = sorted(norm_src(c.generators[0].ifs[0]) for c in comps
                     if c.generators and c.generators[0].ifs)
        want = sorted([with_factory, without_factory])
        ok = got == want
        # branch selection
        g = [n for n in f.body if isinstance(n, ast.If)
             and match('factory is None', n.test) is not None]
        okb = len(g) == 1
        if okb:
            a = [norm_src(c.generators[0].ifs[0]) for s in g[0].body
                 for c in ast.walk(s) if isinstance(c, ast.ListComp)]
            b = [norm_src(c.generators[0].ifs[0]) for s in g[0].orelse
                 for c in ast.walk(s) if isinstance(c, ast.ListComp)]
            okb = a == [without_factory] and b == [with_factory]
        tgt = sorted(norm_src(c.generators[0].target) for c in comps)
        rep.check('R16.1', 'Components.' + fname, ok and okb,
                  'listing entries removed iff %s (factory given) / %s (no '
                  'factory): the same dimensions the registry call `%s` '
                  'touches; got %s' % (with_factory, without_factory, unsub_pat, got),
                  construct='filter', node=f)
    filter_dims('unregisterSubscriptionAdapter',
                'not (r == required and p == provided and (f == factory))',
                'not (r == required and p == provided)',
                'adapters.unsubscribe(required, provided, factory)')
    filter_dims('unregisterHandler',
                'not (r == required and f == factory)',
                'r != required',
                'adapters.unsubscribe(required, None, factory)')
    for fname, lst in (('unregisterSubscriptionAdapter', '_subscription_registrations'),
                       ('unregisterHandler', '_handler_registrations')):
        f = ms[fname]
        t = [n for n in f.body if isinstance(n, ast.If)
             and match('len(new) == len(self.%s)' % lst, n.test) is not None
             and any(isinstance(s, ast.Return) and match('False', s.value) is not None
                     for s in n.body)]
        rep.check('R16.1', 'Components.' + fname, len(t) == 1,
                  'returns False exactly when the filter removed nothing',
                  construct='nothing-removed', node=f)

    # ---- R16.2 --------------------------------------------------------------------
    ur = find_def(mod, '_UtilityRegistrations')
    um = methods_of(ur)
    f = um['registerUtility']
    cfg = cfg_of(f)
    sub = [n for n in cfg.nodes if isinstance(n.ast, ast.Assign) and match(
        'subscribed = self._is_utility_subscribed(provided, component)', n.ast, 'exec')
        is not None]
    def priv_call(h, suffix):
        return [c for c in ast.walk(h) if isinstance(c, ast.Call)
                and isinstance(c.func, ast.Attribute) and c.func.attr.endswith(suffix)
                and [norm_src(a) for a in c.args] == ['provided', 'component']]
    inc = [n for n in cfg.nodes if n.ast is not None and header_expr(n) is not None and
           priv_call(header_expr(n), '__cache_utility')]
    subs = [n for n in cfg.nodes if n.ast is not None and header_expr(n) is not None and
            find_all(header_expr(n), 'self._utilities.subscribe((), provided, component)')]
    ok = len(sub) == 1 and len(inc) == 1 and len(subs) == 1
    if ok:
        ok = cfg.dominated_by(inc[0], lambda n: n is sub[0]) and \
            cfg.must_pass_after(cfg.entry, lambda n: n is inc[0])
        g = subs[0].ast.parent
        ok = ok and isinstance(g, ast.If) and match('not subscribed', g.test) is not None
    rep.check('R16.2', '_UtilityRegistrations.registerUtility', ok,
              'subscribed is read before the count is incremented; subscribe iff '
              'not subscribed; the increment happens exactly once on every path',
              construct='register', node=f)
    ok = bool(find_all(f, 'self._utility_registrations[(provided, name)] = (component, info, factory)', 'exec')) \
        and bool(find_all(f, 'self._utilities.register((), provided, name, component)'))
    rep.check('R16.2', '_UtilityRegistrations.registerUtility', ok,
              'listing and registry updated with the same (provided, name, '
              'component)', construct='register-args', node=f)
    f = um['unregisterUtility']
    cfg = cfg_of(f)
    dec = [n for n in walk_local(f) if isinstance(n, ast.Assign)
           and isinstance(n.targets[0], ast.Name) and n.targets[0].id == 'subscribed'
           and priv_call(n.value, '__uncache_utility')]
    uns = find_all(f, 'self._utilities.unsubscribe((), provided, component)')
    ok = len(dec) == 1 and len(uns) == 1 and \
        bool(find_all(f, 'del self._utility_registrations[(provided, name)]', 'exec')) and \
        bool(find_all(f, 'self._utilities.unregister((), provided, name)'))
    if ok:
        g = shared.stmt_of(uns[0][0]).parent
        ok = isinstance(g, ast.If) and match('not subscribed', g.test) is not None
    rep.check('R16.2', '_UtilityRegistrations.unregisterUtility', ok,
              'one decrement per call; unsubscribe iff the component is no '
              'longer registered under any name', construct='unregister', node=f)
    unc = None
    for k, v in um.items():
        if k.endswith('__uncache_utility'):
            unc = v
    rep.require(unc is not None, '__uncache_utility vanished')
    ok = bool(find_all(unc, 'count -= 1', 'exec')) and \
        bool(find_all(unc, 'return count > 0', 'exec'))
    g = [n for n in unc.body if isinstance(n, ast.If) and match('count == 0', n.test) is not None]
    ok = ok and len(g) == 1 and any(find_all(s, 'del provided[component]', 'exec') for s in g[0].body) \
        and any(find_all(s, 'provided[component] = count', 'exec') for s in g[0].orelse)
    rep.check('R16.2', '_UtilityRegistrations.__uncache_utility', ok,
              'count decremented by one; entry deleted at zero, else stored; '
              'reports whether registrations remain', construct='uncache', node=unc)
    uc = find_def(mod, '_UnhashableComponentCounter')
    ops = {}
    for name, m in methods_of(uc).items():
        if name in ('__getitem__', '__setitem__', '__delitem__'):
            cmps = [n for n in ast.walk(m) if isinstance(n, ast.Compare)]
            ops[name] = sorted({type(o).__name__ for c in cmps for o in c.ops})
    ok = len(ops) == 3 and all(v == ['Eq'] for v in ops.values())
    rep.check('R16.2', '_UnhashableComponentCounter', ok,
              'all three accessors find the component by equality (a mix makes '
              'reads and writes disagree for equal-but-distinct components): %s'
              % ops, construct='equality', node=uc)

    # ---- R16.3 --------------------------------------------------------------------
    from .C05 import inv1
    table = ClassTable(repo, ['adapter.py'])
    inv1(rep, amod, table, rule='R16.3')

    # ---- R16.4 --------------------------------------------------------------------
    from . import mutators
    mutators.extendor_transitions(rep, 'R16.4', amod, 'register', 'add')
    mutators.extendor_transitions(rep, 'R16.4', amod, 'subscribe', 'add')
    mutators.extendor_transitions(rep, 'R16.4', amod, 'unregister', 'remove')
    mutators.extendor_transitions(rep, 'R16.4', amod, 'unsubscribe', 'remove')
