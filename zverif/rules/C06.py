"""C06 - registries consult exactly their current base chain, in resolution
order."""
import ast

from ..core import AnalysisError, norm_src
from ..pyfront import (find_def, find_all, match, walk_local, dotted, same,
                       calls_in, names_in, ClassTable, methods_of,
                       class_attr_assign)
from ..flowq import (iter_polarity, resolve_local, loops_over, pred_of,
                     witness_path, nodes_with, any_pred)
from ..cfg import cfg_of, header_expr
from . import shared


def recomputes_ro(func):
    """Handler recomputes the registry's ro from the live bases on every
    normal path (ro.ro(...) call), directly or via self._setBases /
    __bases__ re-assignment."""
    cfg = cfg_of(func)
    p = any_pred(pred_of('ro.ro($$a)'), pred_of('self._setBases($$a)'),
                 pred_of('$x.ro = $v', 'exec'))
    return cfg.must_pass_after(cfg.entry, p)


def _fresh_table_only_when_absent(init):
    """over the path summaries of AdapterRegistry.__init__: every path that binds
    self._v_subregistries has ESTABLISHED that the registry has no link table yet
    (membership test of the instance dict false, hasattr false, or the read raised
    AttributeError) - a guard that is always true, or that tests something else,
    replaces the table of a live registry when rebuild() re-runs __init__"""
    from . import sem as _sem
    ss = _sem.normal(_sem.summaries(init))
    if not ss:
        return False
    for ps in ss:
        binds = [e for e in ps.events if e.kind == 'store' and
                 _sem.nt(e.r) == 'self._v_subregistries']
        if not binds:
            continue
        absent = False
        for c, t, p in ps.order:
            if c in ("'_v_subregistries' in self.__dict__", "'_v_subregistries' in vars(self)",
                     "hasattr(self, '_v_subregistries')") and t is False:
                absent = True
            if c == 'EXCEPT(AttributeError)' and t is True:
                absent = True
        if not absent:
            return False
    return True


def run(rep):
    repo = rep.repo
    mod = repo.module('adapter.py')
    reg = repo.module('registry.py')
    table = ClassTable(repo, ['adapter.py'])
    rep.rule('R06.1', 'derived resolution order `ro` is a function of the '
             '*transitive* registry __bases__: it must be recomputed on the '
             'own __bases__ store and in every notification handler through '
             'which an ancestor\'s re-basing reaches the registry (push: '
             'BaseAdapterRegistry.changed; pull: VerifyingBase.changed), or be '
             'a computed property', floor=3)
    rep.rule('R06.2', 'the three _uncached_* walks take their registries from '
             'self._registry.ro only: lookup forward/first-hit (nearest '
             'registry wins), lookupAll reverse/last-wins, subscriptions '
             'reverse/append (base registries first)', floor=12)
    rep.rule('R06.3', 'sub-registry links: AdapterRegistry._setBases unlinks '
             'from every dropped base, links to every new base, then runs the '
             'base implementation; the link table is never discarded on a live '
             'registry; changed() notifies every linked sub-registry', floor=6)
    rep.rule('R06.4', 'Components._setBases maps adapters->adapters and '
             'utilities->utilities of every base, in order, and the __bases__ '
             'property routes to it', floor=4)
    rep.rule('R06.5', 'verify snapshot: _verify_ro is registry.ro without its '
             'first element; generations are taken from exactly those '
             'registries', floor=1)
    rep.rule('R06.6', 'every registration change on a base registry is '
             'signalled: mutators end in changed(), which bumps the generation '
             '(pull) and is forwarded to sub-registries (push)', floor=8)
    rep.rule('R06.7', 'the recorded __bases__ are a snapshot of the assigned '
             'sequence: the next assignment is diffed against them (link / unlink), '
             'so they must not be the caller\'s own mutable object', floor=1)
    rep.decline('none beyond C05 (cache transparency) which this builds on')

    # ---- R06.1 -----------------------------------------------------------
    cls = find_def(mod, 'BaseAdapterRegistry')
    ro_prop = class_attr_assign(cls, 'ro')
    ro_is_property = ro_prop is not None and match('property($$a)', ro_prop) is not None
    if not ro_is_property:
        for st in cls.body:
            if isinstance(st, ast.FunctionDef) and st.name == 'ro' and any(
                    dotted(d) in ('property', 'Lazy', 'cached_property')
                    for d in st.decorator_list):
                ro_is_property = bool(find_all(st, 'ro.ro($$a)'))
    sb = find_def(mod, 'BaseAdapterRegistry._setBases')
    rep.check('R06.1', 'BaseAdapterRegistry._setBases',
              ro_is_property or recomputes_ro(sb),
              'own __bases__ store recomputes ro from the live bases',
              construct='own', node=sb)
    ch = find_def(mod, 'BaseAdapterRegistry.changed')
    rep.check('R06.1', 'BaseAdapterRegistry.changed',
              ro_is_property or recomputes_ro(ch),
              'push flavour: when a base registry is re-based it calls '
              'sub.changed(); this handler %s recompute `ro`, so the '
              'sub-registry keeps walking the ancestor\'s old bases'
              % ('does' if (ro_is_property or recomputes_ro(ch)) else 'does NOT'),
              construct='push', node=ch)
    vch = find_def(mod, 'VerifyingBase.changed')
    okpull = ro_is_property or bool(find_all(vch, 'ro.ro($$a)'))
    rep.check('R06.1', 'VerifyingBase.changed', okpull,
              'pull flavour: _verify() notices the ancestor\'s generation bump '
              'and calls changed(), which re-snapshots _verify_ro from '
              'self._registry.ro; that value %s recomputed from the live bases'
              % ('is' if okpull else 'is NOT'), construct='pull', node=vch)

    # ---- R06.7 -------------------------------------------------------------
    from . import identsem
    identsem.bases_snapshot(rep, mod, 'R06.7')

    # ---- R06.2 -------------------------------------------------------------
    from . import sem
    sem.registry_walk_spec(
        rep, 'R06.2', find_def(mod, 'AdapterLookupBase._uncached_lookup'),
        '_lookup', '_adapters', 'fwd', True, ['name', '0', 'len(required)'], None)
    sem.registry_walk_spec(
        rep, 'R06.2', find_def(mod, 'AdapterLookupBase._uncached_lookupAll'),
        '_lookupAll', '_adapters', 'rev', False, ['{}', '0', 'len(required)'],
        'tuple({}.items())')
    sem.registry_walk_spec(
        rep, 'R06.2', find_def(mod, 'AdapterLookupBase._uncached_subscriptions'),
        '_subscriptions', '_subscribers', 'rev', False,
        ["''", '[]', '0', 'len(required)'], '[]')
    # ro.ro(self) computes over __bases__: the C3 entry point is used
    from ..sympath import summaries as _S, normal as _N
    _ss = _N(_S(sb))
    rep.check('R06.2', 'BaseAdapterRegistry._setBases',
              bool(_ss) and all([sem.nt(e.val) for e in ps.stores()
                                 if sem.nt(e.r) == 'self.ro'] == ['ro.ro(self)']
                                for ps in _ss),
              'ro is the C3 resolution order of the registry itself '
              '(ro.ro(self))', construct='ro-source', node=sb)

    # ---- R06.3 -------------------------------------------------------------
    from . import specsem
    specsem.setbases_links(rep, mod, 'R06.3')
    a = find_def(mod, 'AdapterRegistry._addSubregistry')
    p = shared.params(a)[1]
    rep.check('R06.3', 'AdapterRegistry._addSubregistry',
              bool(find_all(a, 'self._v_subregistries[%s] = $one' % p, 'exec')),
              'records the sub-registry', construct='add', node=a)
    r = find_def(mod, 'AdapterRegistry._removeSubregistry')
    p = shared.params(r)[1]
    dels = find_all(r, 'del self._v_subregistries[%s]' % p, 'exec') + \
        find_all(r, 'self._v_subregistries.pop(%s, $$d)' % p)
    rep.check('R06.3', 'AdapterRegistry._removeSubregistry', bool(dels),
              'forgets exactly the given sub-registry', construct='remove', node=r)
    # the link table is not discarded on a live registry
    ar = find_def(mod, 'AdapterRegistry')
    rebinds = []
    for name, m in methods_of(ar).items():
        for n in walk_local(m):
            if isinstance(n, ast.Assign) and any(
                    match('self._v_subregistries', t) is not None
                    for t in n.targets):
                rebinds.append((name, n))
    reinit = []
    for cname in table.mro('AdapterRegistry'):
        c = table.node(cname)
        if c is None:
            continue
        for name, m in methods_of(c).items():
            if name == '__init__':
                continue
            for cnode, _ in find_all(m, 'self.__init__($$a)'):
                reinit.append(('%s.%s' % (cname, name), m))
    ok = True
    detail = 'link table bound in %s; no method re-runs __init__' % (
        [r_[0] for r_ in rebinds])
    for rname, m in reinit:
        for name, st in rebinds:
            if name != '__init__':
                continue
            guarded = bool(find_all(st.value, 'getattr(self, $$a)')) or \
                bool(find_all(st.value, "self.__dict__.get($$a)")) or \
                _fresh_table_only_when_absent(methods_of(ar)['__init__'])
            saved = bool(find_all(m, '$x = self._v_subregistries', 'exec')) and \
                bool(find_all(m, 'self._v_subregistries = $x', 'exec'))
            if not guarded and not saved:
                ok = False
                detail = ('%s re-runs self.__init__() on a live registry and '
                          'AdapterRegistry.__init__ unconditionally replaces '
                          '_v_subregistries with an empty table: sub-registries '
                          'are no longer notified of later changes' % rname)
    rep.check('R06.3', 'AdapterRegistry.__init__', ok, detail,
              construct='links-survive-reinit', node=ar)
    from .C05 import loop_calls_all
    loop_calls_all(rep, 'R06.3', find_def(mod, 'AdapterRegistry.changed'),
                   'AdapterRegistry.changed',
                   ['self._v_subregistries.keys()', 'self._v_subregistries'],
                   'VAR.changed($$a)', 'notify every sub-registry')

    # ---- R06.4 -------------------------------------------------------------
    f = find_def(reg, 'Components._setBases')
    site = 'Components._setBases'
    bp = [p_ for p_ in shared.params(f) if p_ != 'self']
    rep.require(len(bp) == 1, 'Components._setBases signature')
    bp = bp[0]
    _fs = _N(_S(f))
    for attr in ('adapters', 'utilities'):
        want = [sem.ntext('tuple([b.%s for b in %s])' % (attr, bp)),
                sem.ntext('tuple((b.%s for b in %s))' % (attr, bp)),
                sem.ntext('[b.%s for b in %s]' % (attr, bp))]
        bad = []
        for ps in _fs:
            vals = [sem.nt(e.val) for e in ps.stores()
                    if sem.nt(e.r) == 'self.%s.__bases__' % attr]
            if len(vals) != 1 or vals[0] not in want:
                bad.append('self.%s.__bases__ = %s' % (attr, [v[:60] for v in vals]))
        rep.check('R06.4', site, bool(_fs) and not bad,
                  'self.%s.__bases__ = base.%s for every base, in order, on every path'
                  % (attr, attr) if not bad else {'problems': sorted(set(bad))[:2]},
                  construct=attr, node=f)
    cls = find_def(reg, 'Components')
    shared.setter_routes(rep, 'R06.4', cls, '__bases__', 'Components.__bases__')
    init = find_def(reg, 'Components.__init__')
    cfg = cfg_of(init)
    st = pred_of('self.__bases__ = $b', 'exec')
    ok = cfg.must_pass_after(cfg.entry, st) and all(
        cfg.dominated_by(n, pred_of('self._init_registries()'))
        for n in cfg.nodes if n.ast is not None and st(n))
    rep.check('R06.4', 'Components.__init__', ok,
              'constructor creates the registries and then assigns __bases__ '
              'through the property', construct='init', node=init)

    # ---- R06.5 (PY; the C twin is checked in cside) ------------------------
    specsem.verifying_py(rep, mod, 'R06.5')

    # the generation counter only ever moves forward: a verifying sub-registry
    # compares snapshots of it by equality, so any other store (a reset in
    # __init__, which rebuild() re-runs on a live registry; a restore) can bring
    # it back to a value a snapshot already holds and hide the changes in between
    shared.generation_monotone(rep, 'R06.5', mod)
    # ... and the cache dictionary is fetched (which is where a verifying lookup
    # compares the generations of its CURRENT bases) only after everything that
    # can run application code: an answer from a dictionary fetched earlier
    # ignores what that code registered in a base meanwhile
    from . import sem as _sem68
    for fn_ in ('lookup', 'lookup1', 'adapter_hook', 'lookupAll', 'subscriptions'):
        _sem68.fetch_order_spec(rep, 'R06.5', find_def(mod, 'LookupBase.' + fn_),
                                'LookupBase.' + fn_)

    # ---- R06.6 -------------------------------------------------------------
    from .C05 import inv1
    inv1(rep, mod, table, rule='R06.6')
    from . import cside
    cside.c06(rep)
