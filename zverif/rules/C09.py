"""C09 - registration bookkeeping reflects exactly the net effect of the
history."""
import ast

from ..core import AnalysisError, norm_src
from ..pyfront import (find_def, find_all, match, walk_local, dotted, same,
                       calls_in, names_in, ClassTable)
from ..flowq import (iter_polarity, resolve_local, loops_over, pred_of,
                     witness_path, nodes_with, reaching_defs, def_value,
                     any_pred)
from ..cfg import cfg_of, header_expr
from . import shared


def prune_guard(rep, rule, f, site):
    """Every `del comp[k]` of the pruning loop is guarded by emptiness of
    comp[k]; the loop runs leaf->root over the recorded descent and stops at
    the first non-empty container; trailing orders removed only while empty."""
    lps = [lp for lp in walk_local(f) if isinstance(lp, ast.For)
           and isinstance(lp.target, ast.Tuple)]
    ok = False
    detail = 'pruning loop over the recorded descent not found'
    for lp in lps:
        src, d = iter_polarity(lp.iter)
        if not (isinstance(src, ast.Name) and src.id == 'lookups'):
            continue
        names = [e.id for e in lp.target.elts if isinstance(e, ast.Name)]
        if len(names) != 2:
            continue
        comp, k = names
        dels = find_all(lp, 'del %s[%s]' % (comp, k), 'exec')
        if not dels:
            detail = 'no `del comp[k]` in the pruning loop'
            continue
        okd = True
        for dl, _ in dels:
            g = dl.parent
            if not isinstance(g, ast.If):
                okd = False
                detail = '`del %s[%s]` is not guarded by an emptiness test' % (comp, k)
                continue
            # forms: if d: break / else: del   |  if not d: del / else: break
            tv = g.test
            inner = None
            if isinstance(tv, ast.UnaryOp) and isinstance(tv.op, ast.Not):
                inner, branch, other = tv.operand, g.body, g.orelse
            else:
                inner, branch, other = tv, g.orelse, g.body
            val = inner
            if isinstance(inner, ast.Name):
                defs = [n.value for n in walk_local(lp) if isinstance(n, ast.Assign)
                        and isinstance(n.targets[0], ast.Name)
                        and n.targets[0].id == inner.id]
                val = defs[0] if len(defs) == 1 else inner
            guard_ok = match('%s[%s]' % (comp, k), val) is not None
            in_branch = dl in branch
            stops = any(isinstance(s, ast.Break) for s in other)
            if not (guard_ok and in_branch and stops):
                okd = False
                detail = ('`del %s[%s]`: guarded by emptiness of %s (%s), in the '
                          'empty branch (%s), non-empty branch stops the loop (%s)'
                          % (comp, k, norm_src(val), guard_ok, in_branch, stops))
        okdir = d == 'rev'
        if okd and not okdir:
            detail = 'pruning loop runs %s over the descent (required leaf -> root)' % d
        # the pruning only happens once the leaf container is empty
        p = lp.parent
        leafguard = isinstance(p, ast.If) and lp in p.body and (
            match('not components', p.test) is not None or
            match('new', p.test) is not None and lp in p.orelse) or \
            (isinstance(p, ast.If) and lp in p.orelse and
             match('new', p.test) is not None)
        if okd and okdir and not leafguard:
            detail = 'pruning is not conditional on the leaf container being empty'
        ok = okd and okdir and leafguard
        if ok:
            detail = ('emptied containers are removed leaf -> root, each only '
                      'if empty, stopping at the first non-empty one')
    rep.check(rule, site, ok, detail, construct='prune', node=f)
    # trailing orders
    wl = [n for n in walk_local(f) if isinstance(n, ast.While)]
    okw = False
    for w in wl:
        if match('byorder and not byorder[-1]', w.test) is not None and \
                len(w.body) == 1 and match('del byorder[-1]', w.body[0], 'exec') is not None:
            okw = True
    rep.check(rule, site, okw,
              'trailing per-order mappings are dropped only while empty',
              construct='trailing', node=f)


def subscribed_membership(rep, mod, rule):
    from . import sem
    sd = find_def(mod, 'BaseAdapterRegistry.subscribed')
    probs = []
    hit = 0
    for ps in sem.normal(sem.summaries(sd)):
        ret = sem.nt(ps.ret)
        memb = [(c, t) for c, t, p in ps.order if c.startswith('subscriber in ')]
        leafok = any("self._find_leaf(self._subscribers, required, provided, '')" in c
                     for c, t in memb)
        if ret == 'subscriber':
            hit += 1
            if not (memb and memb[-1][1] and leafok):
                probs.append('returns the subscriber without the membership test')
        elif ret == 'None':
            if memb and memb[-1][1]:
                probs.append('member but returns None')
        else:
            probs.append('returns `%s`' % ret[:60])
    rep.check(rule, 'BaseAdapterRegistry.subscribed', not probs and hit >= 1,
              'returns the subscriber iff it is a member (`in`) of the leaf found '
              'by _find_leaf(self._subscribers, required, provided, \'\')'
              if not probs else {'problems': sorted(set(probs))}, construct='membership',
              node=sd)



def run(rep):
    repo = rep.repo
    mod = repo.module('adapter.py')
    table = ClassTable(repo, ['adapter.py'])
    rep.rule('R09.1', 'comparison kinds: register() skips only when the stored '
             'value IS the new value; unregister(value=...) removes only when '
             'the stored value IS the given one; subscribed() is a membership '
             'test; (equality for subscriber removal: R07.2)', floor=3)
    rep.rule('R09.2', 'key construction agreement of register/_find_leaf/'
             'unregister/subscribe/unsubscribe and name normalisation', floor=7)
    rep.rule('R09.3', 'pruning: containers are deleted only when empty, leaf '
             'to root, stopping at the first non-empty one', floor=4)
    rep.rule('R09.4', 'rebuild: both iterators are started (buffered) before '
             'the storage is replaced; afterwards every registration is '
             're-registered and every subscription re-subscribed', floor=3)
    rep.rule('R09.5', 'depth agreement between the writers (order + 1 nested '
             'mappings, then the name) and the enumerators (_allKeys depth, '
             'key slices)', floor=4)
    rep.rule('R09.6', 'leaf writes: register stores components[name] = value '
             'and counts once; unregister deletes exactly that entry; '
             'registered()/subscribed() read through _find_leaf', floor=6)
    rep.rule('R09.7', 'every storage write is followed by changed() (lookups '
             'see the new bookkeeping)', floor=8)
    rep.rule('R09.8', 'no re-entrant mutation: register/unregister/subscribe/'
             'unsubscribe call no other writer of the registration storage '
             '(their local container references would dangle)', floor=4)
    rep.rule('R09.9', 'rebuild() re-creates the lookup object: _createLookup stores a '
             'new self._v_lookup and re-binds every delegated entry point to it, so the '
             'rebuilt registry answers from the caches that changed() reaches (shared '
             'with C05 INV-2)', floor=2)
    rep.rule('R09.10', 'what the bookkeeping lists is what lookups can find: the extendor '
             'index drops exactly `provided` (by equality) from each of its ancestors\' '
             'lists when its last registration goes - never an ancestor that still has '
             'registrations - and __init__ (which rebuild() re-runs) creates a fresh '
             'lookup object before the first changed() (C04 R04.3, C05 INV-3)', floor=4)
    rep.decline('that replaying allRegistrations()/allSubscriptions() or '
                'rebuild() yields an equivalent registry for every history')

    reg = find_def(mod, 'BaseAdapterRegistry.register')
    unreg = find_def(mod, 'BaseAdapterRegistry.unregister')
    sub = find_def(mod, 'BaseAdapterRegistry.subscribe')
    unsub = find_def(mod, 'BaseAdapterRegistry.unsubscribe')
    fl = find_def(mod, 'BaseAdapterRegistry._find_leaf')

    # ---- R09.1 (over path summaries) -------------------------------------------------
    from . import mutators, sem
    from . import sem as _sem
    mutators.register_same_value(rep, 'R09.1', mod)
    from . import mutators, sem
    mutators.value_filter(rep, 'R09.1', mod)
    mutators.no_reentry(rep, 'R09.8', mod)
    from .C05 import delegation_spec
    delegation_spec(rep, mod, 'R09.9')
    subscribed_membership(rep, mod, 'R09.1')

    # ---- R09.2 --------------------------------------------------------------
    for fn, storage in (('register', '_adapters'), ('unregister', '_adapters'),
                        ('subscribe', '_subscribers'), ('unsubscribe', '_subscribers')):
        mutators.descent(rep, 'R09.2', mod, fn, storage)
    # _find_leaf: generic over the byorder argument
    ss = sem.normal(sem.summaries(fl, lists=True))
    rets = set()
    probs = []
    for ps in ss:
        r = mutators.norm_required(sem.nt(ps.ret))
        rets.add(r)
    want_full = 'byorder[len(R)].get(EACH(R + (provided,))).get(name)'
    # the same descent written as "along R, then provided"
    split_full = {'byorder[len(R)].get(EACH(R)).get(provided).get(name)',
                  'byorder[len(R)].get(provided).get(name)'}
    ok = (want_full in rets and rets <= {want_full, 'None', 'byorder[len(R)].get(name)'}) \
        or (split_full <= rets and rets <= split_full | {'None'})
    rep.check('R09.2', 'BaseAdapterRegistry._find_leaf', ok,
              'returns byorder[len(R)] descended along R + (provided,) then '
              '.get(name), or None when a level is missing: %s' % sorted(rets),
              construct='find-leaf', node=fl)
    # names: the leaf key is the normalised name
    okn = True
    for ps in _sem.normal(_sem.summaries(reg)):
        for e in ps.stores():
            if isinstance(e.r, ast.Subscript) and _sem.nt(e.val) == 'value' and \
                    _sem.nt(e.r.slice) != '_normalize_name(name)':
                okn = False
    rep.check('R09.2', 'BaseAdapterRegistry.register', okn,
              'the leaf key is _normalize_name(name)', construct='name', node=reg)
    rd = find_def(mod, 'BaseAdapterRegistry.registered')
    rets = sorted({_sem.nt(ps.ret) for ps in _sem.normal(_sem.summaries(rd))})
    ok = rets == ['self._find_leaf(self._adapters, required, provided, '
                  '_normalize_name(name))']
    rep.check('R09.2', 'BaseAdapterRegistry.registered', ok, 'returns %s' % rets,
              construct='find', node=rd)

    # ---- R09.3 --------------------------------------------------------------
    mutators.prune(rep, 'R09.3', mod, 'unregister')
    mutators.prune(rep, 'R09.3', mod, 'unsubscribe')

    # ---- R09.4 (over path summaries) ----------------------------------------------------
    rb = find_def(mod, 'BaseAdapterRegistry.rebuild')
    REG, SUB = 'self.allRegistrations()', 'self.allSubscriptions()'

    def starter_ok(hname):
        """helper H(it): advances `it` once with next(); StopIteration -> an
        empty iterator; otherwise the first item chained in front of `it`"""
        cands = [n for n in ast.walk(mod) if isinstance(n, ast.FunctionDef)
                 and n.name == hname]
        for h in cands:
            ps_h = [a_.arg for a_ in h.args.args if a_.arg not in ('self', 'cls')]
            if len(ps_h) != 1:
                continue
            p_ = ps_h[0]
            good, kinds_ = True, set()
            for ps in _sem.summaries(h, normal_only=False):
                if ps.kind == 'raise' and ps.ret_node is None:
                    continue
                nx = [e for e in ps.events if e.kind == 'call' and
                      _sem.nt(e.r) == 'next(%s)' % p_]
                r = _sem.nt(ps.ret)
                if ps.facts.get('EXCEPT(StopIteration)'):
                    kinds_.add('empty')
                    good = good and r in ('iter(())', 'iter([])') and len(nx) == 1
                else:
                    kinds_.add('chain')
                    good = good and len(nx) == 1 and r in (
                        'itertools.chain((next(%s),), %s)' % (p_, p_),
                        'itertools.chain([next(%s)], %s)' % (p_, p_))
            if good and kinds_ == {'empty', 'chain'}:
                return True
        return False
    p_buf, p_init, p_rep = [], [], []
    both = 0
    for ps in _sem.normal(_sem.summaries(rb)):
        inits = [i for i, e in enumerate(ps.events) if e.kind == 'call'
                 and _sem.nt(e.r.func) == 'self.__init__']
        if len(inits) != 1:
            p_init.append('self.__init__ called %d times' % len(inits))
            continue
        ii = inits[0]
        if _sem.nt(ps.events[ii].r) != 'self.__init__(self.__bases__)':
            p_init.append('re-initialised as `%s`' % _sem.nt(ps.events[ii].r)[:60])
        buffered = {}
        for what, src in (('registrations', REG), ('subscriptions', SUB)):
            made = [i for i, e in enumerate(ps.events) if e.kind == 'call'
                    and _sem.nt(e.r) == src]
            if not made or made[0] > ii:
                p_buf.append('%s iterator not created from the live storage before '
                             're-initialisation' % what)
                continue
            # advanced before init: directly, or through a verified helper
            adv = [i for i, e in enumerate(ps.events[:ii]) if e.kind == 'call'
                   and _sem.nt(e.r) == 'next(%s)' % src]
            via = [e for e in ps.events[:ii] if e.kind == 'call' and
                   [_sem.nt(x) for x in e.r.args] == [src] and not e.r.keywords
                   and _sem.nt(e.r.func) not in ('next', 'iter', 'list', 'tuple')]
            if adv:
                # an exhausted source (StopIteration right after its next()) is
                # replaced by an empty iterator; otherwise the first item is
                # chained back in front
                stopped = any(c == 'EXCEPT(StopIteration)' and t and p_ == adv[0] + 1
                              for c, t, p_ in ps.order)
                if stopped:
                    emp = [_sem.nt(e.r) for e in ps.events[adv[0] + 1:adv[0] + 2]
                           if e.kind == 'call' and _sem.nt(e.r) in ('iter(())', 'iter([])')]
                    buffered[what] = emp[0] if emp else 'iter(())'
                else:
                    buffered[what] = 'itertools.chain((next(%s),), %s)' % (src, src)
            elif via and starter_ok((dotted(via[0].r.func) or '').split('.')[-1]):
                buffered[what] = _sem.nt(via[0].r)
            elif via and dotted(via[0].r.func) in ('list', 'tuple'):
                buffered[what] = _sem.nt(via[0].r)
            else:
                lst = [e for e in ps.events[:ii] if e.kind == 'call' and
                       _sem.nt(e.r) in ('list(%s)' % src, 'tuple(%s)' % src)]
                if lst:
                    buffered[what] = _sem.nt(lst[0].r)
                else:
                    p_buf.append('%s iterator not advanced (next()) before '
                                 're-initialisation: a lazy walk would start on the '
                                 'new, empty storage' % what)
        conds = [c for c, t, p in ps.order if not c.startswith(('ITER(', 'EXCEPT('))]
        if conds:
            p_rep.append('replay depends on `%s`' % conds[0][:60])
        reg_calls = [(i, e) for i, e in enumerate(ps.events) if e.kind == 'call'
                     and _sem.nt(e.r.func) == 'self.register']
        sub_calls = [(i, e) for i, e in enumerate(ps.events) if e.kind == 'call'
                     and _sem.nt(e.r.func) == 'self.subscribe']
        for calls_, what in ((reg_calls, 'registrations'), (sub_calls, 'subscriptions')):
            for i, e in calls_:
                a_ = [_sem.nt(x) for x in e.r.args]
                if i < ii:
                    p_rep.append('%s replayed before re-initialisation' % what)
                if what in buffered and a_ != ['*EACH(%s)' % buffered[what]]:
                    p_rep.append('%s replayed as `%s`' % (what, _sem.nt(e.r)[:80]))
        if reg_calls and sub_calls:
            both += 1
    for lp in walk_local(rb):
        if isinstance(lp, ast.For) and [x for x in walk_local(lp) if isinstance(
                x, (ast.Break, ast.Continue, ast.Return))]:
            p_rep.append('a replay loop can end early')
    if not both:
        p_rep.append('no path replays both registrations and subscriptions')
    rep.check('R09.4', 'BaseAdapterRegistry.rebuild', not p_buf,
              'both iterators are created from the live storage and advanced '
              '(next(), directly or through a helper that chains the first item '
              'back) before self.__init__ replaces it' if not p_buf else
              {'problems': sorted(set(p_buf))[:3]}, construct='buffer-before-init',
              node=rb)
    rep.check('R09.4', 'BaseAdapterRegistry.rebuild', not p_init,
              're-initialises once, with the current bases' if not p_init else
              {'problems': sorted(set(p_init))[:3]}, construct='init-args', node=rb)
    rep.check('R09.4', 'BaseAdapterRegistry.rebuild', not p_rep,
              'after re-initialisation every buffered entry is replayed through '
              'register / subscribe' if not p_rep else
              {'problems': sorted(set(p_rep))[:3]}, construct='replay', node=rb)

    # ---- R09.5 (over path summaries) ----------------------------------------
    def yields_of(ps):
        return [e for e in ps.events if e.kind in ('yield', 'yieldfrom')]

    def zero_fact(ps, v):
        """is `v == 0` decided on this path?"""
        for txt, val in ((v + ' == 0', True), (v + ' != 0', False), (v, False),
                         (v + ' < 1', True), (v + ' > 0', False), (v + ' >= 1', False),
                         (v + ' <= 0', True)):
            f = ps.facts.get(txt)
            if f is not None:
                return f == val
        return None
    ak = find_def(mod, 'BaseAdapterRegistry._allKeys')
    ps_ = shared.params(ak)
    rep.require(len(ps_) == 4, '_allKeys signature %s' % ps_)
    comp, i_n, pk = ps_[1], ps_[2], ps_[3]
    E = 'EACH(%s.items())' % comp
    KEY = '%s + (%s[0],)' % (pk, E)
    want_leaf = '(%s, %s[1])' % (KEY, E)
    want_rec = ['%s._allKeys(%s[1], %s - 1, %s)' % (o, E, i_n, KEY)
                for o in (ps_[0], 'self', 'BaseAdapterRegistry', 'type(self)')]
    bad, seen_k = [], set()
    for ps in _sem.normal(_sem.summaries(ak)):
        ys = yields_of(ps)
        looped = ps.facts.get('ITER(%s.items())' % comp)
        if not looped:
            if ys:
                bad.append('yields outside the walk over %s.items()' % comp)
            continue
        if len(ys) != 1:
            bad.append('%d yields for one item of %s.items()' % (len(ys), comp))
            continue
        z = zero_fact(ps, i_n)
        y = ys[0]
        if y.kind == 'yield':
            seen_k.add('leaf')
            if z is not True:
                bad.append('yields a (key, value) pair where %s == 0 is not established'
                           % i_n)
            if _sem.nt(y.r) != want_leaf:
                bad.append('at depth 0 yields `%s`' % _sem.nt(y.r)[:80])
        else:
            seen_k.add('rec')
            if z is not False:
                bad.append('recurses where %s != 0 is not established' % i_n)
            if _sem.nt(y.r) not in want_rec:
                bad.append('recurses as `%s`' % _sem.nt(y.r)[:100])
    if seen_k != {'leaf', 'rec'}:
        bad.append('needs both a depth-0 yield and a recursive step (found %s)'
                   % sorted(seen_k))
    rep.check('R09.5', 'BaseAdapterRegistry._allKeys', not bad,
              'at depth 0 yields (parent key + (k,), value); otherwise recurses '
              'with depth - 1 and the extended key, over components.items()'
              if not bad else {'problems': sorted(set(bad))[:3]},
              construct='depth', node=ak)
    ae = find_def(mod, 'BaseAdapterRegistry._all_entries')
    bp = [p_ for p_ in shared.params(ae) if p_ != 'self']
    rep.require(len(bp) == 1, '_all_entries signature')
    bo = bp[0]
    forms = []
    for idx, cmp_ in (('EACH(enumerate(%s))[0]' % bo, 'EACH(enumerate(%s))[1]' % bo),
                      ('EACH(range(len(%s)))' % bo, '%s[EACH(range(len(%s)))]' % (bo, bo))):
        for o in ('self', 'type(self)', 'BaseAdapterRegistry'):
            K = 'EACH(%s._allKeys(%s, %s + 1))' % (o, cmp_, idx)
            forms.append((idx, K))
    bad, n_y = [], 0
    for ps in _sem.normal(_sem.summaries(ae)):
        ys = yields_of(ps)
        inner = [c for c, t, p_ in ps.order if c.startswith('ITER(') and '_allKeys' in c
                 and t]
        if not inner:
            if ys:
                bad.append('yields outside the walk over _allKeys')
            continue
        if len(ys) != 1 or ys[0].kind != 'yield':
            bad.append('%d yields for one (key, value) of _allKeys' % len(ys))
            continue
        n_y += 1
        got = _sem.nt(ys[0].r)
        okf = False
        for idx, K in forms:
            for prov in ('%s[0][-2]' % K, '%s[0][%s]' % (K, idx)):
                for nm in ('%s[0][-1]' % K, '%s[0][%s + 1]' % (K, idx)):
                    if got == '(%s[0][:%s], %s, %s, %s[1])' % (K, idx, prov, nm, K):
                        okf = True
        if not okf:
            bad.append('yields `%s`' % got[:160])
    if not n_y:
        bad.append('no path yields an entry')
    rep.check('R09.5', 'BaseAdapterRegistry._all_entries', not bad,
              'order i: keys from _allKeys(components, i + 1) have length i + 2; '
              'yields (key[:i], key[i] (= key[-2]), key[i + 1] (= key[-1]), value)'
              if not bad else {'problems': sorted(set(bad))[:3]},
              construct='slices', node=ae)
    ar = find_def(mod, 'BaseAdapterRegistry.allRegistrations')
    SRC = 'self._all_entries(self._adapters)'
    bad, n_y = [], 0
    for ps in _sem.normal(_sem.summaries(ar)):
        ys = yields_of(ps)
        if len(ys) == 1 and ys[0].kind == 'yieldfrom' and _sem.nt(ys[0].r) == SRC:
            n_y += 1
            continue
        if ps.facts.get('ITER(%s)' % SRC) and len(ys) == 1 and ys[0].kind == 'yield' \
                and _sem.nt(ys[0].r) in (
                    'EACH(%s)' % SRC,
                    '(%s)' % ', '.join('EACH(%s)[%d]' % (SRC, k) for k in range(4))):
            n_y += 1
            continue
        if ys or not any(c.startswith('ITER(') for c in ps.facts):
            bad.append('yields %s' % [_sem.nt(y.r)[:60] for y in ys])
    if not n_y:
        bad.append('never yields the entries of self._adapters')
    rep.check('R09.5', 'BaseAdapterRegistry.allRegistrations', not bad,
              'enumerates self._adapters' if not bad else
              {'problems': sorted(set(bad))[:3]}, construct='source', node=ar)
    asub = find_def(mod, 'BaseAdapterRegistry.allSubscriptions')
    SRC = 'self._all_entries(self._subscribers)'
    ES = 'EACH(%s)' % SRC
    want = '(%s[0], %s[1], EACH(%s[3]))' % (ES, ES, ES)
    bad, n_y = [], 0
    for ps in _sem.normal(_sem.summaries(asub)):
        ys = yields_of(ps)
        if ps.facts.get('ITER(%s)' % SRC) and ps.facts.get('ITER(%s[3])' % ES):
            if len(ys) != 1 or ys[0].kind != 'yield' or _sem.nt(ys[0].r) != want:
                bad.append('for a subscriber of a leaf yields %s'
                           % [_sem.nt(y.r)[:120] for y in ys])
            else:
                n_y += 1
        elif ys:
            bad.append('yields outside the walk over the leaves')
    if not n_y:
        bad.append('never yields a subscription')
    rep.check('R09.5', 'BaseAdapterRegistry.allSubscriptions', not bad,
              'yields (required, provided, v) for every v of every leaf of '
              'self._subscribers, in stored order' if not bad else
              {'problems': sorted(set(bad))[:3]}, construct='source', node=asub)

    # ---- R09.6 --------------------------------------------------------------
    st = find_all(reg, '$c[name] = value', 'exec')
    rep.check('R09.6', 'BaseAdapterRegistry.register', len(st) == 1,
              'stores components[name] = value (%d)' % len(st),
              construct='leaf-store', node=reg)
    mutators.extendor_transitions(rep, 'R09.6', mod, 'register', 'add')
    mutators.extendor_transitions(rep, 'R09.6', mod, 'unregister', 'remove')
    dl = find_all(unreg, 'del $c[name]', 'exec')
    rep.check('R09.6', 'BaseAdapterRegistry.unregister', len(dl) == 1,
              'deletes exactly components[name] (%d)' % len(dl),
              construct='leaf-delete', node=unreg)
    # nothing written before the miss returns of unregister
    cfg = cfg_of(unreg)
    writes, D = shared.content_writes(unreg, ('_adapters', '_provided'))
    wn = [cfg.node_of(w) for w, k, c, v in writes]
    rets = [n for n in cfg.nodes if isinstance(n.ast, ast.Return)]
    bad = []
    for r in rets:
        back = cfg.reach(r, forward=False)
        if any(w.id in back for w in wn):
            bad.append(norm_src(r.ast))
    rep.check('R09.6', 'BaseAdapterRegistry.unregister', not bad,
              'the miss returns happen before any storage write (%s)' % bad,
              construct='miss-no-write', node=unreg)
    # register(value=None) delegates to unregister
    ifs = [n for n in reg.body if isinstance(n, ast.If)
           and match('value is None', n.test) is not None]
    ok = len(ifs) == 1 and bool(find_all(
        ifs[0], 'self.unregister(required, provided, name, value)')) and \
        any(isinstance(s, ast.Return) for s in ifs[0].body)
    rep.check('R09.6', 'BaseAdapterRegistry.register', ok,
              'register(..., None) unregisters', construct='none-unregisters',
              node=reg)

    # ---- R09.7 --------------------------------------------------------------
    from .C05 import inv1
    inv1(rep, mod, table, rule='R09.7')
    # ---- R09.10 -------------------------------------------------------------
    shared.extendor_index(rep, 'R09.10', mod)
    from .C05 import inv3
    inv3(rep, mod, table, rule='R09.10')
