"""C09 - registration bookkeeping reflects exactly the net effect of the
history."""
import ast

from ..core import AnalysisError, norm_src
from ..pyfront import (find_def, find_all, match, walk_local, dotted, same,
                       calls_in, names_in, ClassTable)
from ..flowq import (iter_polarity, resolve_local, loops_over, pred_of,
                     witness_path, nodes_with, reaching_defs, def_value,
                     any_pred)
from ..cfg import cfg_of, header_expr
from . import shared


def prune_guard(rep, rule, f, site):
    """Every `del comp[k]` of the pruning loop is guarded by emptiness of
    comp[k]; the loop runs leaf->root over the recorded descent and stops at
    the first non-empty container; trailing orders removed only while empty."""
    lps = [lp for lp in walk_local(f) if isinstance(lp, ast.For)
           and isinstance(lp.target, ast.Tuple)]
    ok = False
    detail = 'pruning loop over the recorded descent not found'
    for lp in lps:
        src, d = iter_polarity(lp.iter)
        if not (isinstance(src, ast.Name) and src.id == 'lookups'):
            continue
        names = [e.id for e in lp.target.elts if isinstance(e, ast.Name)]
        if len(names) != 2:
            continue
        comp, k = names
        dels = find_all(lp, 'del %s[%s]' % (comp, k), 'exec')
        if not dels:
            detail = 'no `del comp[k]` in the pruning loop'
            continue
        okd = True
        for dl, _ in dels:
            g = dl.parent
            if not isinstance(g, ast.If):
                okd = False
                detail = '`del %s[%s]` is not guarded by an emptiness test' % (comp, k)
                continue
            # forms: if d: break / else: del   |  if not d: del / else: break
            tv = g.test
            inner = None
            if isinstance(tv, ast.UnaryOp) and isinstance(tv.op, ast.Not):
                inner, branch, other = tv.operand, g.body, g.orelse
            else:
                inner, branch, other = tv, g.orelse, g.body
            val = inner
            if isinstance(inner, ast.Name):
                defs = [n.value for n in walk_local(lp) if isinstance(n, ast.Assign)
                        and isinstance(n.targets[0], ast.Name)
                        and n.targets[0].id == inner.id]
                val = defs[0] if len(defs) == 1 else inner
            guard_ok = match('%s[%s]' % (comp, k), val) is not None
            in_branch = dl in branch
            stops = any(isinstance(s, ast.Break) for s in other)
            if not (guard_ok and in_branch and stops):
                okd = False
                detail = ('`del %s[%s]`: guarded by emptiness of %s (%s), in the '
                          'empty branch (%s), non-empty branch stops the loop (%s)'
                          % (comp, k, norm_src(val), guard_ok, in_branch, stops))
        okdir = d == 'rev'
        if okd and not okdir:
            detail = 'pruning loop runs %s over the descent (required leaf -> root)' % d
        # the pruning only happens once the leaf container is empty
        p = lp.parent
        leafguard = isinstance(p, ast.If) and lp in p.body and (
            match('not components', p.test) is not None or
            match('new', p.test) is not None and lp in p.orelse) or \
            (isinstance(p, ast.If) and lp in p.orelse and
             match('new', p.test) is not None)
        if okd and okdir and not leafguard:
            detail = 'pruning is not conditional on the leaf container being empty'
        ok = okd and okdir and leafguard
        if ok:
            detail = ('emptied containers are removed leaf -> root, each only '
                      'if empty, stopping at the first non-empty one')
    rep.check(rule, site, ok, detail, construct='prune', node=f)
    # trailing orders
    wl = [n for n in walk_local(f) if isinstance(n, ast.While)]
    okw = False
    for w in wl:
        if match('byorder and not byorder[-1]', w.test) is not None and \
                len(w.body) == 1 and match('del byorder[-1]', w.body[0], 'exec') is not None:
            okw = True
    rep.check(rule, site, okw,
              'trailing per-order mappings are dropped only while empty',
              construct='trailing', node=f)


def run(rep):
    repo = rep.repo
    mod = repo.module('adapter.py')
    table = ClassTable(repo, ['adapter.py'])
    rep.rule('R09.1', 'comparison kinds: register() skips only when the stored '
             'value IS the new value; unregister(value=...) removes only when '
             'the stored value IS the given one; subscribed() is a membership '
             'test; (equality for subscriber removal: R07.2)', floor=3)
    rep.rule('R09.2', 'key construction agreement of register/_find_leaf/'
             'unregister/subscribe/unsubscribe and name normalisation', floor=7)
    rep.rule('R09.3', 'pruning: containers are deleted only when empty, leaf '
             'to root, stopping at the first non-empty one', floor=4)
    rep.rule('R09.4', 'rebuild: both iterators are started (buffered) before '
             'the storage is replaced; afterwards every registration is '
             're-registered and every subscription re-subscribed', floor=3)
    rep.rule('R09.5', 'depth agreement between the writers (order + 1 nested '
             'mappings, then the name) and the enumerators (_allKeys depth, '
             'key slices)', floor=4)
    rep.rule('R09.6', 'leaf writes: register stores components[name] = value '
             'and counts once; unregister deletes exactly that entry; '
             'registered()/subscribed() read through _find_leaf', floor=6)
    rep.rule('R09.7', 'every storage write is followed by changed() (lookups '
             'see the new bookkeeping)', floor=8)
    rep.rule('R09.8', 'no re-entrant mutation: register/unregister/subscribe/'
             'unsubscribe call no other writer of the registration storage '
             '(their local container references would dangle)', floor=4)
    rep.decline('that replaying allRegistrations()/allSubscriptions() or '
                'rebuild() yields an equivalent registry for every history')

    reg = find_def(mod, 'BaseAdapterRegistry.register')
    unreg = find_def(mod, 'BaseAdapterRegistry.unregister')
    sub = find_def(mod, 'BaseAdapterRegistry.subscribe')
    unsub = find_def(mod, 'BaseAdapterRegistry.unsubscribe')
    fl = find_def(mod, 'BaseAdapterRegistry._find_leaf')

    # ---- R09.1 (over path summaries) -------------------------------------------------
    from . import sem as _sem
    probs = []
    kinds = set()
    for ps in _sem.normal(_sem.summaries(reg)):
        if ps.facts.get('value is None') is True:
            continue
        guards = []
        for c, t, p in ps.order:
            try:
                e = ast.parse(c, mode='eval').body
            except SyntaxError:
                continue
            if isinstance(e, ast.Compare) and len(e.ops) == 1:
                sides = [e.left, e.comparators[0]]
                if any(isinstance(x, ast.Name) and x.id == 'value' for x in sides):
                    o = [x for x in sides if not (isinstance(x, ast.Name) and x.id == 'value')]
                    if len(o) == 1 and isinstance(o[0], ast.Call) and \
                            isinstance(o[0].func, ast.Attribute) and o[0].func.attr == 'get':
                        guards.append((type(e.ops[0]).__name__, t, _sem.nt(o[0])))
        stores = [e for e in ps.stores() if isinstance(e.r, ast.Subscript)
                  and _sem.nt(e.val) == 'value']
        if not guards:
            probs.append('the stored value is not compared with the new one')
            continue
        op, same, probe = guards[-1]
        if op != 'Is':
            probs.append('no-op guard compares the stored value with the new one by %s '
                         '(required: identity, `is`)' % op)
            continue
        kinds.add(same)
        if same and (stores or [e for e in ps.events if e.kind == 'call' and
                                _sem.nt(e.r.func) == 'self.changed']):
            probs.append('the identical value is registered again')
        if not same and not [e for e in stores
                             if '%s.get(%s)' % (_sem.nt(e.r.value), _sem.nt(e.r.slice)) == probe]:
            probs.append('a different value is not stored under the probed key')
    if kinds != {True, False}:
        probs.append('guard outcomes seen: %s' % sorted(kinds))
    rep.check('R09.1', 'BaseAdapterRegistry.register', not probs,
              'registering the very object that is stored (identity) is a no-op; '
              'anything else is stored under the probed key'
              if not probs else {'problems': sorted(set(probs))[:3]},
              construct='same-value', node=reg)
    from . import mutators, sem
    mutators.value_filter(rep, 'R09.1', mod)
    mutators.no_reentry(rep, 'R09.8', mod)
    sd = find_def(mod, 'BaseAdapterRegistry.subscribed')
    probs = []
    hit = 0
    for ps in sem.normal(sem.summaries(sd)):
        ret = sem.nt(ps.ret)
        memb = [(c, t) for c, t, p in ps.order if c.startswith('subscriber in ')]
        leafok = any("self._find_leaf(self._subscribers, required, provided, '')" in c
                     for c, t in memb)
        if ret == 'subscriber':
            hit += 1
            if not (memb and memb[-1][1] and leafok):
                probs.append('returns the subscriber without the membership test')
        elif ret == 'None':
            if memb and memb[-1][1]:
                probs.append('member but returns None')
        else:
            probs.append('returns `%s`' % ret[:60])
    rep.check('R09.1', 'BaseAdapterRegistry.subscribed', not probs and hit >= 1,
              'returns the subscriber iff it is a member (`in`) of the leaf found '
              'by _find_leaf(self._subscribers, required, provided, \'\')'
              if not probs else {'problems': sorted(set(probs))}, construct='membership',
              node=sd)

    # ---- R09.2 --------------------------------------------------------------
    for fn, storage in (('register', '_adapters'), ('unregister', '_adapters'),
                        ('subscribe', '_subscribers'), ('unsubscribe', '_subscribers')):
        mutators.descent(rep, 'R09.2', mod, fn, storage)
    # _find_leaf: generic over the byorder argument
    ss = sem.normal(sem.summaries(fl, lists=True))
    rets = set()
    probs = []
    for ps in ss:
        r = mutators.norm_required(sem.nt(ps.ret))
        rets.add(r)
    want_full = 'byorder[len(R)].get(EACH(R + (provided,))).get(name)'
    ok = want_full in rets and rets <= {want_full, 'None', 'byorder[len(R)].get(name)'}
    rep.check('R09.2', 'BaseAdapterRegistry._find_leaf', ok,
              'returns byorder[len(R)] descended along R + (provided,) then '
              '.get(name), or None when a level is missing: %s' % sorted(rets),
              construct='find-leaf', node=fl)
    # names: the leaf key is the normalised name
    okn = True
    for ps in _sem.normal(_sem.summaries(reg)):
        for e in ps.stores():
            if isinstance(e.r, ast.Subscript) and _sem.nt(e.val) == 'value' and \
                    _sem.nt(e.r.slice) != '_normalize_name(name)':
                okn = False
    rep.check('R09.2', 'BaseAdapterRegistry.register', okn,
              'the leaf key is _normalize_name(name)', construct='name', node=reg)
    rd = find_def(mod, 'BaseAdapterRegistry.registered')
    rets = sorted({_sem.nt(ps.ret) for ps in _sem.normal(_sem.summaries(rd))})
    ok = rets == ['self._find_leaf(self._adapters, required, provided, '
                  '_normalize_name(name))']
    rep.check('R09.2', 'BaseAdapterRegistry.registered', ok, 'returns %s' % rets,
              construct='find', node=rd)

    # ---- R09.3 --------------------------------------------------------------
    mutators.prune(rep, 'R09.3', mod, 'unregister')
    mutators.prune(rep, 'R09.3', mod, 'unsubscribe')

    # ---- R09.4 --------------------------------------------------------------
    rb = find_def(mod, 'BaseAdapterRegistry.rebuild', raw=True)
    cfg = cfg_of(rb)
    initn = nodes_with(cfg, 'self.__init__($$a)')

    def starter(name):
        """a helper (nested, module-level or method) that advances its
        iterator argument with next() and chains the first item back"""
        cands = [n for n in ast.walk(mod) if isinstance(n, ast.FunctionDef) and n.name == name]
        for h in cands:
            if not h.args.args:
                continue
            p = h.args.args[-1].arg if h.args.args[0].arg in ('self', 'cls') else h.args.args[0].arg
            nx = find_all(h, 'next(%s)' % p)
            rr = sorted(norm_src(r.value) for r in ast.walk(h) if isinstance(r, ast.Return))
            first = [n.targets[0].id for n in ast.walk(h) if isinstance(n, ast.Assign)
                     and isinstance(n.targets[0], ast.Name)
                     and match('next(%s)' % p, n.value) is not None]
            if nx and first and rr == sorted(['iter(())', 'itertools.chain((%s,), %s)'
                                              % (first[0], p)]):
                return True
        return False
    ok = len(initn) == 1
    detail = 'self.__init__ calls: %d' % len(initn)
    if ok:
        init = initn[0]
        started = {}
        for kind, src in (('registrations', 'self.allRegistrations()'),
                          ('subscriptions', 'self.allSubscriptions()')):
            good = False
            for n in cfg.nodes:
                if not isinstance(n.ast, ast.Assign) or not isinstance(n.ast.value, ast.Call):
                    continue
                c = n.ast.value
                callee = c.func.id if isinstance(c.func, ast.Name) else (
                    c.func.attr if isinstance(c.func, ast.Attribute) else None)
                if callee and len(c.args) == 1 and starter(callee):
                    from ..facts import resolve
                    arg = resolve(cfg, n, c.args[0])
                    if match(src, arg) is not None and cfg.dominated_by(init, lambda m, n=n: m is n):
                        tgt = n.ast.targets[0].id if isinstance(n.ast.targets[0], ast.Name) else None
                        started[kind] = tgt
                        good = True
            if not good:
                started[kind] = None
        ok = all(started.values())
        detail = ('both iterators are created from the live storage and advanced '
                  '(next() via a buffering helper) before self.__init__ replaces '
                  'it: %s' % started)
    rep.check('R09.4', 'BaseAdapterRegistry.rebuild', ok, detail,
              construct='buffer-before-init', node=rb)
    if initn:
        c = find_all(header_expr(initn[0]), 'self.__init__($$a)')[0]
        rep.check('R09.4', 'BaseAdapterRegistry.rebuild',
                  match('self.__init__(self.__bases__)', c[0]) is not None,
                  're-initialises with the current bases: %s' % norm_src(c[0]),
                  construct='init-args', node=rb)
    okl = True
    dl = []
    if ok:
        for kind, call in (('registrations', 'self.register(*VAR)'),
                           ('subscriptions', 'self.subscribe(*VAR)')):
            lps = [lp for lp in walk_local(rb) if isinstance(lp, ast.For)
                   and isinstance(lp.iter, ast.Name) and lp.iter.id == started[kind]]
            good = False
            for lp in lps:
                v = lp.target.id if isinstance(lp.target, ast.Name) else '_'
                cs = find_all(lp, call.replace('VAR', v))
                exits = [n for n in walk_local(lp) if isinstance(
                    n, (ast.Break, ast.Return, ast.Continue))]
                after = cfg.node_of(lp).id in cfg.reach(initn[0])
                good = bool(cs) and not exits and bool(after)
            dl.append((kind, good))
            okl = okl and good
    else:
        okl = False
    rep.check('R09.4', 'BaseAdapterRegistry.rebuild', okl,
              'after re-initialisation every buffered entry is replayed: %s' % dl,
              construct='replay', node=rb)

    # ---- R09.5 --------------------------------------------------------------
    from ..facts import guarded
    ak = find_def(mod, 'BaseAdapterRegistry._allKeys')
    ps_ = shared.params(ak)
    rep.require(len(ps_) == 4, '_allKeys signature %s' % ps_)
    comp, i_n, pk = ps_[1], ps_[2], ps_[3]
    cfga = cfg_of(ak)
    ys = [n for n in cfga.nodes if n.ast is not None and header_expr(n) is not None and
          any(isinstance(x, ast.Yield) for x in ast.walk(header_expr(n)))]
    yf = [n for n in cfga.nodes if n.ast is not None and header_expr(n) is not None and
          any(isinstance(x, ast.YieldFrom) for x in ast.walk(header_expr(n)))]
    okb = bool(ys) and all(guarded(cfga, n, '%s == 0' % i_n, True) for n in ys)
    okr = bool(yf) and all(guarded(cfga, n, '%s == 0' % i_n, False) for n in yf)
    okshape = False
    for n in ys:
        y = [x for x in ast.walk(header_expr(n)) if isinstance(x, ast.Yield)][0]
        from ..facts import resolve
        v = y.value
        if isinstance(v, ast.Tuple) and len(v.elts) == 2:
            kexpr = resolve(cfga, n, v.elts[0])
            okshape = match('%s + ($k,)' % pk, kexpr) is not None
    okrec = False
    for n in yf:
        y = [x for x in ast.walk(header_expr(n)) if isinstance(x, ast.YieldFrom)][0]
        c = y.value
        if isinstance(c, ast.Call) and len(c.args) == 3:
            a1 = resolve(cfga, n, c.args[1])
            a2 = resolve(cfga, n, c.args[2])
            okrec = match('%s - 1' % i_n, a1) is not None and \
                match('%s + ($k,)' % pk, a2) is not None
    its = [lp for lp in walk_local(ak) if isinstance(lp, ast.For)
           and match('%s.items()' % comp, lp.iter) is not None]
    rep.check('R09.5', 'BaseAdapterRegistry._allKeys',
              okb and okr and okshape and okrec and bool(its),
              'at depth 0 yields (parent key + (k,), value); otherwise recurses '
              'with depth - 1 and the extended key, over components.items() '
              '(%s/%s/%s/%s)' % (okb, okr, okshape, okrec), construct='depth', node=ak)
    ae = find_def(mod, 'BaseAdapterRegistry._all_entries')
    lps = [lp for lp in walk_local(ae) if isinstance(lp, ast.For)
           and match('enumerate(byorder)', lp.iter) is not None]
    ok = len(lps) == 1
    detail = 'enumerate(byorder) loops: %d' % len(lps)
    if ok:
        lp = lps[0]
        iv = lp.target.elts[0].id
        cv = lp.target.elts[1].id
        okk = bool(find_all(lp, 'self._allKeys(%s, %s + 1)' % (cv, iv)))
        cfge = cfg_of(ae)
        yn = [n for n in cfge.nodes if n.ast is not None and header_expr(n) is not None and
              any(isinstance(x, ast.Yield) for x in ast.walk(header_expr(n)))]
        oks = False
        got = None
        if len(yn) == 1:
            y = [x for x in ast.walk(header_expr(yn[0])) if isinstance(x, ast.Yield)][0]
            if isinstance(y.value, ast.Tuple) and len(y.value.elts) == 4:
                got = [norm_src(resolve(cfge, yn[0], e)) for e in y.value.elts]
                kv = got[0].split('[')[0]
                want_req = '%s[:%s]' % (kv, iv)
                prov_ok = got[1] in ('%s[-2]' % kv, '%s[%s]' % (kv, iv))
                name_ok = got[2] in ('%s[-1]' % kv, '%s[%s + 1]' % (kv, iv))
                oks = got[0] == want_req and prov_ok and name_ok
        ok = okk and oks
        detail = ('order i: keys from _allKeys(components, i + 1) have length i + 2; '
                  'yields (key[:i], key[i] (= key[-2]), key[i + 1] (= key[-1]), value): '
                  '%s (%s/%s)' % (got, okk, oks))
    rep.check('R09.5', 'BaseAdapterRegistry._all_entries', ok, detail,
              construct='slices', node=ae)
    ar = find_def(mod, 'BaseAdapterRegistry.allRegistrations')
    rep.check('R09.5', 'BaseAdapterRegistry.allRegistrations',
              bool(find_all(ar, 'yield from self._all_entries(self._adapters)', 'exec')),
              'enumerates self._adapters', construct='source', node=ar)
    asub = find_def(mod, 'BaseAdapterRegistry.allSubscriptions')
    lps = [lp for lp in walk_local(asub) if isinstance(lp, ast.For)
           and match('self._all_entries(self._subscribers)', lp.iter) is not None]
    ok = len(lps) == 1
    if ok:
        inner = [n for n in walk_local(lps[0]) if isinstance(n, ast.For)
                 and n is not lps[0]]
        ok = len(inner) == 1 and isinstance(inner[0].iter, ast.Name) and \
            bool(find_all(inner[0], 'yield (required, provided, %s)'
                          % inner[0].target.id, 'exec')) and \
            iter_polarity(inner[0].iter)[1] == 'fwd'
        tg = [e.id for e in lps[0].target.elts if isinstance(e, ast.Name)]
        ok = ok and len(tg) == 4 and tg[0] == 'required' and tg[1] == 'provided' \
            and inner[0].iter.id == tg[3]
    rep.check('R09.5', 'BaseAdapterRegistry.allSubscriptions', ok,
              'yields (required, provided, v) for every v of every leaf of '
              'self._subscribers, in stored order', construct='source', node=asub)

    # ---- R09.6 --------------------------------------------------------------
    st = find_all(reg, '$c[name] = value', 'exec')
    rep.check('R09.6', 'BaseAdapterRegistry.register', len(st) == 1,
              'stores components[name] = value (%d)' % len(st),
              construct='leaf-store', node=reg)
    mutators.extendor_transitions(rep, 'R09.6', mod, 'register', 'add')
    mutators.extendor_transitions(rep, 'R09.6', mod, 'unregister', 'remove')
    dl = find_all(unreg, 'del $c[name]', 'exec')
    rep.check('R09.6', 'BaseAdapterRegistry.unregister', len(dl) == 1,
              'deletes exactly components[name] (%d)' % len(dl),
              construct='leaf-delete', node=unreg)
    # nothing written before the miss returns of unregister
    cfg = cfg_of(unreg)
    writes, D = shared.content_writes(unreg, ('_adapters', '_provided'))
    wn = [cfg.node_of(w) for w, k, c, v in writes]
    rets = [n for n in cfg.nodes if isinstance(n.ast, ast.Return)]
    bad = []
    for r in rets:
        back = cfg.reach(r, forward=False)
        if any(w.id in back for w in wn):
            bad.append(norm_src(r.ast))
    rep.check('R09.6', 'BaseAdapterRegistry.unregister', not bad,
              'the miss returns happen before any storage write (%s)' % bad,
              construct='miss-no-write', node=unreg)
    # register(value=None) delegates to unregister
    ifs = [n for n in reg.body if isinstance(n, ast.If)
           and match('value is None', n.test) is not None]
    ok = len(ifs) == 1 and bool(find_all(
        ifs[0], 'self.unregister(required, provided, name, value)')) and \
        any(isinstance(s, ast.Return) for s in ifs[0].body)
    rep.check('R09.6', 'BaseAdapterRegistry.register', ok,
              'register(..., None) unregisters', construct='none-unregisters',
              node=reg)

    # ---- R09.7 --------------------------------------------------------------
    from .C05 import inv1
    inv1(rep, mod, table, rule='R09.7')
