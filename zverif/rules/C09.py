"""C09 - registration bookkeeping reflects exactly the net effect of the
history."""
import ast

from ..core import AnalysisError, norm_src
from ..pyfront import (find_def, find_all, match, walk_local, dotted, same,
                       calls_in, names_in, ClassTable)
from ..flowq import (iter_polarity, resolve_local, loops_over, pred_of,
                     witness_path, nodes_with, reaching_defs, def_value,
                     any_pred)
from ..cfg import cfg_of, header_expr
from . import shared


def prune_guard(rep, rule, f, site):
    """Every `del comp[k]` of the pruning loop is guarded by emptiness of
    comp[k]; the loop runs leaf->root over the recorded descent and stops at
    the first non-empty container; trailing orders removed only while empty."""
    lps = [lp for lp in walk_local(f) if isinstance(lp, ast.For)
           and isinstance(lp.target, ast.Tuple)]
    ok = False
    detail = 'pruning loop over the recorded descent not found'
    for lp in lps:
        src, d = iter_polarity(lp.iter)
        if not (isinstance(src, ast.Name) and src.id == 'lookups'):
            continue
        names = [e.id for e in lp.target.elts if isinstance(e, ast.Name)]
        if len(names) != 2:
            continue
        comp, k = names
        dels = find_all(lp, 'del %s[%s]' % (comp, k), 'exec')
        if not dels:
            detail = 'no `del comp[k]` in the pruning loop'
            continue
        okd = True
        for dl, _ in dels:
            g = dl.parent
            if not isinstance(g, ast.If):
                okd = False
                detail = '`del %s[%s]` is not guarded by an emptiness test' % (comp, k)
                continue
            # forms: if d: break / else: del   |  if not d: del / else: break
            tv = g.test
            inner = None
            if isinstance(tv, ast.UnaryOp) and isinstance(tv.op, ast.Not):
                inner, branch, other = tv.operand, g.body, g.orelse
            else:
                inner, branch, other = tv, g.orelse, g.body
            val = inner
            if isinstance(inner, ast.Name):
                defs = [n.value for n in walk_local(lp) if isinstance(n, ast.Assign)
                        and isinstance(n.targets[0], ast.Name)
                        and n.targets[0].id == inner.id]
                val = defs[0] if len(defs) == 1 else inner
            guard_ok = match('%s[%s]' % (comp, k), val) is not None
            in_branch = dl in branch
            stops = any(isinstance(s, ast.Break) for s in other)
            if not (guard_ok and in_branch and stops):
                okd = False
                detail = ('`del %s[%s]`: guarded by emptiness of %s (%s), in the '
                          'empty branch (%s), non-empty branch stops the loop (%s)'
                          % (comp, k, norm_src(val), guard_ok, in_branch, stops))
        okdir = d == 'rev'
        if okd and not okdir:
            detail = 'pruning loop runs %s over the descent (required leaf -> root)' % d
        # the pruning only happens once the leaf container is empty
        p = lp.parent
        leafguard = isinstance(p, ast.If) and lp in p.body and (
            match('not components', p.test) is not None or
            match('new', p.test) is not None and lp in p.orelse) or \
            (isinstance(p, ast.If) and lp in p.orelse and
             match('new', p.test) is not None)
        if okd and okdir and not leafguard:
            detail = 'pruning is not conditional on the leaf container being empty'
        ok = okd and okdir and leafguard
        if ok:
            detail = ('emptied containers are removed leaf -> root, each only '
                      'if empty, stopping at the first non-empty one')
    rep.check(rule, site, ok, detail, construct='prune', node=f)
    # trailing orders
    wl = [n for n in walk_local(f) if isinstance(n, ast.While)]
    okw = False
    for w in wl:
        if match('byorder and not byorder[-1]', w.test) is not None and \
                len(w.body) == 1 and match('del byorder[-1]', w.body[0], 'exec') is not None:
            okw = True
    rep.check(rule, site, okw,
              'trailing per-order mappings are dropped only while empty',
              construct='trailing', node=f)


def run(rep):
    repo = rep.repo
    mod = repo.module('adapter.py')
    table = ClassTable(repo, ['adapter.py'])
    rep.rule('R09.1', 'comparison kinds: register() skips only when the stored '
             'value IS the new value; unregister(value=...) removes only when '
             'the stored value IS the given one; subscribed() is a membership '
             'test; (equality for subscriber removal: R07.2)', floor=3)
    rep.rule('R09.2', 'key construction agreement of register/_find_leaf/'
             'unregister/subscribe/unsubscribe and name normalisation', floor=9)
    rep.rule('R09.3', 'pruning: containers are deleted only when empty, leaf '
             'to root, stopping at the first non-empty one', floor=4)
    rep.rule('R09.4', 'rebuild: both iterators are started (buffered) before '
             'the storage is replaced; afterwards every registration is '
             're-registered and every subscription re-subscribed', floor=3)
    rep.rule('R09.5', 'depth agreement between the writers (order + 1 nested '
             'mappings, then the name) and the enumerators (_allKeys depth, '
             'key slices)', floor=5)
    rep.rule('R09.6', 'leaf writes: register stores components[name] = value '
             'and counts once; unregister deletes exactly that entry; '
             'registered()/subscribed() read through _find_leaf', floor=6)
    rep.rule('R09.7', 'every storage write is followed by changed() (lookups '
             'see the new bookkeeping)', floor=8)
    rep.decline('that replaying allRegistrations()/allSubscriptions() or '
                'rebuild() yields an equivalent registry for every history')

    reg = find_def(mod, 'BaseAdapterRegistry.register')
    unreg = find_def(mod, 'BaseAdapterRegistry.unregister')
    sub = find_def(mod, 'BaseAdapterRegistry.subscribe')
    unsub = find_def(mod, 'BaseAdapterRegistry.unsubscribe')
    fl = find_def(mod, 'BaseAdapterRegistry._find_leaf')

    # ---- R09.1 --------------------------------------------------------------
    cands = []
    for n in walk_local(reg):
        if isinstance(n, ast.If) and any(isinstance(s, ast.Return) for s in n.body) \
                and isinstance(n.test, ast.Compare) and len(n.test.ops) == 1:
            l, r = n.test.left, n.test.comparators[0]
            sides = [l, r]
            if not any(isinstance(x, ast.Name) and x.id == 'value' for x in sides):
                continue
            other = [x for x in sides if not (isinstance(x, ast.Name)
                                              and x.id == 'value')]
            if len(other) != 1:
                continue
            o = other[0]
            if isinstance(o, ast.Constant):
                continue            # `value is None`
            ov = resolve_local(reg, o) if isinstance(o, ast.Name) else o
            if match('components.get(name)', ov) is not None:
                cands.append((n, type(n.test.ops[0]).__name__))
    ok = len(cands) == 1 and cands[0][1] == 'Is'
    rep.check('R09.1', 'BaseAdapterRegistry.register', ok,
              'no-op guard compares the stored value with the new one by %s '
              '(required: identity, `is`): %s'
              % ([c[1] for c in cands], [norm_src(c[0].test) for c in cands]),
              construct='same-value', node=reg)
    ifs = [n for n in walk_local(unreg) if isinstance(n, ast.If)
           and any(isinstance(s, ast.Return) for s in n.body)
           and 'value' in names_in(n.test)]
    ok = len(ifs) == 1 and (
        match('value is not None and old is not value', ifs[0].test) is not None)
    if ok:
        old = resolve_local(unreg, ast.Name(id='old', ctx=ast.Load()))
        ok = match('components.get(name)', old) is not None
    rep.check('R09.1', 'BaseAdapterRegistry.unregister', ok,
              'value filter: `%s` (required identity: value is not None and '
              'old is not value, old = components.get(name))'
              % (norm_src(ifs[0].test) if ifs else 'missing'),
              construct='value-filter', node=unreg)
    sd = find_def(mod, 'BaseAdapterRegistry.subscribed')
    rets = [n for n in walk_local(sd) if isinstance(n, ast.Return)]
    ok = len(rets) == 1 and match(
        'subscriber if subscriber in subscribers else None', rets[0].value) is not None
    rep.check('R09.1', 'BaseAdapterRegistry.subscribed', ok,
              'returns %s' % [norm_src(r.value) for r in rets],
              construct='membership', node=sd)

    # ---- R09.2 --------------------------------------------------------------
    for f, storage in ((reg, '_adapters'), (fl, None), (unreg, '_adapters'),
                       (sub, '_subscribers'), (unsub, '_subscribers')):
        ok, detail = shared.descent_ok(f, storage or '_adapters')
        rep.check('R09.2', 'BaseAdapterRegistry.' + f.name, ok, detail,
                  construct='descent', node=f)
        ok, detail = shared.required_normalised(f)
        rep.check('R09.2', 'BaseAdapterRegistry.' + f.name, ok, detail,
                  construct='normalise', node=f)
    # names
    nm = [n for n in walk_local(reg) if isinstance(n, ast.Assign)
          and match('name = $v', n, 'exec') is not None]
    ok = len(nm) == 1 and match('_normalize_name(name)', nm[0].value) is not None
    rep.check('R09.2', 'BaseAdapterRegistry.register', ok,
              'name = _normalize_name(name)', construct='name', node=reg)
    rd = find_def(mod, 'BaseAdapterRegistry.registered')
    rets = [n for n in walk_local(rd) if isinstance(n, ast.Return)]
    ok = len(rets) == 1 and match(
        'self._find_leaf(self._adapters, required, provided, _normalize_name(name))',
        rets[0].value) is not None
    rep.check('R09.2', 'BaseAdapterRegistry.registered', ok,
              'returns %s' % [norm_src(r.value) for r in rets],
              construct='find', node=rd)
    sl = resolve_local(sd, ast.Name(id='subscribers', ctx=ast.Load()))
    ok = match("self._find_leaf(self._subscribers, required, provided, '') or ()",
               sl) is not None
    rep.check('R09.2', 'BaseAdapterRegistry.subscribed', ok,
              'subscribers = %s' % norm_src(sl), construct='find', node=sd)
    nm = resolve_local(sub, ast.Name(id='name', ctx=ast.Load()))
    rep.check('R09.2', 'BaseAdapterRegistry.subscribe',
              match("''", nm) is not None,
              'subscribers are stored under the name %s' % norm_src(nm),
              construct='name', node=sub)
    # _find_leaf returns the leaf of the name or None on any missing level
    rets = [n for n in walk_local(fl) if isinstance(n, ast.Return)]
    vals = sorted(norm_src(r.value) for r in rets)
    rep.check('R09.2', 'BaseAdapterRegistry._find_leaf',
              vals == ['None', 'None', 'components.get(name)'],
              'returns %s' % vals, construct='returns', node=fl)

    # ---- R09.3 --------------------------------------------------------------
    prune_guard(rep, 'R09.3', unreg, 'BaseAdapterRegistry.unregister')
    prune_guard(rep, 'R09.3', unsub, 'BaseAdapterRegistry.unsubscribe')

    # ---- R09.4 --------------------------------------------------------------
    rb = find_def(mod, 'BaseAdapterRegistry.rebuild')
    cfg = cfg_of(rb)
    initn = nodes_with(cfg, 'self.__init__($$a)')
    ok = len(initn) == 1
    detail = 'self.__init__ calls: %d' % len(initn)
    if ok:
        init = initn[0]
        # nested buffer helper
        helpers = [n for n in rb.body if isinstance(n, ast.FunctionDef)]
        buf = None
        for h in helpers:
            if find_all(h, 'next($it)'):
                buf = h
        okb = buf is not None
        if okb:
            hp = [a.arg for a in buf.args.args][0]
            # returns chain((first,), it) or iter(()) on StopIteration
            rr = [norm_src(r.value) for r in walk_local(buf)
                  if isinstance(r, ast.Return)]
            okb = sorted(rr) == sorted(['iter(())',
                                        'itertools.chain((first,), %s)' % hp]) and \
                bool(find_all(buf, 'first = next(%s)' % hp, 'exec'))
        started = {}
        for kind, src in (('registrations', 'self.allRegistrations()'),
                          ('subscriptions', 'self.allSubscriptions()')):
            a = nodes_with(cfg, '%s = %s' % (kind, src), 'exec')
            b = nodes_with(cfg, '%s = %s(%s)' % (kind, buf.name if buf else 'buffer', kind), 'exec')
            started[kind] = bool(a) and bool(b) and \
                all(cfg.dominated_by(init, lambda n, x=x: n is x) for x in a + b) and \
                all(cfg.dominated_by(x, lambda n, y=a[0]: n is y) for x in b)
        ok = okb and all(started.values())
        detail = ('buffer helper starts the generator (%s); both iterators '
                  'created and buffered before self.__init__: %s' % (okb, started))
    rep.check('R09.4', 'BaseAdapterRegistry.rebuild', ok, detail,
              construct='buffer-before-init', node=rb)
    if initn:
        c = find_all(header_expr(initn[0]), 'self.__init__($$a)')[0]
        rep.check('R09.4', 'BaseAdapterRegistry.rebuild',
                  match('self.__init__(self.__bases__)', c[0]) is not None,
                  're-initialises with the current bases: %s' % norm_src(c[0]),
                  construct='init-args', node=rb)
    okl = True
    dl = []
    for kind, call in (('registrations', 'self.register(*VAR)'),
                       ('subscriptions', 'self.subscribe(*VAR)')):
        lps = [lp for lp in walk_local(rb) if isinstance(lp, ast.For)
               and isinstance(lp.iter, ast.Name) and lp.iter.id == kind]
        good = False
        for lp in lps:
            v = lp.target.id if isinstance(lp.target, ast.Name) else '_'
            cs = find_all(lp, call.replace('VAR', v))
            exits = [n for n in walk_local(lp) if isinstance(
                n, (ast.Break, ast.Return, ast.Continue))]
            after = initn and cfg.node_of(lp).id in cfg.reach(initn[0])
            good = bool(cs) and not exits and bool(after) and \
                isinstance(cs[0][0].parent, ast.Expr) and cs[0][0].parent.parent is lp
        dl.append((kind, good))
        okl = okl and good
    rep.check('R09.4', 'BaseAdapterRegistry.rebuild', okl,
              'after re-initialisation every buffered entry is replayed: %s' % dl,
              construct='replay', node=rb)

    # ---- R09.5 --------------------------------------------------------------
    ak = find_def(mod, 'BaseAdapterRegistry._allKeys')
    ps = shared.params(ak)
    rep.require(len(ps) == 4, '_allKeys signature %s' % ps)
    comp, i_n, pk = ps[1], ps[2], ps[3]
    ifs = [n for n in ak.body if isinstance(n, ast.If)]
    ok = len(ifs) == 1 and match('%s == 0' % i_n, ifs[0].test) is not None
    if ok:
        base, recur = ifs[0].body, ifs[0].orelse
        okb = any(find_all(s, 'yield (%s + ($k,), $v)' % pk, 'exec') or
                  find_all(s, 'yield %s + ($k,), $v' % pk, 'exec')
                  for s in base)
        okr = any(find_all(s, '%s._allKeys($v, %s - 1, $npk)' % (ps[0], i_n))
                  for s in recur)
        npk = [e for s in recur for c, e in find_all(
            s, '%s._allKeys($v, %s - 1, $npk)' % (ps[0], i_n))]
        oknpk = bool(npk) and match('%s + ($k,)' % pk, resolve_local(
            ak, npk[0]['npk'])) is not None
        ok = okb and okr and oknpk
    rep.check('R09.5', 'BaseAdapterRegistry._allKeys', ok,
              'depth i yields keys of length i + 1 (base case at i == 0, '
              'recursion with i - 1 extending the parent key)', construct='depth',
              node=ak)
    ae = find_def(mod, 'BaseAdapterRegistry._all_entries')
    lps = [lp for lp in walk_local(ae) if isinstance(lp, ast.For)
           and match('enumerate(byorder)', lp.iter) is not None]
    ok = len(lps) == 1
    detail = 'enumerate(byorder) loops: %d' % len(lps)
    if ok:
        lp = lps[0]
        iv = lp.target.elts[0].id
        cv = lp.target.elts[1].id
        okk = bool(find_all(lp, 'self._allKeys(%s, %s + 1)' % (cv, iv)))
        oks = bool(find_all(lp, 'required = key[:%s]' % iv, 'exec')) and \
            bool(find_all(lp, 'provided = key[-2]', 'exec')) and \
            bool(find_all(lp, 'name = key[-1]', 'exec'))
        oky = bool(find_all(lp, 'yield (required, provided, name, value)', 'exec'))
        ok = okk and oks and oky
        detail = ('order i: _allKeys(components, i + 1) (keys of length i + 2); '
                  'required = key[:i], provided = key[-2], name = key[-1] '
                  '(keys %s, slices %s, yield %s)' % (okk, oks, oky))
    rep.check('R09.5', 'BaseAdapterRegistry._all_entries', ok, detail,
              construct='slices', node=ae)
    ar = find_def(mod, 'BaseAdapterRegistry.allRegistrations')
    rep.check('R09.5', 'BaseAdapterRegistry.allRegistrations',
              bool(find_all(ar, 'yield from self._all_entries(self._adapters)', 'exec')),
              'enumerates self._adapters', construct='source', node=ar)
    asub = find_def(mod, 'BaseAdapterRegistry.allSubscriptions')
    lps = [lp for lp in walk_local(asub) if isinstance(lp, ast.For)
           and match('self._all_entries(self._subscribers)', lp.iter) is not None]
    ok = len(lps) == 1
    if ok:
        inner = [n for n in walk_local(lps[0]) if isinstance(n, ast.For)
                 and n is not lps[0]]
        ok = len(inner) == 1 and isinstance(inner[0].iter, ast.Name) and \
            bool(find_all(inner[0], 'yield (required, provided, %s)'
                          % inner[0].target.id, 'exec')) and \
            iter_polarity(inner[0].iter)[1] == 'fwd'
        tg = [e.id for e in lps[0].target.elts if isinstance(e, ast.Name)]
        ok = ok and len(tg) == 4 and tg[0] == 'required' and tg[1] == 'provided' \
            and inner[0].iter.id == tg[3]
    rep.check('R09.5', 'BaseAdapterRegistry.allSubscriptions', ok,
              'yields (required, provided, v) for every v of every leaf of '
              'self._subscribers, in stored order', construct='source', node=asub)
    # writers nest order + 1 levels: descent over required + (provided,) where
    # order = len(required)  (R09.2) -- recorded as one obligation here
    rep.check('R09.5', 'BaseAdapterRegistry.register',
              shared.descent_ok(reg, '_adapters')[0],
              'writer descends len(required) + 1 levels before the name level',
              construct='writer-depth', node=reg)

    # ---- R09.6 --------------------------------------------------------------
    st = find_all(reg, 'components[name] = value', 'exec')
    rep.check('R09.6', 'BaseAdapterRegistry.register', len(st) == 1,
              'stores components[name] = value (%d)' % len(st),
              construct='leaf-store', node=reg)
    from .C07 import extendor_transitions
    extendor_transitions(rep, 'R09.6', mod, 'register', 'add')
    extendor_transitions(rep, 'R09.6', mod, 'unregister', 'remove')
    dl = find_all(unreg, 'del components[name]', 'exec')
    rep.check('R09.6', 'BaseAdapterRegistry.unregister', len(dl) == 1,
              'deletes exactly components[name] (%d)' % len(dl),
              construct='leaf-delete', node=unreg)
    # nothing written before the miss returns of unregister
    cfg = cfg_of(unreg)
    writes, D = shared.content_writes(unreg, ('_adapters', '_provided'))
    wn = [cfg.node_of(w) for w, k, c, v in writes]
    rets = [n for n in cfg.nodes if isinstance(n.ast, ast.Return)]
    bad = []
    for r in rets:
        back = cfg.reach(r, forward=False)
        if any(w.id in back for w in wn):
            bad.append(norm_src(r.ast))
    rep.check('R09.6', 'BaseAdapterRegistry.unregister', not bad,
              'the miss returns happen before any storage write (%s)' % bad,
              construct='miss-no-write', node=unreg)
    # register(value=None) delegates to unregister
    ifs = [n for n in reg.body if isinstance(n, ast.If)
           and match('value is None', n.test) is not None]
    ok = len(ifs) == 1 and bool(find_all(
        ifs[0], 'self.unregister(required, provided, name, value)')) and \
        any(isinstance(s, ast.Return) for s in ifs[0].body)
    rep.check('R09.6', 'BaseAdapterRegistry.register', ok,
              'register(..., None) unregisters', construct='none-unregisters',
              node=reg)

    # ---- R09.7 --------------------------------------------------------------
    from .C05 import inv1
    inv1(rep, mod, table, rule='R09.7')
