"""C13 - specifications pickle by reference and unpickle to the equivalent
live object."""
import ast

from ..core import AnalysisError, norm_src
from ..pyfront import (find_def, find_all, match, walk_local, methods_of, dotted,
                       class_attr_assign, FUNC, qualname)
from ..flowq import (resolve_local, pred_of, any_pred, reaching_defs, def_value)
from ..cfg import cfg_of, header_expr
from . import shared


def reduce_defs(mod):
    out = []
    for cls in ast.walk(mod):
        if isinstance(cls, ast.ClassDef):
            m = methods_of(cls).get('__reduce__')
            if m is not None:
                out.append((cls, m))
    return out


def run(rep):
    repo = rep.repo
    imod = repo.module('interface.py')
    dmod = repo.module('declarations.py')
    rep.rule('R13.1', 'reduce forms are references: a global name, or '
             '(module-level callable, fields holding classes/interfaces) - '
             'never attribute tables, docs or computed bases', floor=5)
    rep.rule('R13.2', 'constructor-argument capture: the reduced arguments are '
             'the constructor\'s own (normalised) arguments, recorded once, and '
             'the reduce callable accepts them in that order', floor=4)
    rep.rule('R13.3', 'reduce inverse for class specifications: '
             'implementedBy(<reduced reference>) is the specification itself in '
             'every reachable state: every site that installs a specification '
             'records the reference, nothing clears it, and the fallback is '
             'chosen by identity (is None), not truthiness', floor=4)
    rep.decline('equality of the provided sets after a real round trip for '
                'every declaration shape and pickle protocol (round-trip over '
                'runtime values)')

    # ---- R13.1 -------------------------------------------------------------------
    reds = reduce_defs(imod) + reduce_defs(dmod)
    seen = set()
    for cls, m in reds:
        name = cls.name
        if name == 'Components':
            continue
        seen.add(name)
        rets = [r.value for r in walk_local(m) if isinstance(r, ast.Return)]
        site = '%s.__reduce__' % name
        ok = len(rets) == 1
        detail = 'returns: %d' % len(rets)
        if ok:
            v = rets[0]
            if name == 'InterfaceClass':
                ok = match('self.__name__', v) is not None
                detail = 'an interface pickles as its global name: %s' % norm_src(v)
            elif name == '_ImmutableDeclaration':
                ok = isinstance(v, ast.Constant) and v.value == '_empty'
                glob = [n for n in dmod.body if isinstance(n, ast.Assign)
                        and match('_empty = _ImmutableDeclaration()', n, 'exec') is not None]
                ok = ok and len(glob) == 1
                detail = 'the empty declaration pickles as the global `_empty`, ' \
                    'which is bound to the singleton (%s)' % (len(glob) == 1)
            elif isinstance(v, ast.Tuple) and len(v.elts) == 2:
                fn, args = v.elts
                okfn = dotted(fn) in ('implementedBy', 'Provides', 'self.__class__')
                okargs = True
                if isinstance(args, ast.Tuple):
                    for a in args.elts:
                        a2 = resolve_local(m, a) if isinstance(a, ast.Name) else a
                        okargs = okargs and (
                            isinstance(a2, ast.Attribute) or isinstance(a2, ast.Name)
                            or isinstance(a2, ast.IfExp))
                else:
                    okargs = match('self.__args', args) is not None
                bad = [n for n in ast.walk(v) if isinstance(n, ast.Attribute)
                       and n.attr in ('__bases__', '_bases', '__doc__', '__dict__',
                                      '__iro__', '__sro__', '_implied')]
                ok = okfn and okargs and not bad
                detail = ('(%s, %s): callable is a module-level reference (%s), '
                          'arguments are recorded classes/interfaces (%s), no '
                          'definition data (%s)' % (norm_src(fn), norm_src(args)[:60],
                                                    okfn, okargs, [norm_src(b) for b in bad]))
            else:
                ok = False
                detail = 'unexpected reduce value `%s`' % norm_src(v)[:80]
        rep.check('R13.1', site, ok, detail, construct='form', node=m)
    rep.require({'InterfaceClass', 'Implements', 'Provides', 'ClassProvides',
                 '_ImmutableDeclaration'} <= seen,
                '__reduce__ definitions found: %s' % sorted(seen))

    # ---- R13.2 -------------------------------------------------------------------
    pcls = [n for n in dmod.body if isinstance(n, ast.ClassDef) and n.name == 'Provides'][0]
    cp = find_def(dmod, 'ClassProvides')
    for cls, site, want, params in (
            (pcls, 'ProvidesClass', '(cls,) + interfaces', ['self', 'cls']),
            (cp, 'ClassProvides', '(cls, metacls) + interfaces', ['self', 'cls', 'metacls'])):
        init = methods_of(cls)['__init__']
        ws = [n for n in ast.walk(cls) if isinstance(n, (ast.Assign, ast.AugAssign))
              and any(isinstance(t, ast.Attribute) and t.attr.endswith('__args')
                      for t in (n.targets if isinstance(n, ast.Assign) else [n.target]))]
        ok = len(ws) == 1 and ws[0] in init.body and \
            match(want, ws[0].value) is not None and \
            shared.params(init) == params and init.args.vararg is not None and \
            init.args.vararg.arg == 'interfaces'
        rep.check('R13.2', site + '.__init__', ok,
                  'self.__args = %s recorded once from the constructor\'s own '
                  'parameters %s + *interfaces' % (norm_src(ws[0].value) if ws else '?',
                                                   params[1:]),
                  construct='capture', node=init)
        red = methods_of(cls)['__reduce__']
        rets = [r.value for r in walk_local(red) if isinstance(r, ast.Return)]
        okr = len(rets) == 1 and isinstance(rets[0], ast.Tuple) and \
            match('self.__args', rets[0].elts[1]) is not None
        rep.check('R13.2', site + '.__reduce__', okr,
                  'reduces to the recorded constructor arguments (not to the '
                  'effective, elided bases): %s' % [norm_src(r)[:70] for r in rets],
                  construct='args', node=red)
    # the factory function accepts them in that order
    pf = None
    for n in dmod.body:
        if isinstance(n, ast.FunctionDef) and n.name == 'Provides':
            pf = n
    rep.require(pf is not None, 'factory function Provides vanished')
    ok = pf.args.vararg is not None and not pf.args.args and \
        bool(find_all(pf, 'ProvidesClass(*%s)' % pf.args.vararg.arg))
    rep.check('R13.2', 'declarations.Provides', ok,
              'Provides(*args) rebuilds ProvidesClass(*args) (through the '
              'shared-declaration memo)', construct='factory', node=pf)
    # callers record normalised interfaces
    d = find_def(dmod, 'directlyProvides')
    nm = [n for n in d.body if isinstance(n, ast.Assign)
          and match('interfaces = _normalizeargs(interfaces)', n, 'exec') is not None]
    ctor = find_all(d, 'ClassProvides(object, cls, *interfaces)') + \
        find_all(d, 'Provides(cls, *interfaces)')
    cfg = cfg_of(d)
    okn = len(nm) == 1 and len(ctor) == 2 and all(
        cfg.dominated_by(cfg.node_of(c), lambda n: n.ast is nm[0]) for c, _ in ctor)
    rep.check('R13.2', 'declarations.directlyProvides', okn,
              'both declaration constructors receive the normalised '
              '(flattened) interfaces, so only interfaces are recorded for '
              'pickling', construct='normalised-args', node=d)

    # ---- R13.3 -------------------------------------------------------------------
    imp = find_def(dmod, 'Implements')
    red = methods_of(imp)['__reduce__']
    rets = [r.value for r in walk_local(red) if isinstance(r, ast.Return)]
    ref_fields = []
    ok = len(rets) == 1 and isinstance(rets[0], ast.Tuple) and \
        dotted(rets[0].elts[0]) == 'implementedBy'
    form = 'unknown'
    if ok:
        arg = rets[0].elts[1]
        a0 = arg.elts[0] if isinstance(arg, ast.Tuple) and len(arg.elts) == 1 else None
        if a0 is not None and match('self.inherit', a0) is not None:
            form = 'inherit'
            ref_fields = ['inherit']
        elif a0 is not None and isinstance(a0, ast.Name):
            # ob = self._spec_of; if ob is None: ob = self.inherit
            cfg = cfg_of(red)
            defs = [n for n in walk_local(red) if isinstance(n, ast.Assign)
                    and isinstance(n.targets[0], ast.Name) and n.targets[0].id == a0.id]
            prim = [d for d in defs if match('self._spec_of', d.value) is not None]
            fb = [d for d in defs if match('self.inherit', d.value) is not None]
            okfb = len(prim) == 1 and len(fb) == 1 and isinstance(fb[0].parent, ast.If) \
                and match('%s is None' % a0.id, fb[0].parent.test) is not None
            if okfb:
                form = 'spec_of-else-inherit'
                ref_fields = ['_spec_of']
            else:
                form = 'other: %s' % [norm_src(d) for d in defs]
                if len(prim) == 1 and len(fb) == 1:
                    form = ('fallback not selected by identity: `%s`'
                            % (norm_src(fb[0].parent.test)
                               if isinstance(fb[0].parent, ast.If) else norm_src(fb[0])))
        elif a0 is not None and isinstance(a0, (ast.BoolOp, ast.IfExp)):
            form = 'fallback selected by truthiness: `%s` (a falsy class, e.g. ' \
                'one whose metaclass defines __len__/__bool__, pickles as ' \
                'implementedBy(None))' % norm_src(a0)
    rep.check('R13.3', 'Implements.__reduce__',
              ok and form in ('inherit', 'spec_of-else-inherit'),
              'reduces to (implementedBy, (<reference>,)); reference form: %s' % form,
              construct='reference', node=red)
    # installers
    installs = []
    for f in ast.walk(dmod):
        if not isinstance(f, FUNC):
            continue
        for st in walk_local(f):
            if isinstance(st, ast.Assign):
                for t in st.targets:
                    if isinstance(t, ast.Attribute) and t.attr == '__implemented__' \
                            and isinstance(st.value, ast.Name):
                        installs.append((f, st, t.value, st.value.id))
                    if isinstance(t, ast.Subscript) and \
                            dotted(t.value) == 'BuiltinImplementationSpecifications' \
                            and isinstance(st.value, ast.Name):
                        installs.append((f, st, t.slice, st.value.id))
    rep.require(len(installs) >= 3, 'installation sites found: %d' % len(installs))
    primary = ref_fields[0] if ref_fields else 'inherit'
    for f, st, owner, specvar in installs:
        cfg = cfg_of(f)
        node = cfg.node_of(st)
        want = '%s.%s = %s' % (specvar, primary, norm_src(owner))
        setp = pred_of(want, 'exec')
        ok = cfg.dominated_by(node, setp)
        # and not overwritten with something else in between
        other = [n for n in cfg.nodes if isinstance(n.ast, ast.Assign) and any(
            isinstance(t, ast.Attribute) and t.attr == primary and
            isinstance(t.value, ast.Name) and t.value.id == specvar
            for t in n.ast.targets) and not setp(n)]
        clobber = [norm_src(n.ast) for n in other
                   if node.id in cfg.reach(n) and any(
                       n.id in cfg.reach(s) for s in cfg.nodes
                       if s.ast is not None and setp(s))]
        if primary == 'inherit':
            # every path must carry inherit = owner (no branch storing None)
            bad = [norm_src(n.ast) for n in other if node.id in cfg.reach(n)]
            ok = ok and not bad
            clobber = bad
        rep.check('R13.3', qualname(f), ok and not clobber,
                  'installing `%s` as the specification of `%s` is dominated by '
                  '`%s` (%s); overwritten by %s' % (specvar, norm_src(owner), want, ok,
                                                    clobber),
                  construct='install:%s' % norm_src(st.targets[0])[:40], node=st)
    # no other writer of the primary reference field clears it
    writers = []
    for f in ast.walk(dmod):
        if not isinstance(f, FUNC):
            continue
        for st in walk_local(f):
            if isinstance(st, ast.Assign):
                for t in st.targets:
                    if isinstance(t, ast.Attribute) and t.attr == primary and \
                            not (isinstance(t.value, ast.Name) and t.value.id == 'self'
                                 and qualname(f).endswith('__init__')):
                        writers.append((f, st))
    bad = []
    for f, st in writers:
        v = st.value
        if isinstance(v, ast.Constant) and v.value is None:
            bad.append('%s: %s' % (qualname(f), norm_src(st)))
        if qualname(f) == '_implementedBy_super':
            continue
    rep.check('R13.3', 'writers of Implements.%s' % primary, not bad,
              'no function clears the pickle reference of a live class '
              'specification (writers: %s; clearing: %s)'
              % (sorted({qualname(f) for f, st in writers}), bad),
              construct='no-clear', node=imp)
