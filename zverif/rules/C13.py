"""C13 - specifications pickle by reference and unpickle to the equivalent
live object."""
import ast

from ..core import AnalysisError, norm_src
from ..pyfront import (find_def, find_all, match, walk_local, methods_of, dotted,
                       class_attr_assign, FUNC, qualname)
from ..flowq import (resolve_local, pred_of, any_pred, reaching_defs, def_value)
from ..cfg import cfg_of, header_expr
from . import shared


def run(rep):
    repo = rep.repo
    imod = repo.module('interface.py')
    dmod = repo.module('declarations.py')
    rep.rule('R13.1', 'reduce forms are references: a global name, or '
             '(module-level callable, fields holding classes/interfaces) - '
             'never attribute tables, docs or computed bases', floor=5)
    rep.rule('R13.2', 'constructor-argument capture: the reduced arguments are '
             'the constructor\'s own (normalised) arguments, recorded once, and '
             'the reduce callable accepts them in that order', floor=4)
    rep.rule('R13.3', 'reduce inverse for class specifications: '
             'implementedBy(<reduced reference>) is the specification itself in '
             'every reachable state: every site that installs a specification '
             'records the reference, nothing clears it, and the fallback is '
             'chosen by identity (is None), not truthiness', floor=4)
    rep.rule('R13.4', 'the live object stays what its pickle names: a pickle carries only '
             'references, so the unpickled object is recomputed from the current '
             'declarations - the live one agrees only if every override of changed() in '
             'the declaration classes still runs the inherited recomputation on every '
             'path (C02 R02.4)', floor=2)
    rep.decline('equality of the provided sets after a real round trip for '
                'every declaration shape and pickle protocol (round-trip over '
                'runtime values)')

    from . import picklesem
    picklesem.reduce_forms(rep, imod, dmod, 'R13.1')
    picklesem.ctor_capture(rep, dmod, 'R13.2')
    picklesem.reduce_reference(rep, dmod, 'R13.3')
    from .C02 import r02_4
    r02_4(rep, repo, rule='R13.4')
