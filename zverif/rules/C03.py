"""C03 - resolution orders are valid linearizations and equal C3 whenever
C3 exists.  Decided: the merge-before-read typestate of the inconsistency
flag, strict/non-strict dispatch, the shape of the C3 head selection and of
the base tree, root-last / iro filter.  Declined: that the merge result is
the C3 linearization for every DAG."""
import ast

from ..core import AnalysisError, norm_src
from ..pyfront import (find_def, find_all, match, walk_local, dotted, same,
                       calls_in, names_in, methods_of, FUNC, qualname)
from ..flowq import (iter_polarity, resolve_local, loops_over, pred_of,
                     witness_path, nodes_with, any_pred)
from ..cfg import cfg_of, header_expr
from . import shared

FLAGS = ('had_inconsistency', 'direct_inconsistency', 'bases_had_inconsistency')


def all_funcs(mod):
    for n in ast.walk(mod):
        if isinstance(n, FUNC):
            yield n


def r03_1(rep, mod):
    """Every read of the inconsistency flags on a resolver obtained in the
    same function is dominated by .mro() on that resolver."""
    c3 = find_def(mod, 'C3')
    own = set(id(m) for m in ast.walk(c3) if isinstance(m, FUNC))
    # typestate facts: who writes direct_inconsistency, who reaches it
    writers = []
    for f in all_funcs(mod):
        for n in walk_local(f):
            if isinstance(n, ast.Assign) and any(
                    isinstance(t, ast.Attribute) and t.attr == 'direct_inconsistency'
                    for t in n.targets):
                writers.append(f)
    wnames = sorted({w.name for w in writers})
    rep.check('R03.1', 'C3._guess_next_base', wnames == ['_guess_next_base'],
              'direct_inconsistency is written only in _guess_next_base: %s' % wnames,
              construct='writer', node=c3)
    # call chain mro -> _merge -> _choose_next_base -> _guess_next_base
    def callers(name):
        out = set()
        for f in all_funcs(mod):
            for c in walk_local(f):
                if isinstance(c, ast.Call) and isinstance(c.func, ast.Attribute) \
                        and c.func.attr == name:
                    out.add(f.name)
        return out
    chain = {'_guess_next_base': callers('_guess_next_base'),
             '_choose_next_base': callers('_choose_next_base'),
             '_merge': callers('_merge')}
    ok = chain['_guess_next_base'] <= {'_choose_next_base', '_guess_next_base'} and \
        chain['_choose_next_base'] == {'_merge'} and chain['_merge'] == {'mro'}
    rep.check('R03.1', 'C3.mro', ok,
              'the flag can only be set through mro() -> _merge -> '
              '_choose_next_base -> _guess_next_base (callers: %s)' % {
                  k: sorted(v) for k, v in chain.items()},
              construct='typestate', node=c3)
    # reads outside the resolver's own methods
    sites = 0
    for f in all_funcs(mod):
        if id(f) in own and f.name != '__init__':
            continue
        reads = [n for n in walk_local(f) if isinstance(n, ast.Attribute)
                 and n.attr in ('had_inconsistency', 'direct_inconsistency')
                 and isinstance(n.ctx, ast.Load)]
        if not reads:
            continue
        cfg = cfg_of(f)
        qn = qualname(f)
        for r in reads:
            recv = r.value
            if isinstance(recv, ast.Name) and recv.id == 'self':
                continue
            if qn.startswith('_ROComparison'):
                # reporting helper handed an already merged resolver by ro()
                continue
            sites += 1
            if isinstance(recv, ast.Name):
                # comprehension variable over a collection of resolvers
                comp = None
                p = r
                while p is not None and p is not f:
                    if isinstance(p, (ast.GeneratorExp, ast.ListComp, ast.SetComp)):
                        comp = p
                    p = p.parent
                node = cfg.node_of(r)
                if comp is not None and any(
                        isinstance(g.target, ast.Name) and g.target.id == recv.id
                        for g in comp.generators):
                    # C3.__init__: base resolvers; their mro() must have been
                    # taken before (the base_tree statement)
                    pm = pred_of('$m.mro()')
                    ok = cfg.dominated_by(node, pm)
                    detail = ('flags of the base resolvers are read after their '
                              'mro() was computed (base_tree): %s' % ok)
                else:
                    pm = pred_of('%s.mro()' % recv.id)
                    ok = cfg.dominated_by(node, pm)
                    detail = ('`%s.%s` is read only after `%s.mro()` ran the merge'
                              % (recv.id, r.attr, recv.id)) if ok else \
                        ('`%s.%s` is read on a path without `%s.mro()`: the flag '
                         'of a hierarchy whose own merge fails is still unset'
                         % (recv.id, r.attr, recv.id))
            else:
                ok = False
                detail = ('`%s` reads the flag of a freshly created resolver '
                          'that never merged' % norm_src(r)[:80])
            rep.check('R03.1', qn, ok, detail,
                      construct='read:%s' % r.attr, node=r)
    rep.require(sites >= 3, 'R03.1: only %d flag reads found' % sites)
    # is_consistent returns the negation of had_inconsistency
    f = find_def(mod, 'is_consistent')
    rets = [n for n in walk_local(f) if isinstance(n, ast.Return)]
    ok = len(rets) == 1 and match('not $r.had_inconsistency', rets[0].value) is not None
    if ok:
        r = match('not $r.had_inconsistency', rets[0].value)['r']
        rv = resolve_local(f, r)
        ok = match('C3.resolver($c, False, None)', rv) is not None or \
            match('C3.resolver($c, False, $b)', rv) is not None
    rep.check('R03.1', 'is_consistent', ok,
              'returns not <non-strict resolver of C>.had_inconsistency: %s'
              % [norm_src(r.value) for r in rets], construct='result', node=f)
    # the verdict needs the flag of every ancestor: orders supplied by the
    # caller become _StaticMRO entries whose flag is None ("unknown"), which
    # any() reads as "consistent"
    st = find_def(mod, '_StaticMRO')
    from ..pyfront import class_attr_assign
    unknown = class_attr_assign(st, 'had_inconsistency')
    tri = unknown is not None and norm_src(unknown) == 'None'
    okw = False
    supplied = 'no resolver'
    if ok:
        e = match('C3.resolver($c, $s, $b)', rv)
        if e is not None:
            b = resolve_local(f, e['b'])
            supplied = norm_src(b)
            okw = supplied in ('None', '{}', 'dict()') or not tri
    rep.check('R03.1', 'is_consistent', okw,
              'the whole tree is resolved (base_mros = %s): precomputed orders '
              'carry had_inconsistency = None, which would hide an inherited '
              'inconsistency' % supplied[:60], construct='whole-tree', node=f)


def no_normal_exit(func):
    cfg = cfg_of(func)
    return cfg.exit.id not in cfg.reach(cfg.entry)


def r03_2(rep, mod):
    f = find_def(mod, 'C3.resolver')
    ps = shared.params(f)
    st = [n for n in walk_local(f) if isinstance(n, ast.Assign)
          and match('strict = $v', n, 'exec') is not None]
    ok = len(st) == 1 and match('strict if strict is not None else C3.STRICT_IRO',
                                st[0].value) is not None
    ifs = [n for n in f.body if isinstance(n, ast.If) and match('strict', n.test) is not None]
    ok2 = len(ifs) == 1 and any(match('factory = _StrictC3', s, 'exec') is not None
                                for s in ifs[0].body)
    init = [n for n in f.body if match('factory = C3', n, 'exec') is not None]
    rets = [n for n in walk_local(f) if isinstance(n, ast.Return)]
    ok3 = len(rets) == 1 and match('factory(C, memo)', rets[0].value) is not None
    rep.check('R03.2', 'C3.resolver', ok and ok2 and bool(init) and ok3,
              'strict (default C3.STRICT_IRO) selects _StrictC3, else C3 / '
              '_TrackingC3 (default %s, dispatch %s, returns factory(C, memo) %s)'
              % (ok, ok2, ok3), construct='dispatch', node=f)
    s = find_def(mod, '_StrictC3._guess_next_base')
    raises = [n for n in walk_local(s) if isinstance(n, ast.Raise)]
    ok = no_normal_exit(s) and bool(raises) and all(
        r.exc is not None and match('InconsistentResolutionOrderError($$a)', r.exc)
        is not None for r in raises)
    rep.check('R03.2', '_StrictC3._guess_next_base', ok,
              'never returns: raises InconsistentResolutionOrderError',
              construct='strict-raises', node=s)
    g = find_def(mod, 'C3._guess_next_base')
    cfg = cfg_of(g)
    stp = pred_of('self.direct_inconsistency = InconsistentResolutionOrderError($$a)', 'exec')
    raises = [n for n in cfg.nodes if isinstance(n.ast, ast.Raise)]
    ok = no_normal_exit(g) and bool(raises) and all(
        match('self._UseLegacyRO', n.ast.exc) is not None and
        cfg.dominated_by(n, stp) for n in raises)
    rep.check('R03.2', 'C3._guess_next_base', ok,
              'records the inconsistency and then raises _UseLegacyRO on every path',
              construct='record-then-raise', node=g)
    t = find_def(mod, '_TrackingC3._guess_next_base')
    cfg = cfg_of(t)
    rets = [n for n in walk_local(t) if isinstance(n, ast.Return)]
    ok = len(rets) >= 1 and all(
        match('C3._guess_next_base(self, base_tree_remaining)', r.value) is not None
        for r in rets) and cfg.must_pass_after(
            cfg.entry, pred_of('C3._guess_next_base(self, base_tree_remaining)'))
    rep.check('R03.2', '_TrackingC3._guess_next_base', ok,
              'delegates to C3._guess_next_base on every path', construct='delegate',
              node=t)
    m = find_def(mod, 'C3._merge')
    trys = [n for n in walk_local(m) if isinstance(n, ast.Try)]
    ok = len(trys) == 1
    if ok:
        tr = trys[0]
        ok = len(tr.handlers) == 1 and match('self._UseLegacyRO', tr.handlers[0].type) \
            is not None and len(tr.body) == 1 and match(
                'base = self._choose_next_base(base_tree_remaining)', tr.body[0], 'exec') \
            is not None
        hr = [n for n in tr.handlers[0].body if isinstance(n, ast.Return)]
        ok = ok and len(hr) == 1 and match('self.legacy_ro', hr[0].value) is not None
    rep.check('R03.2', 'C3._merge', ok,
              'catches exactly _UseLegacyRO around _choose_next_base and then '
              'returns the legacy order', construct='fallback', node=m)
    # had_inconsistency = direct or bases
    h = find_def(mod, 'C3.had_inconsistency')
    rets = [n for n in walk_local(h) if isinstance(n, ast.Return)]
    ok = len(rets) == 1 and match(
        'self.direct_inconsistency or self.bases_had_inconsistency', rets[0].value) is not None
    rep.check('R03.2', 'C3.had_inconsistency', ok,
              'had_inconsistency = direct_inconsistency or bases_had_inconsistency',
              construct='flag', node=h)
    i = find_def(mod, 'C3.__init__')
    b = find_all(i, 'self.bases_had_inconsistency = any($b.had_inconsistency for $b in base_resolvers)', 'exec')
    # base_resolvers has one resolver per base
    lp = [l for l in walk_local(i) if isinstance(l, ast.For)
          and match('C.__bases__', l.iter) is not None]
    okb = bool(b) and len(lp) == 1 and bool(find_all(
        lp[0], 'base_resolvers.append(memo[%s])' % lp[0].target.id))
    rep.check('R03.2', 'C3.__init__', okb,
              'bases_had_inconsistency = any flag of the resolver of EVERY base',
              construct='bases-flag', node=i)


def r03_3(rep, mod):
    f = find_def(mod, 'C3._find_next_C3_base')
    ps = shared.params(f)
    tree = ps[1]
    lps = [l for l in f.body if isinstance(l, ast.For)]
    ok = len(lps) == 1
    detail = 'loops: %d' % len(lps)
    if ok:
        lp = lps[0]
        src, d = iter_polarity(lp.iter, f)
        v = lp.target.id
        head = find_all(lp, 'base = %s[0]' % v, 'exec')
        ifs = [n for n in lp.body if isinstance(n, ast.If)]
        okc = len(ifs) == 1 and match(
            'self._can_choose_base(base, %s)' % tree, ifs[0].test) is not None and \
            any(isinstance(s, ast.Return) and match('base', s.value) is not None
                for s in ifs[0].body)
        last = f.body[-1]
        okn = isinstance(last, ast.Return) and shared.is_none(last.value)
        ok = isinstance(src, ast.Name) and src.id == tree and d == 'fwd' and \
            bool(head) and okc and okn
        detail = ('walks the remaining lists forward (%s), candidate = head of '
                  'each list (%s), first acceptable candidate returned (%s), '
                  'None when there is none (%s)' % (d, bool(head), okc, okn))
    rep.check('R03.3', 'C3._find_next_C3_base', ok, detail, construct='first-good-head',
              node=f)
    f = find_def(mod, 'C3._can_choose_base')
    ps = shared.params(f)
    base, tree = ps[0], ps[1]
    lps = [l for l in f.body if isinstance(l, ast.For)]
    ok = len(lps) == 1
    if ok:
        lp = lps[0]
        v = lp.target.id
        skip = [n for n in lp.body if isinstance(n, ast.If) and any(
            isinstance(s, ast.Continue) for s in n.body)]
        oks = len(skip) == 1 and (
            match('not %s or %s[0] is %s' % (v, v, base), skip[0].test) is not None)
        inner = [n for n in lp.body if isinstance(n, ast.For)]
        oki = len(inner) == 1
        if oki:
            il = inner[0]
            s2, d2 = iter_polarity(il.iter)
            iv = il.target.id
            rej = [n for n in il.body if isinstance(n, ast.If)]
            oki = (match(v, s2) is not None or match('%s[1:]' % v, s2) is not None) and \
                len(rej) == 1 and match('%s is %s' % (iv, base), rej[0].test) is not None and \
                any(isinstance(s, ast.Return) and match('False', s.value) is not None
                    for s in rej[0].body)
        last = f.body[-1]
        okt = isinstance(last, ast.Return) and match('True', last.value) is not None
        ok = oks and oki and okt
    rep.check('R03.3', 'C3._can_choose_base', ok,
              'a candidate is rejected iff it occurs (identity) in the tail of '
              'some remaining list; lists headed by the candidate are skipped',
              construct='not-in-tails', node=f)
    f = find_def(mod, 'C3._choose_next_base')
    cfg = cfg_of(f)
    ok = bool(find_all(f, 'base = self._find_next_C3_base(base_tree_remaining)', 'exec'))
    ifs = [n for n in f.body if isinstance(n, ast.If) and
           match('base is not None', n.test) is not None]
    ok = ok and len(ifs) == 1 and any(isinstance(s, ast.Return) and
                                      match('base', s.value) is not None
                                      for s in ifs[0].body)
    last = f.body[-1]
    ok = ok and isinstance(last, ast.Return) and match(
        'self._guess_next_base(base_tree_remaining)', last.value) is not None
    rep.check('R03.3', 'C3._choose_next_base', ok,
              'the C3 candidate is used whenever there is one; the fallback is '
              'reached only when there is none', construct='c3-first', node=f)
    f = find_def(mod, 'C3._merge')
    wl = [n for n in f.body if isinstance(n, ast.While)]
    ok = len(wl) == 1
    if ok:
        w = wl[0]
        cfgm = cfg_of(f)
        a = find_all(w, 'base_tree_remaining = self._nonempty_bases_ignoring(base_tree_remaining, base)', 'exec')
        b = [n for n in w.body if isinstance(n, ast.If) and
             match('not base_tree_remaining', n.test) is not None and
             any(isinstance(s, ast.Return) and match('result', s.value) is not None
                 for s in n.body)]
        c = find_all(w, 'result.append(base)', 'exec')
        ok = len(a) == 1 and len(b) == 1 and len(c) == 1 and \
            a[0][0] in w.body and c[0][0] in w.body and \
            w.body.index(a[0][0]) < w.body.index(b[0]) < w.body.index(c[0][0])
        init = find_all(f, 'base_tree_remaining = self.base_tree', 'exec')
        ok = ok and bool(init)
    rep.check('R03.3', 'C3._merge', ok,
              'each round: drop the last chosen base from every list, stop '
              'when nothing remains, choose the next base, append it',
              construct='merge-loop', node=f)
    f = find_def(mod, 'C3._nonempty_bases_ignoring')
    ps = shared.params(f)
    rets = [n for n in walk_local(f) if isinstance(n, ast.Return)]
    ok = len(rets) == 1 and match(
        'list(filter(None, [[$b for $b in $bs if $b is not %s] for $bs in %s]))'
        % (ps[1], ps[0]), rets[0].value) is not None
    rep.check('R03.3', 'C3._nonempty_bases_ignoring', ok,
              'removes the chosen base (identity) from every list and drops '
              'empty lists, keeping order', construct='remove-chosen', node=f)
    f = find_def(mod, 'C3.mro')
    rets = [n for n in walk_local(f) if isinstance(n, ast.Return)]
    ok = len(rets) == 1 and bool(find_all(f, 'tuple(self._merge())'))
    rep.check('R03.3', 'C3.mro', ok, 'mro() = memoized merge result',
              construct='mro', node=f)


def r03_4(rep, mod):
    f = find_def(mod, 'C3.__init__')
    st = [n for n in walk_local(f) if isinstance(n, ast.Assign)
          and match('self.base_tree', n.targets[0]) is not None]
    ok = len(st) == 1 and match(
        '[[C]] + [memo[$b].mro() for $b in C.__bases__] + [list(C.__bases__)]',
        st[0].value) is not None
    rep.check('R03.4', 'C3.__init__', ok,
              'base_tree = [[C]] + [mro(b) for b in C.__bases__] + '
              '[list(C.__bases__)] (the object first, local precedence order '
              'last): %s' % (norm_src(st[0].value) if st else 'missing'),
              construct='base-tree', node=f)
    # every base gets a resolver of the same kind through the memo
    lp = [l for l in walk_local(f) if isinstance(l, ast.For)
          and match('C.__bases__', l.iter) is not None]
    ok = len(lp) == 1
    if ok:
        v = lp[0].target.id
        ok = bool(find_all(lp[0], 'memo[%s] = $r' % v, 'exec')) and \
            bool(find_all(lp[0], 'kind(%s, memo)' % v)) and \
            iter_polarity(lp[0].iter)[1] == 'fwd'
    rep.check('R03.4', 'C3.__init__', ok,
              'bases are resolved recursively with the same resolver kind '
              '(strictness is inherited)', construct='recursive-kind', node=f)
    sc = [n for n in f.body if isinstance(n, ast.If)
          and match('len(C.__bases__) == 1', n.test) is not None]
    ok = len(sc) == 1 and any(
        isinstance(s, ast.Assign) and isinstance(s.targets[0], ast.Attribute)
        and match('[C] + memo[C.__bases__[0]].mro()', s.value) is not None
        for s in sc[0].body)
    rep.check('R03.4', 'C3.__init__', ok or not sc,
              'single-inheritance shortcut: [C] + mro(base)', construct='shortcut',
              node=f)


def r03_5(rep, mod):
    f = find_def(mod, 'ro')
    cfg = cfg_of(f)
    m = find_all(f, 'mro = resolver.mro()', 'exec')
    r = find_all(f, 'resolver = C3.resolver(C, strict, base_mros)', 'exec')
    rets = [n for n in cfg.nodes if isinstance(n.ast, ast.Return)]
    vals = sorted(norm_src(n.ast.value) for n in rets)
    ok = bool(m) and bool(r) and vals == ['legacy_ro', 'mro']
    for n in rets:
        if norm_src(n.ast.value) == 'legacy_ro':
            g = n.ast.parent
            ok = ok and isinstance(g, ast.If) and match('use_legacy', g.test) is not None
    ul = resolve_local(f, ast.Name(id='use_legacy', ctx=ast.Load()))
    ok = ok and match('use_legacy_ro if use_legacy_ro is not None else resolver.USE_LEGACY_IRO',
                      ul) is not None
    rep.check('R03.5', 'ro.ro', ok,
              'returns the resolver\'s mro; the legacy order only under '
              'use_legacy (returns %s)' % vals, construct='result', node=f)
    imod = rep.repo.module('interface.py')
    from . import specsem
    from .C02 import r02_6
    r02_6(rep, imod, rule='R03.5')
    specsem.calculate_sro(rep, imod, 'R03.5')
    specsem.changed_recompute(rep, imod, 'R03.5', only=('iro',))


def run(rep):
    mod = rep.repo.module('ro.py')
    rep.rule('R03.1', 'typestate of the inconsistency flag: it is only set '
             'inside the merge, so every read on a resolver (ro(), '
             'is_consistent(), C3.__init__ for the bases) must come after '
             '.mro() on that resolver', floor=6)
    rep.rule('R03.2', 'strict dispatch: strict -> _StrictC3 whose fallback '
             'always raises InconsistentResolutionOrderError; non-strict '
             'records the inconsistency and falls back to the legacy order; '
             'both observe the same event (_guess_next_base reached)', floor=7)
    rep.rule('R03.3', 'C3 head selection: first list head not in any tail '
             '(identity), chosen base removed from all lists, appended; the '
             'fallback only when no head qualifies', floor=6)
    rep.rule('R03.4', 'base tree = [[C]] + linearizations of the bases in '
             'order + [the bases in order]', floor=3)
    rep.rule('R03.5', 'ro() returns the merge result; root last; __iro__ is '
             'the filtered __sro__', floor=5)
    rep.decline('that the merge output lists each ancestor exactly once, each '
                'before its bases, and equals the C3 linearization for every '
                'ordered DAG (algorithmic correctness on unbounded inputs; '
                'R03.3/R03.4 pin the algorithm to C3\'s published shape)')
    rep.decline('exactness of is_consistent beyond "observes the same event '
                'as strict mode"')
    r03_1(rep, mod)
    r03_2(rep, mod)
    r03_3(rep, mod)
    r03_4(rep, mod)
    r03_5(rep, mod)
