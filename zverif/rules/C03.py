"""C03 - resolution orders are valid linearizations and equal C3 whenever
C3 exists.  Decided: the merge-before-read typestate of the inconsistency
flag, strict/non-strict dispatch, the shape of the C3 head selection and of
the base tree, root-last / iro filter.  Declined: that the merge result is
the C3 linearization for every DAG."""
import ast

from ..core import AnalysisError, norm_src
from ..pyfront import (find_def, find_all, match, walk_local, dotted, same,
                       calls_in, names_in, methods_of, FUNC, qualname)
from ..flowq import (iter_polarity, resolve_local, loops_over, pred_of,
                     witness_path, nodes_with, any_pred)
from ..cfg import cfg_of, header_expr
from . import shared

FLAGS = ('had_inconsistency', 'direct_inconsistency', 'bases_had_inconsistency')


def r03_5(rep, mod):
    from . import rosem
    rosem.ro_result(rep, mod, 'R03.5')
    imod = rep.repo.module('interface.py')
    from . import specsem
    from .C02 import r02_6
    r02_6(rep, imod, rule='R03.5')
    specsem.calculate_sro(rep, imod, 'R03.5')
    specsem.changed_recompute(rep, imod, 'R03.5', only=('iro',))


def run(rep):
    mod = rep.repo.module('ro.py')
    rep.rule('R03.1', 'typestate of the inconsistency flag: it is only set '
             'inside the merge, so every read on a resolver (ro(), '
             'is_consistent(), C3.__init__ for the bases) must come after '
             '.mro() on that resolver', floor=5)
    rep.rule('R03.2', 'strict dispatch: strict -> _StrictC3 whose fallback '
             'always raises InconsistentResolutionOrderError; non-strict '
             'records the inconsistency and falls back to the legacy order; '
             'both observe the same event (_guess_next_base reached)', floor=6)
    rep.rule('R03.3', 'C3 head selection: first list head not in any tail '
             '(identity), chosen base removed from all lists, appended; the '
             'fallback only when no head qualifies', floor=6)
    rep.rule('R03.4', 'base tree = [[C]] + linearizations of the bases in '
             'order + [the bases in order]', floor=3)
    rep.rule('R03.5', 'ro() returns the merge result; root last; __iro__ is '
             'the filtered __sro__', floor=5)
    rep.rule('R03.6', 'no stale order: Specification.changed recomputes '
             '__sro__/__iro__ from one fresh _calculate_sro() on every path and '
             'then notifies every dependent unconditionally, so the __sro__ of '
             'everything below a changed specification is the linearization of '
             'the CURRENT hierarchy; every __bases__ store unsubscribes from all old '
             'and subscribes to all new bases (shared with C02 R02.1-R02.3)', floor=8)
    rep.decline('that the merge output lists each ancestor exactly once, each '
                'before its bases, and equals the C3 linearization for every '
                'ordered DAG (algorithmic correctness on unbounded inputs; '
                'R03.3/R03.4 pin the algorithm to C3\'s published shape)')
    rep.decline('exactness of is_consistent beyond "observes the same event '
                'as strict mode"')
    from . import rosem
    rosem.flag_typestate(rep, mod, 'R03.1')
    rosem.dispatch(rep, mod, 'R03.2')
    rosem.merge_rounds(rep, mod, 'R03.2')
    rosem.find_next_base(rep, mod, 'R03.3')
    rosem.can_choose_base(rep, mod, 'R03.3')
    rosem.merge_rounds(rep, mod, 'R03.3')
    rosem.nonempty_ignoring(rep, mod, 'R03.3')
    rosem.mro_memo(rep, mod, 'R03.3')
    rosem.base_tree(rep, mod, 'R03.4')
    r03_5(rep, mod)
    from . import specsem
    imod = rep.repo.module('interface.py')
    specsem.changed_recompute(rep, imod, 'R03.6')
    specsem.changed_notify(rep, imod, 'R03.6')
    # ... and a specification is a dependent of exactly its current bases
    from .C02 import r02_3
    r02_3(rep, imod, 'R03.6')
    specsem.subscription_counting(rep, imod, 'R03.6')
