"""Identity / snapshot rules (C02 R02.7, C06 R06.7).

Both are about a table that must follow *objects*, while the code keys or
compares it through something weaker:

* the dependents of a specification are notified one by one, so the table
  must distinguish distinct dependents - but it is keyed by the dependent
  itself, and interfaces compare and hash by (__name__, __module__);
* the recorded bases of a registry are what the next assignment is diffed
  against, so they must be a snapshot - but the caller's own (mutable)
  sequence object is stored.
"""
import ast

from ..core import norm_src
from ..pyfront import find_def, methods_of
from ..sympath import summaries, normal
from .sem import nt


def dependents_identity(rep, imod, rule):
    spec = find_def(imod, 'Specification')
    sub = find_def(imod, 'Specification.subscribe')
    dep = [a.arg for a in sub.args.args][1]
    # how dependents compare: does a class of specifications define __eq__ / __hash__?
    by_value = []
    for cls in ast.walk(imod):
        if isinstance(cls, ast.ClassDef):
            ms = methods_of(cls, raw=True)
            if '__eq__' in ms and '__hash__' in ms:
                by_value.append(cls.name)
    keyed = []
    n = 0
    for ps in normal(summaries(sub)):
        for e in ps.stores():
            if isinstance(e.r, ast.Subscript) and \
                    nt(e.r.value) in ('self._dependents', 'self.dependents'):
                n += 1
                k = nt(e.r.slice)
                if k == dep:
                    keyed.append('self._dependents[%s]' % dep)
                elif k not in ('id(%s)' % dep,):
                    keyed.append('self._dependents[%s]' % k[:40])
    rep.require(n >= 1, 'Specification.subscribe: no store into the dependents table')
    bad = bool(keyed) and bool(by_value)
    rep.check(rule, 'Specification.subscribe', not bad,
              'the dependents table distinguishes distinct dependents (keyed by '
              'identity, or no specification class overrides __eq__/__hash__)'
              if not bad else
              {'keyed_by': sorted(set(keyed)),
               'classes_comparing_by_value': sorted(by_value),
               'consequence': 'two distinct interfaces with equal (__name__, '
                              '__module__) that depend on the same specification '
                              'share one entry: only one is notified of a change '
                              'and the other keeps a stale __sro__/_implied'},
              construct='dependents-key', node=sub)


def bases_snapshot(rep, amod, rule):
    f = find_def(amod, 'BaseAdapterRegistry._setBases')
    p = [a.arg for a in f.args.args][1]
    stored = []
    for ps in normal(summaries(f)):
        for e in ps.stores():
            if isinstance(e.r, ast.Subscript) and nt(e.r.value) == 'self.__dict__' \
                    and nt(e.r.slice) == "'__bases__'":
                stored.append(norm_src(e.val))
    rep.require(bool(stored), 'BaseAdapterRegistry._setBases: __bases__ is not stored')
    # who diffs a new assignment against the stored value?
    differs = []
    for cls in ast.walk(amod):
        if isinstance(cls, ast.ClassDef):
            m = methods_of(cls).get('_setBases')
            if m is None or cls.name == 'BaseAdapterRegistry':
                continue
            for ps in normal(summaries(m)):
                if any("self.__dict__.get('__bases__'" in c or 'self.__bases__' in c
                       for c, t, pp in ps.order):
                    differs.append(cls.name)
                    break
    alias = [v for v in stored if v == p]
    bad = bool(alias) and bool(differs)
    rep.check(rule, 'BaseAdapterRegistry._setBases', not bad,
              'the recorded __bases__ are a snapshot (tuple) of the assigned sequence'
              if not bad else
              {'stored': sorted(set(stored)),
               'diffed_by': sorted(set(differs)),
               'consequence': 'the caller\'s own sequence object is recorded; after it '
                              'is changed in place and assigned again the old and new '
                              'bases are the same object, nothing is linked or '
                              'unlinked, and the registry never hears of changes in '
                              'its new base'},
              construct='bases-snapshot', node=f)
