"""Path-summary rules for pickling by reference (C13) and for the shared
instance-declaration factory (C01 R01.1 uses the same facts).

Every rule reads resolved path summaries (sympath): locals, temporaries,
if/else orientation, early returns and conditional expressions do not matter.
"""
import ast

from ..core import AnalysisError, norm_src
from ..pyfront import (find_def, match, walk_local, methods_of, dotted, FUNC,
                       qualname, inlined)
from ..sympath import summaries, normal
from .sem import nt

DEFINITION_DATA = ('__bases__', '_bases', '__doc__', '__dict__', '__iro__',
                   '__sro__', '_implied', 'declared', 'dependents',
                   '_v_attrs', '__attrs')


def tuple_elems(e):
    """['a', 'b', '*rest'] for (a, b) + rest / (a, b, *rest) / tuple(...)"""
    if isinstance(e, (ast.Tuple, ast.List)):
        out = []
        for x in e.elts:
            if isinstance(x, ast.Starred):
                out += _star(x.value)
            else:
                out.append(nt(x))
        return out
    if isinstance(e, ast.BinOp) and isinstance(e.op, ast.Add):
        return tuple_elems(e.left) + tuple_elems(e.right)
    if isinstance(e, ast.Call) and dotted(e.func) == 'tuple' and len(e.args) == 1 \
            and not e.keywords:
        return _star(e.args[0])
    return ['*' + nt(e)]


def _star(v):
    if isinstance(v, (ast.Tuple, ast.List)):
        return tuple_elems(ast.Tuple(elts=v.elts, ctx=ast.Load()))
    if isinstance(v, ast.BinOp) and isinstance(v.op, ast.Add):
        return tuple_elems(v)
    return ['*' + nt(v)]


def module_functions(mod):
    """(qualname, function with new helpers inlined) of every def in the module"""
    from ..inline import known_names
    known = known_names(getattr(mod, 'relpath', ''))
    out = []
    for f in ast.walk(mod):
        if isinstance(f, FUNC):
            if f.name.startswith('_') and not f.name.startswith('__') and \
                    f.name not in known:
                continue      # a new private helper: seen inlined in its callers
            out.append((qualname(f), inlined(f)))
    return out


def provides_class(dmod):
    for n in dmod.body:
        if isinstance(n, ast.ClassDef) and n.name == 'Provides':
            return n
    raise AnalysisError('anchor vanished: class Provides (ProvidesClass)')


def provides_function(dmod):
    pf = None
    for n in dmod.body:
        if isinstance(n, ast.FunctionDef) and n.name == 'Provides':
            pf = n
    if pf is None:
        raise AnalysisError('anchor vanished: factory function Provides')
    return inlined(pf)


def reduce_defs(mod):
    out = []
    for cls in ast.walk(mod):
        if isinstance(cls, ast.ClassDef):
            m = methods_of(cls).get('__reduce__')
            if m is not None:
                out.append((cls, m))
    return out


def reduce_returns(m):
    """resolved values returned on the normal paths"""
    return [ps.ret for ps in normal(summaries(m))]


# ---------------------------------------------------------------------------
# R13.1

def reduce_forms(rep, imod, dmod, rule):
    seen = set()
    for cls, m in reduce_defs(imod) + reduce_defs(dmod):
        name = cls.name
        if name == 'Components':
            continue
        seen.add(name)
        site = '%s.__reduce__' % name
        rets = reduce_returns(m)
        probs = []
        if not rets or any(r is None for r in rets):
            probs.append('a path returns nothing')
        detail = ''
        for v in rets:
            if v is None:
                continue
            if name == 'InterfaceClass':
                detail = 'an interface pickles as its global name'
                if nt(v) != 'self.__name__':
                    probs.append('returns `%s` (required self.__name__)' % nt(v)[:60])
            elif name == '_ImmutableDeclaration':
                glob = [n for n in dmod.body if isinstance(n, ast.Assign)
                        and match('_empty = _ImmutableDeclaration()', n, 'exec') is not None]
                detail = 'the empty declaration pickles as the global `_empty` ' \
                    '(bound to the singleton: %s)' % (len(glob) == 1)
                if not (isinstance(v, ast.Constant) and v.value == '_empty') or len(glob) != 1:
                    probs.append('returns `%s`' % nt(v)[:60])
            elif isinstance(v, ast.Tuple) and len(v.elts) == 2:
                fn, args = v.elts
                if dotted(fn) not in ('implementedBy', 'Provides', 'self.__class__'):
                    probs.append('callable `%s` is not a module-level reference'
                                 % nt(fn)[:60])
                if isinstance(args, ast.Tuple):
                    for a in args.elts:
                        if not (isinstance(a, ast.Attribute) and isinstance(a.value, ast.Name)
                                and a.value.id == 'self'):
                            probs.append('argument `%s` is not a recorded field of '
                                         'self' % nt(a)[:60])
                elif nt(args) != 'self.__args':
                    probs.append('arguments `%s` are not the recorded constructor '
                                 'arguments' % nt(args)[:60])
                bad = sorted({n.attr for n in ast.walk(v) if isinstance(n, ast.Attribute)
                              and n.attr in DEFINITION_DATA})
                if bad:
                    probs.append('reduces through definition data %s' % bad)
                detail = '(%s, %s): module-level callable + recorded references' % (
                    nt(fn), nt(args)[:60])
            else:
                probs.append('unexpected reduce value `%s`' % nt(v)[:80])
        rep.check(rule, site, not probs, detail if not probs else
                  {'problems': sorted(set(probs))[:3]}, construct='form', node=m)
    rep.require({'InterfaceClass', 'Implements', 'Provides', 'ClassProvides',
                 '_ImmutableDeclaration'} <= seen,
                '__reduce__ definitions found: %s' % sorted(seen))


# ---------------------------------------------------------------------------
# R13.2

def args_writers(cls):
    out = []
    for n in ast.walk(cls):
        if isinstance(n, (ast.Assign, ast.AugAssign)):
            for t in (n.targets if isinstance(n, ast.Assign) else [n.target]):
                for x in ast.walk(t):
                    if isinstance(x, ast.Attribute) and x.attr.endswith('__args') \
                            and isinstance(x.ctx, ast.Store):
                        out.append(n)
        elif isinstance(n, ast.Delete):
            for t in n.targets:
                if isinstance(t, ast.Attribute) and t.attr.endswith('__args'):
                    out.append(n)
        elif isinstance(n, ast.Call) and dotted(n.func) in ('setattr', 'delattr') \
                and len(n.args) >= 2 and isinstance(n.args[1], ast.Constant) \
                and str(n.args[1].value).endswith('__args'):
            out.append(n)
    return out


def ctor_capture(rep, dmod, rule):
    pcls = provides_class(dmod)
    cp = find_def(dmod, 'ClassProvides')
    for cls, site, want in ((pcls, 'ProvidesClass', ['cls', '*interfaces']),
                            (cp, 'ClassProvides', ['cls', 'metacls', '*interfaces'])):
        ms = methods_of(cls)
        init = ms['__init__']
        raw_init = methods_of(cls, raw=True)['__init__']
        probs = []
        params = [a.arg for a in init.args.args]
        va = init.args.vararg.arg if init.args.vararg is not None else None
        if params[1:] + ['*%s' % va] != want:
            probs.append('constructor parameters %s, *%s' % (params[1:], va))
        n = 0
        for ps in normal(summaries(init)):
            sts = [e for e in ps.stores() if isinstance(e.r, ast.Attribute)
                   and e.r.attr.endswith('__args')]
            n += 1
            if len(sts) != 1:
                probs.append('%d stores of __args on a path' % len(sts))
                continue
            e = sts[0]
            if nt(e.r.value) != 'self' or tuple_elems(e.val) != want:
                probs.append('records `%s`' % repr(e)[:80])
        if not n:
            probs.append('no normal path')
        ws = [w for w in args_writers(cls)
              if not any(w is x for x in ast.walk(raw_init))]
        if ws:
            probs.append('__args rewritten outside __init__: %s'
                         % [norm_src(w)[:50] for w in ws])
        rep.check(rule, site + '.__init__', not probs,
                  'self.__args = (%s) recorded exactly once, from the '
                  'constructor\'s own parameters' % ', '.join(want)
                  if not probs else {'problems': sorted(set(probs))[:3]},
                  construct='capture', node=init)
        red = ms['__reduce__']
        rets = reduce_returns(red)
        okr = bool(rets) and all(
            isinstance(r, ast.Tuple) and len(r.elts) == 2 and nt(r.elts[1]) == 'self.__args'
            for r in rets)
        rep.check(rule, site + '.__reduce__', okr,
                  'reduces to the recorded constructor arguments (not to the '
                  'effective, elided bases): %s' % [nt(r)[:70] for r in rets],
                  construct='args', node=red)
    pf = provides_function(dmod)
    probs = provides_factory_problems(pf)
    rep.check(rule, 'declarations.Provides', not probs,
              'Provides(*args) returns the shared declaration memoized under '
              'exactly `args`, else builds ProvidesClass(*args) and memoizes it '
              'under `args`' if not probs else {'problems': probs[:3]},
              construct='factory', node=pf)
    normalised_args(rep, dmod, rule)


def provides_factory_problems(pf):
    """the factory: hit -> the memo entry under the argument tuple; miss ->
    ProvidesClass(*args) stored under the same key and returned"""
    probs = []
    va = pf.args.vararg.arg if pf.args.vararg is not None else None
    if va is None or pf.args.args or pf.args.kwonlyargs:
        return ['signature is not Provides(*interfaces)']
    GET = 'InstanceDeclarations.get(%s)' % va
    NEW = 'ProvidesClass(*%s)' % va
    hit = miss = 0
    for ps in normal(summaries(pf)):
        ret = nt(ps.ret)
        sts = ps.stores()
        built = [e for e in ps.events if e.kind == 'call' and nt(e.r) == NEW]
        if not built:
            hit += 1
            f = ps.facts.get('%s is None' % GET)
            if ret != GET or f is not False or sts:
                probs.append('path without construction returns `%s` (memo entry '
                             'tested: %s)' % (ret[:50], f))
            continue
        miss += 1
        if ps.facts.get('%s is None' % GET) is not True and GET in [
                nt(e.r) for e in ps.events if e.kind == 'call']:
            probs.append('constructs although the memo holds an entry')
        if len(built) != 1 or ret != NEW:
            probs.append('miss path returns `%s`' % ret[:50])
        ok = [e for e in sts if nt(e.r) == 'InstanceDeclarations[%s]' % va
              and nt(e.val) == NEW]
        if len(ok) != 1 or len(sts) != 1:
            probs.append('miss path stores %s' % [repr(e)[:70] for e in sts])
    if not (hit and miss):
        probs.append('hit paths %d, miss paths %d' % (hit, miss))
    return sorted(set(probs))


def normalised_args(rep, dmod, rule):
    d = find_def(dmod, 'directlyProvides')
    probs = []
    n = 0
    NORM = '_normalizeargs(interfaces)'
    for ps in normal(summaries(d)):
        ctors = [e for e in ps.events if e.kind == 'call' and
                 dotted(e.r.func) in ('ClassProvides', 'Provides')]
        norms = [e for e in ps.events if e.kind == 'call' and
                 dotted(e.r.func) == '_normalizeargs']
        if len(ctors) != 1:
            probs.append('%d declaration constructors on a path' % len(ctors))
            continue
        n += 1
        c = ctors[0].r
        star = [a.value for a in c.args if isinstance(a, ast.Starred)]
        if len(star) != 1 or nt(star[0]) not in (NORM, 'tuple(%s)' % NORM):
            probs.append('`%s` does not receive the normalised interfaces' % nt(c)[:80])
        if len(norms) != 1:
            probs.append('interfaces normalised %d times' % len(norms))
    if n < 2:
        probs.append('constructor paths %d' % n)
    rep.check(rule, 'declarations.directlyProvides', not probs,
              'both declaration constructors receive the normalised (flattened) '
              'interfaces, so only interfaces are recorded for pickling'
              if not probs else {'problems': sorted(set(probs))[:3]},
              construct='normalised-args', node=d)


# ---------------------------------------------------------------------------
# R13.3

def reduce_reference(rep, dmod, rule):
    imp = find_def(dmod, 'Implements')
    red = methods_of(imp)['__reduce__']
    A = '(implementedBy, (self._spec_of,))'
    B = '(implementedBy, (self.inherit,))'
    forms = set()
    probs = []
    for ps in normal(summaries(red)):
        ret = nt(ps.ret)
        isnone = ps.facts.get('self._spec_of is None')
        truthy = [c for c, t, p in ps.order if c in ('self._spec_of', 'self.inherit')]
        if truthy:
            probs.append('fallback selected by truthiness of `%s` (a falsy class, '
                         'e.g. one whose metaclass defines __len__/__bool__, '
                         'pickles as implementedBy(None))' % truthy[0])
        if ret == A:
            forms.add('spec_of')
            if isnone is True:
                probs.append('returns the empty primary reference')
        elif ret == B:
            forms.add('inherit')
            if isnone is False:
                probs.append('ignores the recorded primary reference')
        else:
            probs.append('returns `%s`' % ret[:80])
        extra = [c for c, t, p in ps.order if c != 'self._spec_of is None' and c not in truthy]
        if extra:
            probs.append('reference chosen under unrelated condition `%s`' % extra[0][:60])
    if not forms:
        probs.append('no reference form recognised')
    primary = '_spec_of' if 'spec_of' in forms else 'inherit'
    rep.check(rule, 'Implements.__reduce__', not probs,
              'reduces to (implementedBy, (<reference>,)); reference = %s'
              % ('self._spec_of, else (only when that is None) self.inherit'
                 if forms == {'spec_of', 'inherit'} else 'self.' + primary)
              if not probs else {'problems': sorted(set(probs))[:3]},
              construct='reference', node=red)

    # installers: a specification made the specification of `owner` carries
    # owner as its primary reference at that moment
    n_inst = 0
    writers = set()
    clearing = []
    per_site = {}
    for qn, f in module_functions(dmod):
        try:
            ss = normal(summaries(f))
        except AnalysisError:
            continue
        for ps in ss:
            for k, e in enumerate(ps.events):
                if e.kind != 'store':
                    continue
                owner = None
                if isinstance(e.r, ast.Attribute) and e.r.attr == '__implemented__':
                    owner = e.r.value
                elif isinstance(e.r, ast.Subscript) and \
                        dotted(e.r.value) == 'BuiltinImplementationSpecifications':
                    owner = e.r.slice
                if isinstance(e.r, ast.Attribute) and e.r.attr == primary and not (
                        nt(e.r.value) == 'self' and qn.endswith('__init__')):
                    writers.add(qn)
                    if isinstance(e.val, ast.Constant) and e.val.value is None:
                        clearing.append('%s: %s' % (qn, repr(e)[:60]))
                if owner is None or e.val is None:
                    continue
                n_inst += 1
                spec_t, owner_t = nt(e.val), nt(owner)
                ref = [x for x in ps.events[:k] if x.kind == 'store' and
                       isinstance(x.r, ast.Attribute) and x.r.attr == primary and
                       nt(x.r.value) == spec_t]
                ok = bool(ref) and nt(ref[-1].val) == owner_t
                if primary == 'inherit':
                    ok = ok and all(nt(x.val) == owner_t for x in ref)
                key = (qn, 'install:%s' % ('builtin-table' if isinstance(e.r, ast.Subscript)
                                           else '__implemented__'))
                st = per_site.setdefault(key, {'paths': 0, 'bad': [], 'node': e.node.ast})
                st['paths'] += 1
                if not ok:
                    st['bad'].append(
                        'a path installs `%s` as the specification of `%s` without '
                        'recording .%s = %s first (latest store of it: %s)'
                        % (spec_t[:50], owner_t[:30], primary, owner_t[:30],
                           [repr(x)[-40:] for x in ref[-1:]]))
    rep.require(len(per_site) >= 3, 'installation sites found: %d' % len(per_site))
    for (qn, construct), st in sorted(per_site.items()):
        rep.check(rule, qn, not st['bad'],
                  'on each of the %d paths that install a specification as '
                  '`<owner>.__implemented__` / in the builtin table, '
                  '<spec>.%s = <owner> was stored before' % (st['paths'], primary)
                  if not st['bad'] else {'problems': sorted(set(st['bad']))[:2]},
                  construct=construct, node=st['node'])
    rep.check(rule, 'writers of Implements.%s' % primary, not clearing,
              'no function clears the pickle reference of a live class '
              'specification (writers: %s; clearing: %s)' % (sorted(writers), clearing),
              construct='no-clear', node=imp)
