"""C18 - method descriptions mirror the described function's real signature.

Oracle: CPython's documented layout of ``co_varnames``:
[positional (co_argcount)] [keyword-only (co_kwonlyargcount)] [*name]
[**name] [locals].  Index arithmetic of ``fromFunction`` is evaluated as
affine forms over A=co_argcount, K=co_kwonlyargcount, M=imlevel,
D=len(defaults) along every path and compared with that layout.
"""
import ast

from ..core import AnalysisError, norm_src
from ..pyfront import (find_def, find_all, match, walk_local, dotted, same,
                       calls_in, names_in, FUNC, qualname)
from ..flowq import (iter_polarity, resolve_local, pred_of, witness_path,
                     nodes_with, any_pred, path_text)
from ..cfg import cfg_of, header_expr
from ..affine import Aff, Slice, Elem, Unknown, Zip, AffEval, provably_nonneg
from . import shared

A, K, M, D = (Aff.sym(x) for x in 'AKMD')


def leaf(n, env, ev):
    if isinstance(n, ast.Attribute):
        if n.attr == 'co_argcount':
            return A
        if n.attr == 'co_kwonlyargcount':
            return K
        if n.attr == 'co_varnames':
            return Slice('varnames')
        if n.attr == '__defaults__':
            return Slice('defaults')
    if isinstance(n, ast.Name) and n.id == 'imlevel':
        return env.get('imlevel', M)
    if isinstance(n, ast.Call) and isinstance(n.func, ast.Name):
        if n.func.id == 'getattr' and len(n.args) >= 2 and \
                isinstance(n.args[1], ast.Constant):
            nm = n.args[1].value
            if nm == 'co_kwonlyargcount':
                return K
            if nm == '__defaults__':
                return Slice('defaults')
            if nm == '__defaults_count__':
                return D
            if nm == 'co_argcount':
                return A
        if n.func.id == 'min' and len(n.args) == 2 and not n.keywords:
            vs = [ev.ev(x, env) for x in n.args]
            if M in vs and A in vs:
                # the effective level: never more names than positionals
                env['__M_le_A__'] = True
                return M
        if n.func.id == 'len' and len(n.args) == 1:
            v = ev.ev(n.args[0], env)
            if isinstance(v, Slice) and v.base == 'defaults' and v.hi is None:
                return D - v.lo
            if isinstance(v, Slice) and v.base == 'varnames' and v.hi is not None:
                return v.hi - v.lo
    return None


def eval_path(path, func):
    ev = AffEval(leaf)
    env = {}
    menv = {}
    conds = {}
    for node, lab in path:
        a = node.ast
        if a is None:
            continue
        if node.kind == 'test':
            t = a
            txt = norm_src(t)
            if 'CO_VARARGS' in txt:
                conds['VARARGS'] = (lab == 'T')
            elif 'CO_VARKEYWORDS' in txt:
                conds['VARKW'] = (lab == 'T')
            elif isinstance(t, ast.Compare) and len(t.ops) == 1 and \
                    isinstance(t.ops[0], ast.Lt) and \
                    isinstance(t.comparators[0], ast.Constant) and \
                    t.comparators[0].value == 0:
                v = ev.ev(t.left, env)
                conds['NEG'] = (v, lab == 'T')
            else:
                conds.setdefault('other', []).append((txt, lab))
            continue
        if node.kind != 'stmt':
            continue
        if isinstance(a, ast.Assign):
            v = ev.ev(a.value, env)
            for t in a.targets:
                if isinstance(t, ast.Name):
                    env[t.id] = v
                elif isinstance(t, ast.Attribute) and isinstance(t.value, ast.Name):
                    menv[(t.value.id, t.attr)] = v if not isinstance(a.value, ast.Name) \
                        or a.value.id not in env else env[a.value.id]
                    # aliasing of a mutable dict (method.optional = opt)
                    if isinstance(a.value, ast.Name):
                        menv[(t.value.id, t.attr)] = ('alias', a.value.id)
        elif isinstance(a, ast.AugAssign) and isinstance(a.target, ast.Name):
            cur = env.get(a.target.id)
            inc = ev.ev(a.value, env)
            if isinstance(cur, Aff) and isinstance(inc, Aff) and \
                    isinstance(a.op, (ast.Add, ast.Sub)):
                env[a.target.id] = cur + inc if isinstance(a.op, ast.Add) else cur - inc
            else:
                env[a.target.id] = Unknown(norm_src(a))
        elif isinstance(a, ast.Expr) and isinstance(a.value, ast.Call):
            c = a.value
            if isinstance(c.func, ast.Attribute) and c.func.attr == 'update' \
                    and isinstance(c.func.value, ast.Name) and len(c.args) == 1:
                env[c.func.value.id] = ev.ev(c.args[0], env)
    out = {}
    for (obj, attr), v in menv.items():
        if isinstance(v, tuple) and v and v[0] == 'alias':
            v = env.get(v[1], Unknown('alias ' + v[1]))
        out[attr] = v
    conds['__rel__'] = list(ev.rel)
    return out, conds, env


def from_function_layout(rep, mod, rule):
    """fromFunction's five fields against the co_varnames layout, all paths
    (shared: C18 R18.1, C17 R17.5)"""
    f = find_def(mod, 'fromFunction')
    uses_inspect = bool(find_all(f, 'inspect.signature($$a)')) or \
        bool(find_all(f, 'inspect.getfullargspec($$a)'))
    if uses_inspect:
        rep.check(rule, 'interface.fromFunction', True,
                  'delegates to the inspect module (no index obligations)',
                  construct='inspect', node=f)
        for i in range(7):
            rep.check(rule, 'interface.fromFunction', True, 'n/a',
                      construct='inspect-%d' % i, node=f, nontrivial=False)
    else:
        cfg = cfg_of(f)
        paths = cfg.paths(limit=4096)
        rep.stat('paths_enumerated', len(paths))
        fields = ('positional', 'required', 'optional', 'varargs', 'kwargs')
        verdicts = {k: [] for k in fields}
        negidx = []
        npaths = 0
        for path in paths:
            if path[-1][0] is not cfg.exit:
                continue
            npaths += 1
            out, conds, env = eval_path(path, f)
            va = conds.get('VARARGS')
            vk = conds.get('VARKW')
            neg = conds.get('NEG')
            clamped = bool(neg and neg[1])
            if neg is not None and isinstance(neg[0], Aff) and neg[0] != (A - M - D):
                verdicts['required'].append(
                    ('clamp test on %r (required: A - M - D)' % (neg[0],), path))
            # every index / slice bound must be non-negative for all admissible
            # inputs: a negative one is legal Python and silently counts from
            # the end (names[-1] is the **kw name)
            cons = [A, K, D, M]
            if env.get('__M_le_A__'):
                cons.append(A - M)
            if neg is not None and isinstance(neg[0], Aff):
                cons.append((Aff.const(0) - neg[0] - Aff.const(1)) if neg[1] else neg[0])
            for kind, form, src in conds.get('__rel__', []):
                if not provably_nonneg(form, cons):
                    negidx.append(('%s `%s` = %r can be negative (e.g. imlevel=1 for a '
                                   'method whose self is taken by *args: A=0, M=1)'
                                   % (kind, src, form), path))
            want = {
                'positional': Slice('varnames', M, A),
                'required': Slice('varnames', M, M) if clamped
                else Slice('varnames', M, A - D),
                'varargs': Elem('varnames', A + K) if va else None,
                'kwargs': (Elem('varnames', A + K + Aff.const(1 if va else 0))
                           if vk else None),
            }
            for k in ('positional', 'required', 'varargs', 'kwargs'):
                got = out.get(k, Unknown('never assigned on this path'))
                ok = (got == want[k]) if want[k] is not None else (got is None)
                if not ok:
                    verdicts[k].append(('%s = %r, required %r' % (k, got, want[k]), path))
            got = out.get('optional', Unknown('never assigned'))
            oko = False
            if isinstance(got, Zip) and isinstance(got.a, Slice) and isinstance(got.b, Slice):
                if clamped:
                    oko = got.a.base == 'varnames' and got.a.lo == M and \
                        got.b.base == 'defaults' and got.b.lo == (D - A + M)
                else:
                    oko = got.a.base == 'varnames' and got.a.lo == (A - D) and \
                        got.b.base == 'defaults' and got.b.lo == Aff.const(0)
            if not oko:
                verdicts['optional'].append(
                    ('optional = %r (required zip(varnames[%s:], defaults[%s:]))'
                     % (got, 'M' if clamped else 'A - D',
                        'D - (A - M)' if clamped else '0'), path))
        rep.require(npaths >= 8, 'fromFunction: only %d normal paths' % npaths)
        for k in fields:
            bad = verdicts[k]
            detail = '%s agrees with the co_varnames layout on all %d paths' % (k, npaths)
            if bad:
                detail = {'field': k, 'paths_violating': len(bad),
                          'first': bad[0][0],
                          'path': path_text(bad[0][1])[:40]}
            rep.check(rule, 'interface.fromFunction', not bad, detail,
                      construct=k, node=f)
        rep.check(rule, 'interface.fromFunction', not negidx,
                  'every index and slice bound into co_varnames is non-negative for '
                  'all code objects and levels' if not negidx else
                  {'paths_violating': len(negidx), 'first': negidx[0][0],
                   'path': path_text(negidx[0][1])[:30]},
                  construct='non-negative-index', node=f)
        # names derived from the described function itself
        nm = resolve_local(f, ast.Name(id='code', ctx=ast.Load()))
        rep.check(rule, 'interface.fromFunction',
                  match('func.__code__', nm) is not None,
                  'the code object is func.__code__: %s' % norm_src(nm),
                  construct='code', node=f)
        df = [n.value for n in walk_local(f) if isinstance(n, ast.Assign)
              and isinstance(n.targets[0], ast.Name) and n.targets[0].id == 'defaults']
        ok = bool(df) and (match("getattr(func, '__defaults__', None) or ()", df[0])
                           is not None or match('func.__defaults__ or ()', df[0]) is not None)
        rep.check(rule, 'interface.fromFunction', ok,
                  'defaults come from func.__defaults__', construct='defaults',
                  node=f)
        rets = [n for n in walk_local(f) if isinstance(n, ast.Return)]
        rep.check(rule, 'interface.fromFunction',
                  len(rets) == 1 and match('method', rets[0].value) is not None
                  and rets[0] is f.body[-1],
                  'a single return of the freshly built Method at the end (no '
                  'memoized/early result)', construct='single-return', node=f)



def run(rep):
    repo = rep.repo
    mod = repo.module('interface.py')
    rep.rule('R18.1', 'fromFunction: along every path, positional = '
             'co_varnames[M:A], required = [M:A-D] (clamped to empty when '
             'D > A-M), optional names = the last min(D, A-M) positionals '
             'zipped with the last defaults, *name at index A+K, **name at '
             'A+K+[has *name]; all derived from the function\'s own code '
             'object on every path', floor=8)
    rep.rule('R18.2', 'whoever rewrites one signature field of a Method '
             'rewrites the dependent ones consistently (positional and its '
             'prefix required)', floor=1)
    rep.rule('R18.3', 'rendering: positionals in order each followed by '
             '=repr(default) iff optional, then *varargs iff set, then '
             '**kwargs iff set; getSignatureInfo returns the five fields '
             'under their names', floor=2)
    rep.rule('R18.4', 'every function attribute becomes a tagged value; '
             'fromMethod unwraps __func__ and strips self (imlevel=1)', floor=3)
    rep.decline('none (keyword-only/positional-only parameters are not part '
                'of the five reported fields; the rule checks they do not '
                'shift the reported ones)')
    rep.assume('CPython code-object layout: co_varnames = positional '
               '(co_argcount, incl. positional-only), keyword-only, *name, '
               '**name, locals')

    from_function_layout(rep, mod, 'R18.1')
    f = find_def(mod, 'fromFunction')

    # ---- R18.2 field consistency ------------------------------------------------
    from . import methodsem
    methodsem.abc_method(rep, repo, 'R18.2')
    methodsem.field_rewrites(rep, repo, 'R18.2', 'fromFunction')

    # ---- R18.3 rendering --------------------------------------------------------
    methodsem.render_spec(rep, mod, 'R18.3')

    # ---- R18.4 ----------------------------------------------------------------
    lps = [n for n in walk_local(f) if isinstance(n, ast.For)
           and match('func.__dict__.items()', n.iter) is not None]
    ok = len(lps) == 1
    if ok:
        lp = lps[0]
        tg = [e.id for e in lp.target.elts] if isinstance(lp.target, ast.Tuple) else []
        ok = len(tg) == 2 and bool(find_all(
            lp, 'method.setTaggedValue(%s, %s)' % (tg[0], tg[1]), 'exec')) and \
            not [n for n in walk_local(lp) if isinstance(
                n, (ast.Break, ast.Return, ast.Continue))]
    rep.check('R18.4', 'interface.fromFunction', ok,
              'every item of func.__dict__ becomes a tagged value',
              construct='tagged', node=f)
    ok = bool(find_all(f, 'method.interface = interface', 'exec')) and \
        bool(find_all(f, 'method = Method(name, func.__doc__)', 'exec')) and \
        bool(find_all(f, 'name = name or func.__name__', 'exec'))
    rep.check('R18.4', 'interface.fromFunction', ok,
              'the Method carries name (default func.__name__), doc and interface',
              construct='identity', node=f)
    methodsem.from_method(rep, mod, 'R18.4')
