"""C18 - method descriptions mirror the described function's real signature.

Oracle: CPython's documented layout of ``co_varnames``:
[positional (co_argcount)] [keyword-only (co_kwonlyargcount)] [*name]
[**name] [locals].  Index arithmetic of ``fromFunction`` is evaluated as
affine forms over A=co_argcount, K=co_kwonlyargcount, M=imlevel,
D=len(defaults) along every path and compared with that layout.
"""
import ast

from ..core import AnalysisError, norm_src
from ..pyfront import (find_def, find_all, match, walk_local, dotted, same,
                       calls_in, names_in, FUNC, qualname)
from ..flowq import (iter_polarity, resolve_local, pred_of, witness_path,
                     nodes_with, any_pred, path_text)
from ..cfg import cfg_of, header_expr
from ..affine import Aff, Slice, Elem, Unknown, Zip, AffEval, provably_nonneg
from . import shared

A, K, M, D = (Aff.sym(x) for x in 'AKMD')


def leaf(n, env, ev):
    if isinstance(n, ast.Attribute):
        if n.attr == 'co_argcount':
            return A
        if n.attr == 'co_kwonlyargcount':
            return K
        if n.attr == 'co_varnames':
            return Slice('varnames')
        if n.attr == '__defaults__':
            return Slice('defaults')
    if isinstance(n, ast.Name) and n.id == 'imlevel':
        return env.get('imlevel', M)
    if isinstance(n, ast.Call) and isinstance(n.func, ast.Name):
        if n.func.id == 'getattr' and len(n.args) >= 2 and \
                isinstance(n.args[1], ast.Constant):
            nm = n.args[1].value
            if nm == 'co_kwonlyargcount':
                return K
            if nm == '__defaults__':
                return Slice('defaults')
            if nm == '__defaults_count__':
                return D
            if nm == 'co_argcount':
                return A
        if n.func.id == 'min' and len(n.args) == 2 and not n.keywords:
            vs = [ev.ev(x, env) for x in n.args]
            if M in vs and A in vs:
                # the effective level: never more names than positionals
                env['__M_le_A__'] = True
                return M
        if n.func.id == 'len' and len(n.args) == 1:
            v = ev.ev(n.args[0], env)
            if isinstance(v, Slice) and v.base == 'defaults' and v.hi is None:
                return D - v.lo
            if isinstance(v, Slice) and v.base == 'varnames' and v.hi is not None:
                return v.hi - v.lo
    return None


def eval_path(path, func):
    ev = AffEval(leaf)
    env = {}
    menv = {}
    conds = {}
    for node, lab in path:
        a = node.ast
        if a is None:
            continue
        if node.kind == 'test':
            t = a
            txt = norm_src(t)
            if 'CO_VARARGS' in txt:
                conds['VARARGS'] = (lab == 'T')
            elif 'CO_VARKEYWORDS' in txt:
                conds['VARKW'] = (lab == 'T')
            elif isinstance(t, ast.Compare) and len(t.ops) == 1 and \
                    isinstance(t.ops[0], ast.Lt) and \
                    isinstance(t.comparators[0], ast.Constant) and \
                    t.comparators[0].value == 0:
                v = ev.ev(t.left, env)
                conds['NEG'] = (v, lab == 'T')
            else:
                conds.setdefault('other', []).append((txt, lab))
            continue
        if node.kind != 'stmt':
            continue
        if isinstance(a, ast.Assign):
            v = ev.ev(a.value, env)
            for t in a.targets:
                if isinstance(t, ast.Name):
                    env[t.id] = v
                elif isinstance(t, ast.Attribute) and isinstance(t.value, ast.Name):
                    menv[(t.value.id, t.attr)] = v if not isinstance(a.value, ast.Name) \
                        or a.value.id not in env else env[a.value.id]
                    # aliasing of a mutable dict (method.optional = opt)
                    if isinstance(a.value, ast.Name):
                        menv[(t.value.id, t.attr)] = ('alias', a.value.id)
        elif isinstance(a, ast.AugAssign) and isinstance(a.target, ast.Name):
            cur = env.get(a.target.id)
            inc = ev.ev(a.value, env)
            if isinstance(cur, Aff) and isinstance(inc, Aff) and \
                    isinstance(a.op, (ast.Add, ast.Sub)):
                env[a.target.id] = cur + inc if isinstance(a.op, ast.Add) else cur - inc
            else:
                env[a.target.id] = Unknown(norm_src(a))
        elif isinstance(a, ast.Expr) and isinstance(a.value, ast.Call):
            c = a.value
            if isinstance(c.func, ast.Attribute) and c.func.attr == 'update' \
                    and isinstance(c.func.value, ast.Name) and len(c.args) == 1:
                env[c.func.value.id] = ev.ev(c.args[0], env)
    out = {}
    for (obj, attr), v in menv.items():
        if isinstance(v, tuple) and v and v[0] == 'alias':
            v = env.get(v[1], Unknown('alias ' + v[1]))
        out[attr] = v
    conds['__rel__'] = list(ev.rel)
    return out, conds, env


class _Choice(Exception):
    pass


def _leaf2(choices, cons):
    """leaf resolver over *resolved* expressions (path summaries): every leaf
    is an attribute of the described function or its code object; min()/max()
    take the arm selected in `choices` and record the matching constraint"""
    def leaf(n, env, ev):
        if isinstance(n, ast.Attribute):
            if n.attr == 'co_argcount':
                return A
            if n.attr == 'co_kwonlyargcount':
                return K
            if n.attr == 'co_varnames':
                return Slice('varnames')
            if n.attr == '__defaults__':
                return Slice('defaults')
            if n.attr == '__defaults_count__':
                return D
        if isinstance(n, ast.Name) and n.id == 'imlevel':
            return M
        if isinstance(n, ast.Tuple) and not n.elts:
            # `defaults = ()` when the function has none: still "the defaults"
            return Slice('defaults')
        if isinstance(n, ast.Call) and isinstance(n.func, ast.Name):
            if n.func.id == 'getattr' and len(n.args) >= 2 and \
                    isinstance(n.args[1], ast.Constant):
                nm = n.args[1].value
                v = {'co_kwonlyargcount': K, '__defaults_count__': D,
                     'co_argcount': A}.get(nm)
                if v is not None:
                    return v
                if nm == '__defaults__':
                    return Slice('defaults')
                if nm == 'co_varnames':
                    return Slice('varnames')
            if n.func.id in ('min', 'max') and len(n.args) == 2 and not n.keywords:
                key = norm_src(n)
                k = choices.get(key)
                if k is None:
                    raise _Choice(key)
                va, vb = ev.ev(n.args[0], env), ev.ev(n.args[1], env)
                if not (isinstance(va, Aff) and isinstance(vb, Aff)):
                    return Unknown(key[:50])
                lo, hi = (va, vb) if k == 0 else (vb, va)    # chosen, other
                if n.func.id == 'min':
                    cons.append((hi - lo) if k == 0 else (hi - lo - Aff.const(1)))
                else:
                    cons.append((lo - hi) if k == 0 else (lo - hi - Aff.const(1)))
                return lo
            if n.func.id == 'len' and len(n.args) == 1:
                v = ev.ev(n.args[0], env)
                if isinstance(v, Slice) and v.base == 'defaults' and v.hi is None:
                    return D - v.lo
                if isinstance(v, Slice) and v.base == 'varnames' and v.hi is not None:
                    return v.hi - v.lo
            if n.func.id == 'bool' and len(n.args) == 1:
                return ev.ev(n.args[0], env)
        if isinstance(n, ast.DictComp) and len(n.generators) == 1 and \
                not n.generators[0].ifs and isinstance(n.generators[0].target, ast.Tuple) \
                and [norm_src(x) for x in n.generators[0].target.elts] == \
                [norm_src(n.key), norm_src(n.value)]:
            return ev.ev(n.generators[0].iter, env)
        if isinstance(n, ast.BoolOp) and isinstance(n.op, ast.Or) and len(n.values) == 2:
            # `len(defaults) or getattr(func, '__defaults_count__', 0)`: both are
            # "the number of defaults" D; `x or ()`: x when present
            va = ev.ev(n.values[0], env)
            if isinstance(va, Aff) and va == D and ev.ev(n.values[1], env) == D:
                return D
        return None
    return leaf


def _infeasible(cons):
    for g in cons:
        if g.is_const() and g.norm().get(1, 0) < 0:
            return True
    for i, g in enumerate(cons):
        for h in cons[i + 1:]:
            t = g + h
            if t.is_const() and t.norm().get(1, 0) < 0:
                return True
    return False


def from_function_layout(rep, mod, rule):
    """fromFunction's five fields against the co_varnames layout, over the
    path summaries (resolved stores and facts), for every choice of the
    min()/max() arms (shared: C18 R18.1, C17 R17.5)"""
    import itertools
    from ..sympath import summaries as _S, normal as _N
    from .sem import nt as _nt
    f = find_def(mod, 'fromFunction')
    site = 'interface.fromFunction'
    fields = ('positional', 'required', 'optional', 'varargs', 'kwargs')
    verdicts = {k: [] for k in fields}
    negidx, prov, rets = [], [], []
    ncases = 0
    ss = _N(_S(f))
    rep.stat('paths_enumerated', len(ss))
    for ps in ss:
        obj = _nt(ps.ret)
        if not obj.startswith('Method('):
            rets.append('returns `%s`' % obj[:60])
            continue
        stores = {}
        for e in ps.events:
            if e.kind == 'store' and isinstance(e.r, ast.Attribute) and \
                    _nt(e.r.value) == obj and e.r.attr in fields:
                stores[e.r.attr] = e
        vals = {k: e.val for k, e in stores.items()}
        # a dictionary filled through update(): its content is the argument
        if 'optional' in vals and isinstance(vals['optional'], ast.Dict) and \
                not vals['optional'].keys:
            ups = [e for e in ps.events if e.kind == 'call' and
                   isinstance(e.r.func, ast.Attribute) and e.r.func.attr == 'update'
                   and _nt(e.r.func.value) == '{}' and len(e.r.args) == 1]
            if len(ups) == 1:
                vals['optional'] = ups[0].r.args[0]
        facts = []
        for c, t, p in ps.order:
            if c.startswith(('ITER(', 'EXCEPT(')):
                continue
            try:
                facts.append((ast.parse(c, mode='eval').body, t, c))
            except SyntaxError:
                continue
        # provenance of the layout data
        for v in list(vals.values()) + [x for x, _, _ in facts]:
            if v is None:
                continue
            for n in ast.walk(v):
                if isinstance(n, ast.Attribute) and n.attr.startswith('co_') and \
                        _nt(n.value) != 'func.__code__':
                    prov.append('%s read from `%s`' % (n.attr, _nt(n.value)[:40]))
                if isinstance(n, ast.Call) and isinstance(n.func, ast.Name) and \
                        n.func.id == 'getattr' and len(n.args) >= 2 and \
                        isinstance(n.args[1], ast.Constant):
                    base = _nt(n.args[0])
                    nm = n.args[1].value
                    if str(nm).startswith('co_') and base != 'func.__code__':
                        prov.append('%s read from `%s`' % (nm, base[:40]))
                    if nm in ('__defaults__', '__defaults_count__') and base != 'func':
                        prov.append('%s read from `%s`' % (nm, base[:40]))
                if isinstance(n, ast.Attribute) and n.attr == '__defaults__' and \
                        _nt(n.value) != 'func':
                    prov.append('__defaults__ read from `%s`' % _nt(n.value)[:40])
        # choice points
        keys = []
        for v in list(vals.values()) + [x for x, _, _ in facts]:
            if v is None:
                continue
            for n in ast.walk(v):
                if isinstance(n, ast.Call) and isinstance(n.func, ast.Name) and \
                        n.func.id in ('min', 'max') and len(n.args) == 2:
                    k_ = norm_src(n)
                    if k_ not in keys:
                        keys.append(k_)
        for bits in itertools.product((0, 1), repeat=len(keys)):
            choices = dict(zip(keys, bits))
            cons = [A, K, D, M]
            ev = AffEval(_leaf2(choices, cons))
            env = {}
            va = vk = None
            try:
                for e_, t, c in facts:
                    if 'CO_VARARGS' in c:
                        va = t
                        continue
                    if 'CO_VARKEYWORDS' in c:
                        vk = t
                        continue
                    if isinstance(e_, ast.Compare) and len(e_.ops) == 1 and \
                            isinstance(e_.ops[0], ast.Lt):
                        l, r = ev.ev(e_.left, env), ev.ev(e_.comparators[0], env)
                        if isinstance(l, Aff) and isinstance(r, Aff):
                            cons.append((r - l - Aff.const(1)) if t else (l - r))
                out = {k: (ev.ev(v, env) if v is not None else None)
                       for k, v in vals.items()}
            except _Choice:
                continue
            if _infeasible(cons):
                continue
            ncases += 1
            where = '%s%s' % ([c for _, _, c in facts][:6],
                              (' with ' + str(choices)) if choices else '')
            # the effective level: min(imlevel, co_argcount)
            if provably_nonneg(A - M, cons):
                Me = M
            elif provably_nonneg(M - A - Aff.const(1), cons):
                Me = A
            else:
                Me = M
            if provably_nonneg(Aff.const(0) - (A - Me - D) - Aff.const(1), cons):
                clamped = True
            elif provably_nonneg(A - Me - D, cons):
                clamped = False
            else:
                clamped = None
            for kind, form, src in ev.rel:
                if not provably_nonneg(form, cons):
                    negidx.append(('%s `%s` = %r can be negative (e.g. imlevel=1 for a '
                                   'method whose self is taken by *args: A=0, M=1)'
                                   % (kind, src[-60:], form), where))
            want = {
                'positional': Slice('varnames', Me, A),
                'required': Slice('varnames', Me, Me) if clamped
                else Slice('varnames', Me, A - D),
                'varargs': Elem('varnames', A + K) if va else None,
                'kwargs': (Elem('varnames', A + K + Aff.const(1 if va else 0))
                           if vk else None),
            }
            if va is None or vk is None:
                verdicts['varargs' if va is None else 'kwargs'].append(
                    ('CO_VARARGS / CO_VARKEYWORDS not tested on this path', where))
            for k in ('positional', 'required', 'varargs', 'kwargs'):
                got = out.get(k, Unknown('never assigned on this path'))
                ok = (got == want[k]) if want[k] is not None else (got is None)
                if not ok:
                    verdicts[k].append(('%s = %r, required %r' % (k, got, want[k]), where))
            got = out.get('optional', Unknown('never assigned'))
            oko = False
            if isinstance(got, Zip) and isinstance(got.a, Slice) and isinstance(got.b, Slice):
                if clamped:
                    oko = got.a.base == 'varnames' and got.a.lo == Me and \
                        got.b.base == 'defaults' and got.b.lo == (D - A + Me)
                else:
                    oko = got.a.base == 'varnames' and got.a.lo == (A - D) and \
                        got.b.base == 'defaults' and got.b.lo == Aff.const(0)
            if not oko:
                verdicts['optional'].append(
                    ('optional = %r (required zip(varnames[%s:], defaults[%s:]))'
                     % (got, 'M' if clamped else 'A - D',
                        'D - (A - M)' if clamped else '0'), where))
    rep.require_soft(ncases >= 8, 'fromFunction: only %d path cases' % ncases)
    for k in fields:
        bad = verdicts[k]
        detail = '%s agrees with the co_varnames layout in all %d path cases' % (k, ncases)
        if bad:
            detail = {'field': k, 'cases_violating': len(bad), 'first': bad[0][0],
                      'where': bad[0][1][:300]}
        rep.check(rule, site, not bad, detail, construct=k, node=f)
    rep.check(rule, site, not negidx,
              'every index and slice bound into co_varnames is non-negative for '
              'all code objects and levels' if not negidx else
              {'cases_violating': len(negidx), 'first': negidx[0][0],
               'where': negidx[0][1][:300]},
              construct='non-negative-index', node=f)
    rep.check(rule, site, not prov,
              'the layout data (co_argcount, co_varnames, co_flags, __defaults__) '
              'is read from func and func.__code__ only' if not prov else
              {'problems': sorted(set(prov))[:3]}, construct='code', node=f)
    rep.check(rule, site, bool(ss) and not rets,
              'every path returns the Method it has just built and filled (no '
              'memoized/early result)' if not rets else
              {'problems': sorted(set(rets))[:3]}, construct='single-return', node=f)


def run(rep):
    repo = rep.repo
    mod = repo.module('interface.py')
    rep.rule('R18.1', 'fromFunction: along every path, positional = '
             'co_varnames[M:A], required = [M:A-D] (clamped to empty when '
             'D > A-M), optional names = the last min(D, A-M) positionals '
             'zipped with the last defaults, *name at index A+K, **name at '
             'A+K+[has *name]; all derived from the function\'s own code '
             'object on every path', floor=8)
    rep.rule('R18.2', 'whoever rewrites one signature field of a Method '
             'rewrites the dependent ones consistently (positional and its '
             'prefix required)', floor=1)
    rep.rule('R18.3', 'rendering: positionals in order each followed by '
             '=repr(default) iff optional, then *varargs iff set, then '
             '**kwargs iff set; getSignatureInfo returns the five fields '
             'under their names', floor=2)
    rep.rule('R18.4', 'every function attribute becomes a tagged value; '
             'fromMethod unwraps __func__ and strips self (imlevel=1)', floor=3)
    rep.rule('R18.5', 'the verifier describes a candidate at the level it will be '
             'called at: _verify_element decides between fromFunction(attr, imlevel=1) '
             '(a plain function found on a class), fromMethod (a bound method) and '
             'fromFunction(attr) (a static method found anywhere on the MRO) by the '
             'conditions of C17 R17.3 (shared)', floor=1)
    rep.decline('none (keyword-only/positional-only parameters are not part '
                'of the five reported fields; the rule checks they do not '
                'shift the reported ones)')
    rep.assume('CPython code-object layout: co_varnames = positional '
               '(co_argcount, incl. positional-only), keyword-only, *name, '
               '**name, locals')

    from_function_layout(rep, mod, 'R18.1')
    f = find_def(mod, 'fromFunction')

    # ---- R18.2 field consistency ------------------------------------------------
    from . import methodsem
    methodsem.abc_method(rep, repo, 'R18.2')
    methodsem.field_rewrites(rep, repo, 'R18.2', 'fromFunction')

    # ---- R18.3 rendering --------------------------------------------------------
    methodsem.render_spec(rep, mod, 'R18.3')

    # ---- R18.4 (over path summaries) -----------------------------------------------
    from ..sympath import summaries as _S, normal as _N
    from .sem import nt as _nt
    SRC = 'func.__dict__.items()'
    E = 'EACH(%s)' % SRC
    cfg = cfg_of(f)
    bad_t, bad_i = [], []
    n_t = 0
    for ps in _N(_S(f)):
        obj = _nt(ps.ret)
        tv = [e for e in ps.events if e.kind == 'call' and
              isinstance(e.r.func, ast.Attribute) and e.r.func.attr == 'setTaggedValue']
        it = ps.facts.get('ITER(%s)' % SRC)
        if it is None:
            bad_t.append('func.__dict__.items() is not walked')
        elif it:
            n_t += 1
            args = [[_nt(a_) for a_ in e.r.args] for e in tv]
            if len(tv) != 1 or _nt(tv[0].r.func.value) != obj or \
                    args[0] not in (['%s[0]' % E, '%s[1]' % E], ['*%s' % E]):
                bad_t.append('an item is recorded as %s' % [_nt(e.r)[-70:] for e in tv])
            extra = [c for c, t, p in ps.order if E in c and not c.startswith('ITER(')]
            if extra:
                bad_t.append('items filtered by `%s`' % extra[0][:60])
            k = [i for i, (c, t, p) in enumerate(ps.order) if c == 'ITER(%s)' % SRC][-1]
            loop = ps.order_nodes[k][0].ast
            if isinstance(loop, ast.For) and [x for x in walk_local(loop) if isinstance(
                    x, (ast.Break, ast.Return))]:
                bad_t.append('the walk over the function attributes ends early')
        elif tv:
            bad_t.append('a tagged value is set without a function attribute')
        # identity
        call = ps.ret
        if not (isinstance(call, ast.Call) and dotted(call.func) == 'Method'
                and len(call.args) == 2 and not call.keywords):
            bad_i.append('built as `%s`' % obj[:60])
            continue
        nm, doc = _nt(call.args[0]), _nt(call.args[1])
        tname = ps.facts.get('name')
        if tname is None and ps.facts.get('name is None') is not None:
            bad_i.append('default name chosen by `name is None` (an empty name must '
                         'fall back to func.__name__ as well)')
        okn = nm == 'name or func.__name__' or (nm == 'name' and tname is True) or \
            (nm == 'func.__name__' and tname is False)
        if not okn:
            bad_i.append('named `%s`' % nm[:50])
        if doc != 'func.__doc__':
            bad_i.append('documented with `%s`' % doc[:50])
        st = [_nt(e.val) for e in ps.stores() if _nt(e.r) == '%s.interface' % obj]
        if st[-1:] != ['interface']:
            bad_i.append('interface stored as %s' % st)
    if not n_t:
        bad_t.append('no path records a function attribute')
    rep.check('R18.4', 'interface.fromFunction', not bad_t,
              'every item of func.__dict__ becomes a tagged value' if not bad_t else
              {'problems': sorted(set(bad_t))[:3]}, construct='tagged', node=f)
    rep.check('R18.4', 'interface.fromFunction', not bad_i,
              'the Method carries name (default func.__name__), doc and interface'
              if not bad_i else {'problems': sorted(set(bad_i))[:3]},
              construct='identity', node=f)
    methodsem.from_method(rep, mod, 'R18.4')
    from . import verifysem
    verifysem.verify_element(rep, repo.module('verify.py'), 'R18.5')
