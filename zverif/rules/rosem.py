"""ro.py (C3 resolution) rules over path summaries - C03.

Everything is stated over resolved path summaries (sympath, with list-content
tracking): the merge is described by per-round invariants that hold whichever
way the loop is rotated; the head selection by the facts that decide a
candidate; the inconsistency flag by event order (read after the merge)."""
import ast

from ..core import AnalysisError, norm_src
from ..pyfront import find_def, walk_local, dotted, FUNC, methods_of, class_attr_assign
from ..flowq import iter_polarity
from ..cfg import cfg_of
from ..sympath import summaries, normal
from .sem import nt, ifexp_table


def S(f, all_paths=False):
    ss = summaries(f, normal_only=not all_paths, lists=True)
    return ss if all_paths else normal(ss)


def seq_parts(e):
    """flatten a list/tuple expression into [('item', node) | ('each', comp)
    | ('star', node)]"""
    if isinstance(e, (ast.List, ast.Tuple)):
        out = []
        for x in e.elts:
            out += seq_parts(x.value) if isinstance(x, ast.Starred) else [('item', x)]
        return out
    if isinstance(e, ast.BinOp) and isinstance(e.op, ast.Add):
        return seq_parts(e.left) + seq_parts(e.right)
    if isinstance(e, ast.Call) and dotted(e.func) in ('list', 'tuple') and \
            len(e.args) == 1 and not e.keywords:
        return seq_parts(e.args[0])
    if isinstance(e, (ast.ListComp, ast.GeneratorExp)):
        return [('each', e)]
    return [('star', e)]


def comp_shape(c):
    """(element text with the loop variable called $, source text, direction,
    filters) of a one-generator comprehension"""
    if not isinstance(c, (ast.ListComp, ast.GeneratorExp)) or len(c.generators) != 1:
        return None
    g = c.generators[0]
    if not isinstance(g.target, ast.Name):
        return None
    src, d = iter_polarity(g.iter)

    class R(ast.NodeTransformer):
        def visit_Name(self, n):
            return ast.Name(id='$', ctx=n.ctx) if n.id == g.target.id else n
    from ..pyfront import clone
    elt = nt(R().visit(clone(c.elt)))
    ifs = [nt(R().visit(clone(x))) for x in g.ifs]
    return elt, nt(src), d, ifs


def inside_loop(stmt, func):
    p = getattr(stmt, 'parent', None)
    while p is not None and p is not func:
        if isinstance(p, (ast.For, ast.While)):
            return True
        p = getattr(p, 'parent', None)
    return False


def last_fact(ps, key, before=None):
    out = None
    for c, t, p in ps.order:
        if before is not None and p > before:
            break
        if c == key:
            out = t
    return out


# ---------------------------------------------------------------------------
# R03.3: the merge

def merge_rounds(rep, mod, rule):
    f = find_def(mod, 'C3._merge')
    site = 'C3._merge'
    probs = []
    rounds = excs = 0
    NB = 'self._nonempty_bases_ignoring('
    for ps in S(f):
        cur_t = None
        choice = None
        chosen = []
        appended = 0
        for i, e in enumerate(ps.events):
            if e.kind != 'call':
                continue
            txt = nt(e.r)
            fn = nt(e.r.func)
            args = [nt(a) for a in e.r.args]
            if fn == 'self._nonempty_bases_ignoring' and len(args) == 2:
                if cur_t is None:
                    if args != ['self.base_tree', 'None']:
                        probs.append('the first round starts from `%s` ignoring `%s`'
                                     % (args[0][:40], args[1][:30]))
                else:
                    if args[0] != cur_t or choice is None or args[1] != choice:
                        probs.append('a round does not drop exactly the base just chosen '
                                     'from the lists that remained')
                    elif appended != len(chosen):
                        probs.append('a chosen base is not appended to the result')
                cur_t, choice = txt, None
            elif fn == 'self._choose_next_base' and len(args) == 1:
                if args[0] != cur_t:
                    probs.append('the next base is chosen from `%s`, not from the '
                                 'remaining lists' % args[0][:50])
                if last_fact(ps, cur_t, before=i) is not True:
                    probs.append('a base is chosen without testing that lists remain')
                if choice is not None:
                    probs.append('two bases chosen in one round')
                choice = txt
                chosen.append(txt)
            elif isinstance(e.r.func, ast.Attribute) and e.r.func.attr in (
                    'append', 'insert', 'extend'):
                if e.r.func.attr != 'append' or args != [choice]:
                    probs.append('result extended by `%s`' % txt[:70])
                appended += 1
        ret = nt(ps.ret)
        if ps.facts.get('EXCEPT(self._UseLegacyRO)') is True:
            excs += 1
            st = [x for x in ps.stores() if nt(x.r) == 'self.__mro']
            if ret != 'self.legacy_ro' or not st or nt(st[-1].val) != 'self.legacy_ro':
                probs.append('an inconsistent hierarchy does not fall back to the '
                             'legacy order (returns `%s`)' % ret[:40])
            other = [c for c, t, p in ps.order if c.startswith('EXCEPT(')
                     and c != 'EXCEPT(self._UseLegacyRO)']
            if other:
                probs.append('also handles %s' % other[0])
            continue
        if cur_t is None:
            probs.append('a path returns without looking at the base tree')
            continue
        if last_fact(ps, cur_t) is not False:
            probs.append('returns although lists remain')
        want = '[%s]' % ', '.join(chosen)
        if ret not in (want, 'list(%s)' % want):
            probs.append('returns `%s`, required the chosen bases in order %s'
                         % (ret[:60], want[:60]))
        if chosen:
            rounds += 1
    if not rounds:
        probs.append('no path performs a full round')
    if not excs:
        probs.append('no fallback path')
    rep.check(rule, site, not probs,
              'each round: drop the last chosen base from every remaining list '
              '(first round: self.base_tree, nothing to drop), stop when nothing '
              'remains, choose the next base from what remains, append it; '
              '_UseLegacyRO (only) -> legacy order'
              if not probs else {'problems': sorted(set(probs))[:3]},
              construct='merge-loop', node=f)


def can_choose_base(rep, mod, rule):
    f = find_def(mod, 'C3._can_choose_base')
    site = 'C3._can_choose_base'
    ps_ = [a.arg for a in f.args.args]
    base, tree = ps_[-2], ps_[-1]
    E = 'EACH(%s)' % tree
    probs = []
    kinds = set()
    for ps in S(f):
        ret = nt(ps.ret)
        outer = ps.facts.get('ITER(%s)' % tree)
        if not outer:
            kinds.add('empty')
            if ret != 'True':
                probs.append('no remaining list, returns %s' % ret)
            continue
        nonempty = ps.facts.get(E)
        head = None
        for c, t, p in ps.order:
            if c in ('%s[0] is %s' % (E, base), '%s is %s[0]' % (base, E)):
                head = t
        inner = [(c, t) for c, t, p in ps.order if c.startswith('ITER(') and E in c]
        hit = None
        ANY = ['any((c0 is %s for c0 in %s))' % (base, E),
               'any((%s is c0 for c0 in %s))' % (base, E),
               'any([c0 is %s for c0 in %s])' % (base, E)]
        TAIL = ['%s in %s[1:]' % (base, E)]      # equality, not identity: rejected below
        for c, t, p in ps.order:
            if c.startswith('EACH(') and c.endswith(' is %s' % base) and E in c:
                hit = t
            elif c.startswith('%s is EACH(' % base) and E in c:
                hit = t
            elif c in ANY:
                hit = t
                inner.append((c, t))
        other = [c for c, t, p in ps.order if c not in (
            'ITER(%s)' % tree, E, '%s[0] is %s' % (E, base), '%s is %s[0]' % (base, E))
            and c not in ANY
            and not (c.startswith('ITER(') and E in c)
            and not ((c.startswith('EACH(') or c.startswith('%s is EACH(' % base))
                     and E in c and (' is %s' % base in c or c.startswith(base)))]
        if other:
            probs.append('depends on `%s`' % other[0][:60])
        if nonempty is False:
            kinds.add('skip-empty')
            want = 'True'
            if inner and inner[-1][1]:
                probs.append('scans an empty list')
        elif head is True:
            kinds.add('skip-own-head')
            want = 'True'
            if any(t for c, t in inner):
                probs.append('a list headed by the candidate is scanned')
        elif nonempty is None or head is None:
            probs.append('a list is scanned without the empty / own-head tests')
            continue
        elif hit is True:
            kinds.add('in-tail')
            want = 'False'
        else:
            kinds.add('not-in-tail')
            want = 'True'
        if ret != want:
            probs.append('%s: returns %s' % (sorted(kinds)[-1], ret))
        if want == 'True' and ps.ret_node is not None and \
                inside_loop(ps.ret_node.ast, f):
            probs.append('accepts the candidate before all remaining lists were checked')
    need = {'skip-empty', 'skip-own-head', 'in-tail', 'not-in-tail'}
    if not need <= kinds:
        probs.append('cases never seen: %s' % sorted(need - kinds))
    rep.check(rule, site, not probs,
              'a candidate is rejected iff it occurs (identity) in some remaining '
              'list that it does not head; empty lists and lists headed by the '
              'candidate are skipped' if not probs else
              {'problems': sorted(set(probs))[:3]}, construct='not-in-tails', node=f)


def find_next_base(rep, mod, rule):
    f = find_def(mod, 'C3._find_next_C3_base')
    site = 'C3._find_next_C3_base'
    tree = f.args.args[-1].arg
    E = 'EACH(%s)' % tree
    OKC = 'self._can_choose_base(%s[0], %s)' % (E, tree)
    cfg = cfg_of(f)
    probs = []
    kinds = set()
    for ps in S(f):
        ret = nt(ps.ret)
        if not ps.facts.get('ITER(%s)' % tree):
            if ret != 'None':
                probs.append('nothing remains, returns %s' % ret)
            continue
        ks = [k for k, (c, t, p) in enumerate(ps.order) if c == OKC]
        if not ks:
            probs.append('the head of a list is taken without asking _can_choose_base')
            continue
        t = ps.order[ks[-1]][1]
        kinds.add(t)
        if t:
            if ret != '%s[0]' % E:
                probs.append('an acceptable head is not returned (returns %s)' % ret[:40])
            if ps.reenters_loop(cfg, ks[-1]):
                probs.append('the walk goes on after the first acceptable head')
        else:
            if ret != 'None':
                probs.append('a rejected head is returned')
            if not ps.reenters_loop(cfg, ks[-1]):
                probs.append('the walk stops at a rejected head')
        other = [c for c, tt, p in ps.order if c not in ('ITER(%s)' % tree, OKC)]
        if other:
            probs.append('depends on `%s`' % other[0][:60])
    for k, a in [(k, a) for ps in S(f) for k, a in ps.order_ast.items()
                 if ps.order[k][0] == 'ITER(%s)' % tree]:
        if iter_polarity(a)[1] != 'fwd':
            probs.append('the remaining lists are walked backwards')
    if kinds != {True, False}:
        probs.append('outcomes of the candidate test seen: %s' % sorted(kinds))
    rep.check(rule, site, not probs,
              'walks the remaining lists forward, candidate = head of each list, '
              'first acceptable candidate returned, None when there is none'
              if not probs else {'problems': sorted(set(probs))[:3]},
              construct='first-good-head', node=f)
    f = find_def(mod, 'C3._choose_next_base')
    t_ = f.args.args[-1].arg
    C3B = 'self._find_next_C3_base(%s)' % t_
    probs = []
    kinds = set()
    for ps in S(f):
        n = ps.facts.get('%s is None' % C3B)
        kinds.add(n)
        ret = nt(ps.ret)
        if n is False and ret != C3B:
            probs.append('a C3 candidate exists but `%s` is returned' % ret[:50])
        elif n is True and ret != 'self._guess_next_base(%s)' % t_:
            probs.append('no C3 candidate: returns `%s`' % ret[:50])
        elif n is None:
            probs.append('the C3 candidate is not tested for None')
    if kinds != {True, False}:
        probs.append('cases seen %s' % sorted(kinds, key=str))
    rep.check(rule, 'C3._choose_next_base', not probs,
              'the C3 candidate is used whenever there is one; the fallback is '
              'reached only when there is none' if not probs else
              {'problems': sorted(set(probs))[:3]}, construct='c3-first', node=f)


def nonempty_ignoring(rep, mod, rule):
    f = find_def(mod, 'C3._nonempty_bases_ignoring')
    ps_ = [a.arg for a in f.args.args]
    tree, ign = ps_[-2], ps_[-1]
    INNER = ('$', '$', 'fwd')   # placeholder

    def inner_ok(c, var):
        sh = comp_shape(c)
        return sh is not None and sh[0] == '$' and sh[1] == var and sh[2] == 'fwd' and \
            sh[3] == ['$ is not %s' % ign]

    probs = []
    rets = [ps.ret for ps in S(f)]
    if not rets:
        probs.append('no normal path')
    for r in rets:
        ok = False
        e = r
        if isinstance(e, ast.Call) and dotted(e.func) == 'list' and len(e.args) == 1:
            e = e.args[0]
        # filter(None, [[..] for bases in tree])
        if isinstance(e, ast.Call) and dotted(e.func) == 'filter' and len(e.args) == 2 \
                and nt(e.args[0]) == 'None':
            outer = e.args[1]
            if isinstance(outer, (ast.ListComp, ast.GeneratorExp)) and \
                    len(outer.generators) == 1 and not outer.generators[0].ifs:
                g = outer.generators[0]
                src, d = iter_polarity(g.iter)
                ok = nt(src) == tree and d == 'fwd' and isinstance(g.target, ast.Name) \
                    and inner_ok(outer.elt, g.target.id)
        elif isinstance(e, (ast.ListComp, ast.GeneratorExp)) and len(e.generators) == 1:
            g = e.generators[0]
            src, d = iter_polarity(g.iter)
            if nt(src) == tree and d == 'fwd' and isinstance(g.target, ast.Name):
                v = g.target.id
                # [INNER for bases in tree if INNER]
                if inner_ok(e.elt, v) and len(g.ifs) == 1 and nt(g.ifs[0]) == nt(e.elt):
                    ok = True
            elif isinstance(g.target, ast.Name) and nt(e.elt) == g.target.id and \
                    [nt(x) for x in g.ifs] == [g.target.id] and \
                    isinstance(g.iter, (ast.ListComp, ast.GeneratorExp)):
                # [x for x in [[..] for bases in tree] if x]
                o = g.iter
                if len(o.generators) == 1 and not o.generators[0].ifs:
                    g2 = o.generators[0]
                    s2, d2 = iter_polarity(g2.iter)
                    ok = nt(s2) == tree and d2 == 'fwd' and d == 'fwd' and \
                        isinstance(g2.target, ast.Name) and inner_ok(o.elt, g2.target.id)
        if not ok:
            probs.append('returns `%s`' % nt(r)[:110])
    rep.check(rule, 'C3._nonempty_bases_ignoring', not probs,
              'removes the chosen base (identity) from every list and drops empty '
              'lists, keeping order' if not probs else {'problems': sorted(set(probs))[:2]},
              construct='remove-chosen', node=f)


def mro_memo(rep, mod, rule):
    f = find_def(mod, 'C3.mro')
    probs = []
    kinds = set()
    M = 'tuple(self._merge())'
    for ps in S(f):
        n = ps.facts.get('self.__mro is None')
        kinds.add(n)
        ret = nt(ps.ret)
        st = [e for e in ps.stores() if nt(e.r) == 'self.__mro']
        if n is True:
            if [nt(e.val) for e in st] != [M] or ret not in ('list(self.__mro)', 'list(%s)' % M):
                probs.append('first use: stores %s, returns `%s`'
                             % ([nt(e.val)[:30] for e in st], ret[:40]))
        elif n is False:
            if st or ret != 'list(self.__mro)':
                probs.append('memoized order: returns `%s`' % ret[:40])
        else:
            probs.append('the memo is not consulted')
    if kinds != {True, False}:
        probs.append('cases seen %s' % sorted(kinds, key=str))
    rep.check(rule, 'C3.mro', not probs, 'mro() = memoized merge result (a fresh list)'
              if not probs else {'problems': sorted(set(probs))[:3]}, construct='mro', node=f)


# ---------------------------------------------------------------------------
# R03.4: base tree

def base_tree(rep, mod, rule):
    f = find_def(mod, 'C3.__init__')
    site = 'C3.__init__'
    B = 'C.__bases__'
    probs, pk, psc = [], [], []
    n = 0
    for ps in S(f):
        st = [e for e in ps.stores() if nt(e.r) == 'self.base_tree']
        if len(st) != 1:
            probs.append('%d stores of base_tree on a path' % len(st))
            continue
        n += 1
        parts = seq_parts(st[0].val)
        ok = len(parts) == 3 and parts[0][0] == 'item' and nt(parts[0][1]) == '[C]' and \
            parts[1][0] == 'each' and comp_shape(parts[1][1]) == (
                'memo[$].mro()', B, 'fwd', []) and \
            parts[2][0] == 'item' and nt(parts[2][1]) in ('list(%s)' % B, '[*%s]' % B)
        if not ok:
            probs.append('base_tree = `%s`' % nt(st[0].val)[:120])
        # resolvers of the bases: same kind, through the memo
        if ps.facts.get('ITER(%s)' % B):
            E = 'EACH(%s)' % B
            inm = ps.facts.get('%s in memo' % E)
            ms = [e for e in ps.stores() if nt(e.r) == 'memo[%s]' % E]
            if inm is False:
                if [nt(e.val) for e in ms] != ['self.__class__(%s, memo)' % E]:
                    pk.append('a missing base resolver is created as %s'
                              % [nt(e.val)[:50] for e in ms])
            elif inm is True and ms:
                pk.append('an existing base resolver is replaced')
            elif inm is None:
                pk.append('the memo is not consulted for a base')
        one = ps.facts.get('len(%s) == 1' % B)
        sm = [e for e in ps.stores() if nt(e.r) == 'self.__mro']
        if one is True:
            if [nt(e.val) for e in sm] not in (
                    ['[C] + memo[%s[0]].mro()' % B], ['[C, *memo[%s[0]].mro()]' % B]):
                psc.append('single base: __mro = %s' % [nt(e.val)[:50] for e in sm])
        elif sm:
            psc.append('the order is precomputed although there is not exactly one base')
    for k, a in [(k, a) for ps in S(f) for k, a in ps.order_ast.items()
                 if ps.order[k][0] == 'ITER(%s)' % B]:
        if iter_polarity(a)[1] != 'fwd':
            pk.append('bases resolved backwards')
    if not n:
        probs.append('no path stores base_tree')
    rep.check(rule, site, not probs,
              'base_tree = [[C]] + [mro(b) for b in C.__bases__] + '
              '[list(C.__bases__)] (the object first, local precedence order last)'
              if not probs else {'problems': sorted(set(probs))[:2]},
              construct='base-tree', node=f)
    rep.check(rule, site, not pk,
              'bases are resolved recursively with the same resolver kind through '
              'the shared memo (strictness is inherited)' if not pk else
              {'problems': sorted(set(pk))[:2]}, construct='recursive-kind', node=f)
    rep.check(rule, site, not psc,
              'single-inheritance shortcut: [C] + mro(base), only for exactly one base'
              if not psc else {'problems': sorted(set(psc))[:2]}, construct='shortcut',
              node=f)


# ---------------------------------------------------------------------------
# R03.1: the flag is read after the merge

def flag_typestate(rep, mod, rule):
    c3 = find_def(mod, 'C3')
    writers = set()
    for fn in ast.walk(mod):
        if isinstance(fn, FUNC):
            for n in walk_local(fn):
                if isinstance(n, (ast.Assign, ast.AugAssign)):
                    for t in (n.targets if isinstance(n, ast.Assign) else [n.target]):
                        if isinstance(t, ast.Attribute) and t.attr == 'direct_inconsistency':
                            writers.add(fn.name)
                if isinstance(n, ast.Call) and dotted(n.func) == 'setattr' and \
                        len(n.args) >= 2 and isinstance(n.args[1], ast.Constant) and \
                        n.args[1].value == 'direct_inconsistency':
                    writers.add(fn.name)
    rep.check(rule, 'C3._guess_next_base', writers == {'_guess_next_base'},
              'direct_inconsistency is written only in _guess_next_base: %s'
              % sorted(writers), construct='writer', node=c3)

    def callers(name):
        out = set()
        for fn in ast.walk(mod):
            if isinstance(fn, FUNC):
                for c in walk_local(fn):
                    if isinstance(c, ast.Call) and isinstance(c.func, ast.Attribute) \
                            and c.func.attr == name:
                        out.add(fn.name)
        return out
    chain = {k: callers(k) for k in ('_guess_next_base', '_choose_next_base', '_merge')}
    ok = chain['_guess_next_base'] <= {'_choose_next_base', '_guess_next_base'} and \
        chain['_choose_next_base'] == {'_merge'} and chain['_merge'] == {'mro'}
    rep.check(rule, 'C3.mro', ok,
              'the flag can only be set through mro() -> _merge -> '
              '_choose_next_base -> _guess_next_base (callers: %s)' % {
                  k: sorted(v) for k, v in chain.items()},
              construct='typestate', node=c3)

    # C3.__init__: bases_had_inconsistency = any flag of the resolver of every
    # base, read after the orders of all bases were computed
    f = find_def(mod, 'C3.__init__')
    B = 'C.__bases__'
    RES = 'memo[EACH(%s)]' % B
    probs = []
    n = 0
    for ps in S(f):
        bt = [e for e in ps.stores() if nt(e.r) == 'self.base_tree']
        fl = [e for e in ps.stores() if nt(e.r) == 'self.bases_had_inconsistency']
        if len(fl) != 1:
            probs.append('%d stores of bases_had_inconsistency on a path' % len(fl))
            continue
        n += 1
        reads = [p for c, t, p in ps.order if 'had_inconsistency' in c] + \
            [i for i, e in enumerate(ps.events) if 'had_inconsistency' in repr(e)
             and e is not fl[0] or (e is fl[0] and 'had_inconsistency' in nt(e.val))]
        mros = [i for i, e in enumerate(ps.events) if e.kind == 'call' and
                nt(e.r).endswith('.mro()') and 'memo[' in nt(e.r)]
        if bt and reads and min(reads) < ps.index(bt[0]):
            probs.append('flags of the base resolvers are read before their orders '
                         'were computed (base_tree)')
        if ps.facts.get('ITER(%s)' % B) and reads and mros and min(reads) < min(mros):
            probs.append('flags of the base resolvers are read before mro() ran')
        v = fl[0].val
        ok = False
        if isinstance(v, ast.Call) and dotted(v.func) == 'any' and len(v.args) == 1:
            sh = comp_shape(v.args[0])
            if sh is not None and sh[0] == '$.had_inconsistency' and not sh[3]:
                src = sh[1]
                ok = (src == '[]' and not ps.facts.get('ITER(%s)' % B)) or \
                    src in ('[%s]' % RES, '[memo[$] for $ in %s]' % B) or \
                    src == '[memo[base] for base in %s]' % B
                if not ok:
                    sp = seq_parts(ast.parse(src, mode='eval').body)
                    ok = len(sp) == 1 and sp[0][0] == 'each' and comp_shape(sp[0][1]) == (
                        'memo[$]', B, 'fwd', [])
        elif isinstance(v, ast.Constant) and isinstance(v.value, bool):
            each = [(c, t) for c, t, p in ps.order if c.endswith('.had_inconsistency')
                    and c.startswith('EACH(') and RES in c]
            if v.value:
                ok = bool(each) and each[-1][1] is True
            else:
                ok = all(not t for c, t in each) and (
                    bool(each) or not ps.facts.get('ITER(%s)' % B)
                    or not any(c.startswith('ITER([') and t for c, t, p in ps.order))
        if not ok:
            probs.append('bases_had_inconsistency = `%s`' % nt(v)[:80])
    if not n:
        probs.append('bases_had_inconsistency is never stored')
    rep.check(rule, 'C3.__init__', not probs,
              'bases_had_inconsistency = any flag of the resolver of EVERY base, read '
              'after the orders of the bases were merged' if not probs else
              {'problems': sorted(set(probs))[:3]}, construct='read:bases', node=f)

    # is_consistent
    f = find_def(mod, 'is_consistent')
    probs = []
    seen = set()
    whole = None
    for ps in S(f):
        rs = [e for e in ps.events if e.kind == 'call' and dotted(e.r.func) == 'C3.resolver']
        if len(rs) != 1:
            probs.append('%d resolvers created' % len(rs))
            continue
        R = nt(rs[0].r)
        a = [nt(x) for x in rs[0].r.args]
        if len(a) != 3 or a[0] != f.args.args[0].arg or a[1] != 'False':
            probs.append('resolver `%s` is not the non-strict resolver of the '
                         'argument' % R[:60])
        whole = a[2] if len(a) == 3 else '?'
        m = [i for i, e in enumerate(ps.events) if e.kind == 'call' and nt(e.r) == R + '.mro()']
        FL = R + '.had_inconsistency'
        t = ps.facts.get(FL)
        ret = nt(ps.ret)
        if t is None:
            if ret != 'not ' + FL:
                probs.append('returns `%s`' % ret[:60])
            pos = len(ps.events)
        else:
            seen.add(t)
            if ret != ('False' if t else 'True'):
                probs.append('inconsistent=%s returns %s' % (t, ret))
            pos = [p for c, tt, p in ps.order if c == FL][0]
        if not m or m[0] >= pos:
            probs.append('the flag of a resolver that never merged is read '
                         '(no .mro() before it)')
    rep.check(rule, 'is_consistent', not probs,
              'returns not <non-strict resolver of C>.had_inconsistency, read after '
              'that resolver\'s mro() ran the merge' if not probs else
              {'problems': sorted(set(probs))[:3]}, construct='result', node=f)
    st = find_def(mod, '_StaticMRO')
    unknown = class_attr_assign(st, 'had_inconsistency')
    tri = unknown is not None and norm_src(unknown) == 'None'
    okw = whole in ('None', '{}', 'dict()') or not tri
    rep.check(rule, 'is_consistent', okw,
              'the whole tree is resolved (base_mros = %s): precomputed orders '
              'carry had_inconsistency = None, which would hide an inherited '
              'inconsistency' % str(whole)[:60], construct='whole-tree', node=f)


# ---------------------------------------------------------------------------
# R03.2: strict dispatch

def dispatch(rep, mod, rule):
    f = find_def(mod, 'C3.resolver')
    probs = []
    kinds = set()
    for ps in S(f):
        isnone = ps.facts.get('strict is None')
        if isnone is None:
            probs.append('strict is not tested for None')
            continue
        s = ps.facts.get('C3.STRICT_IRO') if isnone else ps.facts.get('strict')
        tr = ps.facts.get('C3.TRACK_BAD_IRO')
        r = ps.ret
        if not isinstance(r, ast.Call) or len(r.args) != 2 or nt(r.args[0]) != 'C':
            probs.append('returns `%s`' % nt(r)[:60])
            continue
        got = nt(r.func)
        if s is None:
            probs.append('strictness not tested')
            continue
        want = '_StrictC3' if s else ('_TrackingC3' if tr else 'C3')
        kinds.add(want)
        if got != want:
            probs.append('strict=%s (default used: %s) builds %s' % (s, isnone, got))
    if kinds != {'_StrictC3', '_TrackingC3', 'C3'}:
        probs.append('resolver kinds seen: %s' % sorted(kinds))
    rep.check(rule, 'C3.resolver', not probs,
              'strict (default C3.STRICT_IRO, chosen by `is None`) selects '
              '_StrictC3, else _TrackingC3 / C3; the resolver gets (C, memo)'
              if not probs else {'problems': sorted(set(probs))[:3]},
              construct='dispatch', node=f)
    s = find_def(mod, '_StrictC3._guess_next_base')
    T = s.args.args[-1].arg
    allp = S(s, all_paths=True)
    ok = bool(allp) and all(
        ps.kind == 'raise' and ps.raised is not None and
        nt(ps.raised) == 'InconsistentResolutionOrderError(self, %s)' % T
        for ps in allp if ps.kind != 'raise' or ps.ret_node is not None)
    rep.check(rule, '_StrictC3._guess_next_base', ok,
              'never returns: raises InconsistentResolutionOrderError',
              construct='strict-raises', node=s)
    g = find_def(mod, 'C3._guess_next_base')
    T = g.args.args[-1].arg
    probs = []
    for ps in S(g, all_paths=True):
        if ps.kind == 'raise' and ps.ret_node is None:
            continue
        st = [e for e in ps.stores() if nt(e.r) == 'self.direct_inconsistency']
        if ps.kind != 'raise' or nt(ps.raised) not in ('self._UseLegacyRO',
                                                        'self._UseLegacyRO()'):
            probs.append('a path ends with %s %s' % (ps.kind, ps.ret_src()[:40]))
        if [nt(e.val) for e in st] != ['InconsistentResolutionOrderError(self, %s)' % T]:
            probs.append('the inconsistency is not recorded before raising')
    rep.check(rule, 'C3._guess_next_base', not probs,
              'records the inconsistency and then raises _UseLegacyRO on every path'
              if not probs else {'problems': sorted(set(probs))[:2]},
              construct='record-then-raise', node=g)
    t = find_def(mod, '_TrackingC3._guess_next_base')
    T = t.args.args[-1].arg
    D = 'C3._guess_next_base(self, %s)' % T
    ss = S(t)
    ok = bool(ss) and all(nt(ps.ret) == D and
                          len([e for e in ps.events if e.kind == 'call' and nt(e.r) == D]) == 1
                          for ps in ss)
    rep.check(rule, '_TrackingC3._guess_next_base', ok,
              'delegates to C3._guess_next_base on every path', construct='delegate',
              node=t)
    h = find_def(mod, 'C3.had_inconsistency')
    D_, B_ = 'self.direct_inconsistency', 'self.bases_had_inconsistency'
    probs = []
    for ps in S(h):
        ret = nt(ps.ret)
        d = ps.facts.get(D_)
        if d is None:
            if ret != '%s or %s' % (D_, B_):
                probs.append('returns `%s`' % ret[:60])
        elif d:
            if ret not in (D_, 'True'):
                probs.append('direct inconsistency: returns `%s`' % ret[:40])
        else:
            b = ps.facts.get(B_)
            if not (ret == B_ or (b is not None and ret == str(bool(b)))):
                probs.append('no direct inconsistency: returns `%s`' % ret[:40])
    rep.check(rule, 'C3.had_inconsistency', not probs,
              'had_inconsistency = direct_inconsistency or bases_had_inconsistency'
              if not probs else {'problems': sorted(set(probs))[:2]},
              construct='flag', node=h)


# ---------------------------------------------------------------------------
# R03.5: ro()

def ro_result(rep, mod, rule):
    f = find_def(mod, 'ro')
    R = 'C3.resolver(C, strict, base_mros)'
    M = R + '.mro()'
    L = R + '.legacy_ro'
    probs = []
    kinds = set()
    for ps in S(f):
        ret = nt(ps.ret)
        m = [i for i, e in enumerate(ps.events) if e.kind == 'call' and nt(e.r) == M]
        if len(m) != 1:
            probs.append('the resolver\'s mro() is called %d times' % len(m))
            continue
        reads = [p for c, t, p in ps.order if 'had_inconsistency' in c]
        if reads and min(reads) <= m[0]:
            probs.append('the inconsistency flag is read before the merge ran')
        isnone = ps.facts.get('use_legacy_ro is None')
        if isnone is None:
            probs.append('use_legacy_ro is not tested for None')
            continue
        u = ps.facts.get(R + '.USE_LEGACY_IRO') if isnone else ps.facts.get('use_legacy_ro')
        if u is None:
            probs.append('returns `%s` without deciding use_legacy' % ret[:40])
            continue
        kinds.add(u)
        if ret != (L if u else M):
            probs.append('use_legacy=%s returns `%s`' % (u, ret[-40:]))
    if kinds != {True, False}:
        probs.append('use_legacy outcomes seen %s' % sorted(kinds))
    rep.check(rule, 'ro.ro', not probs,
              'returns the resolver\'s mro; the legacy order only under use_legacy '
              '(default resolver.USE_LEGACY_IRO, chosen by `is None`)'
              if not probs else {'problems': sorted(set(probs))[:3]},
              construct='result', node=f)
