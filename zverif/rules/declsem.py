"""Path-summary rules for the declaration algebra (C20) and the declaration
helpers of C01."""
import ast

from ..core import AnalysisError, norm_src
from ..pyfront import find_def, find_all, match, walk_local, dotted, methods_of
from ..flowq import iter_polarity
from ..cfg import cfg_of
from ..sympath import summaries, normal
from .sem import nt, ifexp_table
from .specsem import (fact_cmp, iterated, polarity_text, loop_exits,
                      each_conditions, all_paths, fact_indices)


def _parse(text):
    return ast.parse(text, mode='eval').body


def falsy_const(e):
    return isinstance(e, ast.Constant) and e.value in (0, False) and e.value is not None


def existence_of_removal(expr, outer_text):
    """`expr` is truthy iff some j of other.interfaces() has
    <outer>.extends(j, non-strict).  Returns (ok, detail)."""
    gen = None
    if isinstance(expr, (ast.ListComp, ast.GeneratorExp)):
        gen = expr
        if isinstance(expr, ast.GeneratorExp):
            return False, 'a generator object is always true'
    elif isinstance(expr, ast.Call) and isinstance(expr.func, ast.Name) and \
            expr.func.id == 'any' and len(expr.args) == 1 and \
            isinstance(expr.args[0], (ast.ListComp, ast.GeneratorExp)):
        gen = expr.args[0]
    if gen is None or len(gen.generators) != 1:
        return False, 'filter `%s` is not an existence test over other.interfaces()' \
            % norm_src(expr)[:100]
    g = gen.generators[0]
    if norm_src(g.iter) != 'other.interfaces()':
        return False, 'inner iteration over `%s` (required other.interfaces())' \
            % norm_src(g.iter)
    j = g.target.id if isinstance(g.target, ast.Name) else None
    tests = list(g.ifs)
    if isinstance(expr, ast.Call) or not tests:
        tests = tests + [gen.elt]
    tests = [t for t in tests if not (isinstance(t, ast.Name) and t.id == j)]
    if len(tests) != 1:
        return False, 'unexpected predicate structure `%s`' % norm_src(gen)[:100]
    t = tests[0]
    if not (isinstance(t, ast.Call) and isinstance(t.func, ast.Attribute)
            and t.func.attr == 'extends'):
        return False, 'predicate `%s` is not an extends() test' % norm_src(t)
    recv = t.func.value
    arg = t.args[0] if t.args else None
    strict = t.args[1] if len(t.args) >= 2 else None
    for kw in t.keywords:
        if kw.arg == 'strict':
            strict = kw.value
    okdir = norm_src(recv) == outer_text and isinstance(arg, ast.Name) and arg.id == j
    if not okdir:
        return False, ('predicate `%s`: receiver must be the interface of self and '
                       'the argument the interface of other (i extends j)' % norm_src(t))
    if strict is None or not falsy_const(strict):
        return False, 'predicate `%s` must be non-strict (an interface extends ' \
            'itself)' % norm_src(t)
    return True, 'keeps i iff no j in other.interfaces() with i.extends(j, strict=False)'


def decl_sub(rep, dmod, rule):
    f = find_def(dmod, 'Declaration.__sub__')
    site = 'Declaration.__sub__'
    loops = [n for n in walk_local(f) if isinstance(n, (ast.For, ast.While))]
    ss = normal(summaries(f))
    probs = []
    detail = None
    if not loops:
        # comprehension form
        rets = {nt(ps.ret) for ps in ss}
        ok = False
        for ps in ss:
            v = ps.ret
            env = match('Declaration(*$c)', v) if v is not None else None
            comp = env['c'] if env is not None else None
            if isinstance(comp, ast.Call) and dotted(comp.func) in ('tuple', 'list') \
                    and comp.args:
                comp = comp.args[0]
            if not isinstance(comp, (ast.ListComp, ast.GeneratorExp)) or \
                    len(comp.generators) != 1:
                probs.append('result `%s` is not Declaration(*[i for i in '
                             'self.interfaces() if ...])' % nt(v)[:100])
                continue
            g = comp.generators[0]
            i = g.target.id if isinstance(g.target, ast.Name) else None
            src, d = iter_polarity(g.iter)
            if not (norm_src(src) == 'self.interfaces()' and d == 'fwd'
                    and isinstance(comp.elt, ast.Name) and comp.elt.id == i):
                probs.append('iterates `%s` %s yielding `%s` (required '
                             'self.interfaces(), forward, the interface itself)'
                             % (norm_src(g.iter), d, norm_src(comp.elt)))
                continue
            if len(g.ifs) != 1:
                probs.append('no single filter')
                continue
            c = g.ifs[0]
            neg = False
            while isinstance(c, ast.UnaryOp) and isinstance(c.op, ast.Not):
                c = c.operand
                neg = not neg
            if not neg:
                probs.append('filter `%s` is not a negated existence test'
                             % norm_src(g.ifs[0])[:100])
                continue
            ok, d = existence_of_removal(c, i)
            if not ok:
                probs.append(d)
            else:
                detail = d
    else:
        SRC = 'self.interfaces()'
        each = 'EACH(%s)' % SRC
        kept = dropped = 0
        for ps in ss:
            its = iterated(ps)
            ret = nt(ps.ret)
            if any(i != SRC for i in its):
                probs.append('iterates %s' % its)
                continue
            apps = [e for e in ps.events if e.kind == 'call' and
                    isinstance(e.r.func, ast.Attribute) and e.r.func.attr == 'append']
            if ret not in ('Declaration(*[])', 'Declaration(*tuple([]))'):
                probs.append('returns `%s`' % ret[:60])
            if not its:
                if apps:
                    probs.append('appends without an interface')
                continue
            conds = [(c, t) for c, t, p in ps.order if each in c and not c.startswith('ITER(')]
            if len(conds) != 1:
                probs.append('membership of an interface of self decided by %d tests'
                             % len(conds))
                continue
            c, t = conds[0]
            ok, d = existence_of_removal(_parse(c), each)
            if not ok:
                probs.append(d)
                continue
            detail = d
            has = [e for e in apps if nt(e.r) == '[].append(%s)' % each]
            if t:       # something removes it
                dropped += 1
                if apps:
                    probs.append('an interface extended-away by other is kept')
            else:
                kept += 1
                if len(has) != 1 or len(apps) != 1:
                    probs.append('an interface not removed by other is not kept')
        for lp in loops:
            if isinstance(lp, ast.For):
                b, d = iter_polarity(lp.iter, f)
                if d != 'fwd':
                    probs.append('self.interfaces() walked backwards')
            if [n for n in walk_local(lp) if isinstance(n, (ast.Break, ast.Return))]:
                probs.append('early exit from the walk')
        # no in-place editing of a list being iterated
        for n in walk_local(f):
            if isinstance(n, ast.Call) and isinstance(n.func, ast.Attribute) and \
                    n.func.attr in ('remove', 'pop', 'insert') or isinstance(n, ast.Delete):
                probs.append('edits a list in place (`%s`)' % norm_src(n)[:40])
        if not probs and not (kept and dropped):
            probs.append('kept paths %d, dropped paths %d' % (kept, dropped))
    rep.check(rule, site, not probs, detail if not probs else
              {'problems': sorted(set(probs))[:3]}, construct='predicate', node=f)
    rep.check(rule, site,
              not [n for n in walk_local(f) if isinstance(n, ast.While)] and
              not [n for n in walk_local(f) if isinstance(n, ast.Call) and
                   isinstance(n.func, ast.Attribute) and n.func.attr in ('remove', 'pop')],
              'built in one pass (no loop that edits a list while iterating it)',
              construct='one-pass', node=f)


def decl_add(rep, dmod, rule):
    f = find_def(dmod, 'Declaration.__add__')
    site = 'Declaration.__add__'
    FRONT, OURS = '[]', 'list(self.interfaces())'
    SEEN = 'set(%s)' % OURS
    SRC = 'other.interfaces()'
    each = 'EACH(%s)' % SRC
    placement = nt(_parse('any((%s.extends(x) for x in %s))' % (each, OURS)))
    placement_l = nt(_parse('any([%s.extends(x) for x in %s])' % (each, OURS)))
    p_start, p_place = [], []
    kinds = set()
    for ps in normal(summaries(f)):
        its = iterated(ps)
        ret = nt(ps.ret)
        exts = [e for e in ps.events if e.kind == 'call' and
                nt(e.r) == '%s.extend(%s)' % (FRONT, OURS)]
        okret = ret in ('Declaration(*%s + %s)' % (FRONT, OURS),
                        'Declaration(*%s, *%s)' % (FRONT, OURS)) and not exts or \
            (ret == 'Declaration(*%s)' % FRONT and len(exts) == 1 and
             ps.index(exts[0]) == max(ps.index(e) for e in ps.events if e.kind == 'call'
                                      and e is not ps.events[-1] and
                                      nt(e.r.func) != 'Declaration') )
        if not okret:
            p_start.append('returns `%s` (extend events %d)' % (ret[:70], len(exts)))
        if any(i != SRC for i in its):
            p_place.append('iterates %s' % its)
            continue
        apps = [e for e in ps.events if e.kind == 'call' and
                isinstance(e.r.func, ast.Attribute) and e.r.func.attr in ('append', 'insert')]
        adds = [e for e in ps.events if e.kind == 'call' and
                nt(e.r) == '%s.add(%s)' % (SEEN, each)]
        if not its:
            kinds.add('empty')
            if apps:
                p_place.append('appends without an interface of other')
            continue
        seen = fact_cmp(ps, each, SEEN, 'in')
        if seen is None:
            p_place.append('an interface of other is not tested against the seen set '
                           '(set(result))')
            continue
        if seen:
            kinds.add('dup')
            if apps or adds:
                p_place.append('an interface already present is added again')
            continue
        if len(adds) != 1:
            p_place.append('a new interface is not recorded as seen')
        pl = ps.fact(placement)
        if pl is None:
            pl = ps.fact(placement_l)
        if pl is None:
            p_place.append('placement is not decided by any(i.extends(x) for x in '
                           'result) (receiver = the new interface)')
            continue
        want = '%s.append(%s)' % (FRONT if pl else OURS, each)
        kinds.add('front' if pl else 'back')
        if [nt(e.r) for e in apps] != [want]:
            p_place.append('new i that %s: %s (required %s)' % (
                'extends a member' if pl else 'extends no member',
                [nt(e.r)[:60] for e in apps], want))
        extra = [c for c in each_conditions(ps, SRC)
                 if c not in (placement, placement_l, '%s in %s' % (each, SEEN))]
        if extra:
            p_place.append('also depends on %s' % extra[:1])
    for lp in walk_local(f):
        if isinstance(lp, ast.For):
            b, d = iter_polarity(lp.iter, f)
            if nt(b) == SRC and d != 'fwd':
                p_place.append('other.interfaces() walked backwards')
            if [n for n in walk_local(lp) if isinstance(n, (ast.Break, ast.Return))]:
                p_place.append('early exit from the walk')
    if not p_place and kinds != {'empty', 'dup', 'front', 'back'}:
        p_place.append('path kinds %s' % sorted(kinds))
    rep.check(rule, site, not p_start,
              'result = (front additions) + list(self.interfaces()) + (back additions)'
              if not p_start else {'problems': sorted(set(p_start))[:3]},
              construct='start', node=f)
    rep.check(rule, site, not p_place,
              'other.interfaces() forward; seen ones skipped; a new i goes to the '
              'front iff any(i.extends(x) for x in result), else to the end'
              if not p_place else {'problems': sorted(set(p_place))[:3]},
              construct='placement', node=f)


def spec_interfaces(rep, imod, rule):
    f = find_def(imod, 'Specification.interfaces')
    B = 'self.__bases__'
    INNER = 'EACH(%s).interfaces()' % B
    each = 'EACH(%s)' % INNER
    probs = []
    kinds = set()
    for ps in normal(summaries(f)):
        its = iterated(ps)
        ys = [e for e in ps.events if e.kind in ('yield', 'yieldfrom')]
        if any(i not in (B, INNER) for i in its):
            probs.append('iterates %s' % its)
            continue
        if INNER not in its:
            if ys:
                probs.append('yields without an interface')
            continue
        seen = [(c, t) for c, t, p in ps.order if c.startswith(each + ' in ')]
        if len(seen) != 1 or seen[0][0].split(' in ', 1)[1] not in ('{}', 'set()', 'dict()'):
            probs.append('first-occurrence test missing: %s' % [c for c, t in seen])
            continue
        S = seen[0][0].split(' in ', 1)[1]
        rec = [e for e in ps.events if
               (e.kind == 'store' and isinstance(e.r, ast.Subscript) and
                nt(e.r.value) == S and nt(e.r.slice) == each) or
               (e.kind == 'call' and nt(e.r) == '%s.add(%s)' % (S, each))]
        if seen[0][1]:
            kinds.add('dup')
            if ys or rec:
                probs.append('an interface already yielded is yielded again')
        else:
            kinds.add('new')
            if [(e.kind, nt(e.r)) for e in ys] != [('yield', each)]:
                probs.append('a new interface is not yielded')
            if len(rec) != 1:
                probs.append('a yielded interface is not recorded')
        extra = [c for c in each_conditions(ps, INNER) if c != seen[0][0]] + \
            [c for c in each_conditions(ps, B) if each not in c]
        if extra:
            probs.append('also depends on %s' % extra[:1])
    for lp in walk_local(f):
        if isinstance(lp, ast.For):
            b, d = iter_polarity(lp.iter, f)
            if d != 'fwd':
                probs.append('`%s` walked backwards' % norm_src(lp.iter))
            if [n for n in walk_local(lp) if isinstance(n, (ast.Break, ast.Return))]:
                probs.append('early exit from the walk')
    if not probs and kinds != {'dup', 'new'}:
        probs.append('path kinds %s' % sorted(kinds))
    rep.check(rule, 'Specification.interfaces', not probs,
              'walks __bases__ forward, flattens each base\'s interfaces() forward, '
              'yields the first occurrence of each' if not probs else
              {'problems': sorted(set(probs))[:3]}, node=f)


def normalizeargs(rep, dmod, rule):
    f = find_def(dmod, '_normalizeargs')
    seq, out = f.args.args[0].arg, f.args.args[1].arg
    probs = []
    kinds = set()
    MRO = '%s.__class__.__mro__' % seq
    for ps in normal(summaries(f)):
        ret = nt(ps.ret)
        none = fact_cmp(ps, out, 'None')
        O = '[]' if none else out
        if none is None:
            probs.append('output not tested for None')
            continue
        if ret != O:
            probs.append('returns `%s`' % ret)
        from .sem import decided
        A_, B_ = 'InterfaceClass in %s' % MRO, 'Implements in %s' % MRO
        single = decided(ps, [A_, B_], lambda m: m[A_] or m[B_])
        if single is None:
            probs.append('kind of argument not decided by InterfaceClass/Implements '
                         'in the class MRO')
            continue
        apps = [nt(e.r) for e in ps.events if e.kind == 'call' and
                isinstance(e.r.func, ast.Attribute) and
                e.r.func.attr in ('append', 'extend', 'insert')]
        its = iterated(ps)
        recs = [nt(e.r) for e in ps.events if e.kind == 'call' and
                nt(e.r.func) == '_normalizeargs']
        if single:
            kinds.add('single')
            if apps != ['%s.append(%s)' % (O, seq)] or its or recs:
                probs.append('an interface/Implements is not appended as is: %s' % apps)
        else:
            if any(i != seq for i in its):
                probs.append('iterates %s' % its)
            if apps:
                probs.append('a sequence itself is appended')
            if its:
                kinds.add('seq')
                if recs != ['_normalizeargs(EACH(%s), %s)' % (seq, O)]:
                    probs.append('members are not flattened into the same output '
                                 'list: %s' % recs)
                if each_conditions(ps, seq):
                    probs.append('members filtered')
    for lp in walk_local(f):
        if isinstance(lp, ast.For):
            b, d = iter_polarity(lp.iter, f)
            if d != 'fwd':
                probs.append('sequence walked backwards')
            if [n for n in walk_local(lp) if isinstance(n, (ast.Break, ast.Return))]:
                probs.append('early exit from the walk')
    if not probs and kinds != {'single', 'seq'}:
        probs.append('path kinds %s' % sorted(kinds))
    rep.check(rule, 'declarations._normalizeargs', not probs,
              'interfaces / Implements are appended as is, other sequences are '
              'flattened in place, forward' if not probs else
              {'problems': sorted(set(probs))[:3]}, node=f)


# ---------------------------------------------------------------------------
# C01: _classImplements_ordered

ELIDE = ('[$x for $x in %s if not spec.isOrExtends($x) or '
         '($x is Interface and not spec.declared)]')
ELIDE2 = ('[$x for $x in %s if not spec.isOrExtends($x) or '
          '(not spec.declared and $x is Interface)]')


def class_ordered(rep, mod, rule, rule_elide):
    f = find_def(mod, '_classImplements_ordered')
    site = 'declarations._classImplements_ordered'
    p_last, p_bases, p_decl = [], [], []
    p_el = {'before': [], 'after': []}
    kinds = set()
    ss = normal(summaries(f))
    rep.require(bool(ss), '_classImplements_ordered has no normal path')
    for ps in ss:
        # -- last event
        stores = [e for e in ps.events if e.kind == 'store']
        sd = [e for e in stores if nt(e.r) == 'spec.declared']
        sb = [e for e in stores if nt(e.r) == 'spec.__bases__']
        if len(sd) != 1 or len(sb) != 1 or ps.events[-1] is not sb[0] or \
                ps.index(sd[0]) > ps.index(sb[0]):
            p_last.append('declared stores %d, __bases__ stores %d, last event `%s`'
                          % (len(sd), len(sb), repr(ps.events[-1])[:50]))
            continue
        if nt(sd[0].val) not in ('tuple([])',):
            p_decl.append('declared = `%s`' % nt(sd[0].val)[:50])
        if nt(sb[0].val) not in ('tuple([])',):
            p_bases.append('__bases__ = `%s`' % nt(sb[0].val)[:50])
        # -- the three sources
        outer = [c for c, t, p in ps.order if c.startswith('ITER((') or c.startswith('ITER([')]
        if not outer:
            p_decl.append('no walk over (before, declared, after)')
            continue
        T = _parse(outer[0][5:-1])
        if not isinstance(T, (ast.Tuple, ast.List)) or len(T.elts) != 3 or \
                nt(T.elts[1]) != 'spec.declared':
            p_decl.append('walks `%s`' % outer[0][5:80])
            continue
        for var, el in (('before', T.elts[0]), ('after', T.elts[2])):
            e = el
            if isinstance(e, ast.Call) and dotted(e.func) in ('tuple', 'list') and e.args:
                e = e.args[0]
            if match(ELIDE % var, e) is None and match(ELIDE2 % var, e) is None:
                p_el[var].append('`%s`' % norm_src(el)[:120])
        Ttxt = nt(T)
        if not [t for c, t, p in ps.order if c == 'ITER(%s)' % Ttxt and t]:
            continue
        inner = 'EACH(%s)' % Ttxt
        E = 'EACH(%s)' % inner
        apps = [nt(e.r) for e in ps.events if e.kind == 'call' and
                isinstance(e.r.func, ast.Attribute) and
                e.r.func.attr in ('append', 'add', 'insert', 'extend')
                and ps.index(e) < ps.index(sd[0])]
        if inner in iterated(ps):
            seen = fact_cmp(ps, E, 'set()', 'in')
            if seen is None:
                p_decl.append('duplicates are not tested')
            elif seen:
                kinds.add('dup')
                if apps:
                    p_decl.append('a duplicate is declared again')
            else:
                kinds.add('new')
                if sorted(apps) != sorted(['[].append(%s)' % E, 'set().add(%s)' % E]):
                    p_decl.append('a new interface is not declared/recorded: %s'
                                  % [a[:40] for a in apps])
            extra = [c for c in each_conditions(ps, Ttxt)
                     if c not in ('%s in set()' % E,)]
            if extra:
                p_decl.append('also depends on %s' % extra[0][:60])
        # -- inherited part
        inh = fact_cmp(ps, 'spec.inherit', 'None')
        SRC = 'spec.inherit.__bases__'
        IB = 'implementedBy(EACH(%s))' % SRC
        late = [nt(e.r) for e in ps.events if e.kind == 'call' and
                isinstance(e.r.func, ast.Attribute) and
                e.r.func.attr in ('append', 'add', 'insert', 'extend')
                and ps.index(e) > ps.index(sd[0])]
        if inh is None:
            p_bases.append('spec.inherit is not consulted')
        elif inh:
            if late or SRC in iterated(ps):
                p_bases.append('bases extended although nothing is inherited')
        elif SRC in iterated(ps):
            seen = fact_cmp(ps, IB, 'set()', 'in')
            if seen is None:
                p_bases.append('inherited specification not tested against the '
                               'declared ones')
            elif seen:
                kinds.add('inh-dup')
                if late:
                    p_bases.append('a duplicate base is appended')
            else:
                kinds.add('inh-new')
                if sorted(late) != sorted(['[].append(%s)' % IB, 'set().add(%s)' % IB]):
                    p_bases.append('the specification of a base class is not '
                                   'appended: %s' % [a[:50] for a in late])
    for lp in walk_local(f):
        if isinstance(lp, ast.For):
            b, d = iter_polarity(lp.iter, f)
            if d != 'fwd':
                p_decl.append('`%s` walked backwards' % norm_src(lp.iter)[:40])
            if [n for n in walk_local(lp) if isinstance(n, (ast.Break, ast.Return))]:
                p_decl.append('early exit from a walk')
    if not (p_decl or p_bases or p_last) and kinds != {'dup', 'new', 'inh-dup', 'inh-new'}:
        p_decl.append('path kinds %s' % sorted(kinds))
    rep.check(rule, site, not p_last,
              'declared is stored, and the __bases__ store (which recomputes and '
              'notifies) is the last effect on every path' if not p_last else
              {'problems': sorted(set(p_last))[:3]}, construct='bases-last', node=f)
    rep.check(rule, site, not p_bases,
              'bases = declared interfaces followed by the specifications of the '
              'class\'s bases (in order) when inheritance applies' if not p_bases
              else {'problems': sorted(set(p_bases))[:3]}, construct='bases-value', node=f)
    rep.check(rule, site, not p_decl,
              'declared = before + previously declared + after without duplicates'
              if not p_decl else {'problems': sorted(set(p_decl))[:3]},
              construct='declared-value', node=f)
    for var in ('before', 'after'):
        rep.check(rule_elide, site, not p_el[var],
                  '%s: an interface is elided only when the class already implies '
                  'it (spec.isOrExtends), with the documented root exception' % var
                  if not p_el[var] else {'filter': sorted(set(p_el[var]))[:2]},
                  construct='elide:' + var, node=f)


def provides_users(rep, dmod, rule):
    """alsoProvides / noLongerProvides re-declare on every path"""
    f = find_def(dmod, 'alsoProvides')
    want = ('directlyProvides(object, directlyProvidedBy(object), *interfaces)',
            'directlyProvides(object, directlyProvidedBy(object), *_normalizeargs(interfaces))')
    ss = normal(summaries(f))
    bad = [ps for ps in ss if [nt(e.r) for e in ps.events if e.kind == 'call' and
                               nt(e.r.func) == 'directlyProvides'] not in
           ([want[0]], [want[1]])]
    rep.check(rule, 'declarations.alsoProvides', bool(ss) and not bad,
              'on every path: existing direct declarations first, then the new '
              'interfaces' if not bad else
              {'a path does not re-declare': [[nt(e.r)[:60] for e in ps.events][:4]
                                               for ps in bad][:2],
               'conditions': [[c for c, t, p in ps.order][:3] for ps in bad][:2]},
              node=f)
    f = find_def(dmod, 'noLongerProvides')
    want = 'directlyProvides(object, directlyProvidedBy(object) - interface)'
    ss = normal(summaries(f))
    bad = [ps for ps in ss if [nt(e.r) for e in ps.events if e.kind == 'call' and
                               nt(e.r.func) == 'directlyProvides'] != [want]]
    allp = summaries(f, normal_only=False)
    still = [ps for ps in allp if ps.fact('interface.providedBy(object)')]
    okraise = bool(still) and all(ps.kind == 'raise' for ps in still) and all(
        any(nt(e.r.func) == 'directlyProvides' for e in ps.events if e.kind == 'call')
        for ps in still)
    rep.check(rule, 'declarations.noLongerProvides', bool(ss) and not bad and okraise,
              'on every path declares directlyProvidedBy(object) - interface, then '
              'rejects interfaces still provided through the class (%s)' % okraise,
              node=f)


# ---------------------------------------------------------------------------
# C01: creation / installation / dispatch rules over path summaries

def alloc_site(e):
    """identity of a fresh container literal inside a resolved expression
    (clone keeps source positions): two `[]` of different sites differ"""
    if isinstance(e, ast.Call) and dotted(e.func) in ('tuple', 'list') and len(e.args) == 1:
        e = e.args[0]
    if isinstance(e, (ast.List, ast.Dict, ast.Set)) or (
            isinstance(e, ast.Call) and dotted(e.func) in ('list', 'set', 'dict')
            and not e.args):
        return (getattr(e, 'lineno', None), getattr(e, 'col_offset', None))
    return None


def _calls(ps, name):
    return [e for e in ps.events if e.kind == 'call' and dotted(e.r.func) == name]


def implementedby_install(rep, mod, rule):
    f = find_def(mod, 'implementedBy')
    site = 'declarations.implementedBy'
    ss = normal(summaries(f))
    p_create, p_inst, p_ret = [], [], []
    fresh = old = 0
    DICT = "cls.__dict__.get('__implemented__')"
    ATTR = "getattr(cls, '__implemented__', None)"
    BUILTIN = 'BuiltinImplementationSpecifications.get(cls)'
    for ps in ss:
        named = _calls(ps, 'Implements.named')
        ret = nt(ps.ret)
        if not named:
            # a lookup path: returns a specification that is already installed
            if ret == DICT:
                ok = ps.facts.get('isinstance(%s, Implements)' % DICT) is True
            elif ret == BUILTIN:
                ok = ps.facts.get('%s is None' % BUILTIN) is False
            elif ret == ATTR:
                ok = ps.facts.get('%s is None' % ATTR) is False
            elif ret == '_empty':
                ok = ps.facts.get('%s is None' % BUILTIN) is True and \
                    ps.facts.get('EXCEPT(AttributeError)') is True
            elif ret == '_implementedBy_super(cls)':
                ok = ps.facts.get('isinstance(cls, super)') is True
            elif ret.startswith('Declaration(*_normalizeargs('):
                ok = ps.facts.get('EXCEPT(AttributeError)') is True
            else:
                ok = False
            if not ok:
                p_ret.append('a path without creation returns `%s`' % ret[:60])
            if ps.stores():
                p_ret.append('a lookup path stores %s' % repr(ps.stores()[0])[:60])
            continue
        if len(named) != 1:
            p_create.append('%d specifications created on a path' % len(named))
            continue
        from .sem import nform
        c = nform(named[0].r)
        spec = nt(c)
        star = [a.value for a in c.args if isinstance(a, ast.Starred)]
        if len(c.args) != 2 or len(star) != 1 or nt(c.args[0]) != '_implements_name(cls)':
            p_create.append('created as `%s`' % spec[:80])
            continue
        b = star[0]
        inh = [e for e in ps.stores() if nt(e.r) == '%s.inherit' % spec]
        if isinstance(b, (ast.ListComp, ast.GeneratorExp)):
            g = b.generators[0]
            src, d = iter_polarity(g.iter)
            okb = len(b.generators) == 1 and not g.ifs and d == 'fwd' and \
                nt(src) in ('cls.__bases__', '()') and isinstance(g.target, ast.Name) and \
                nt(b.elt) == 'implementedBy(%s)' % g.target.id
            if not okb:
                p_create.append('bases of a new specification: `%s` (required: the '
                                'specifications of cls.__bases__, in order)' % nt(b)[:80])
            if nt(src) == 'cls.__bases__':
                fresh += 1
            if ps.facts.get('%s is None' % DICT) is not True:
                p_create.append('a fresh specification replaces an existing declaration')
            if [nt(e.val) for e in inh] != ['cls']:
                p_create.append('inherit of a fresh specification: %s (required cls)'
                                % [nt(e.val) for e in inh])
        elif nt(b).startswith('_normalizeargs(('):
            old += 1
            if [nt(e.val) for e in inh] != ['None']:
                p_create.append('inherit of an old-style declaration: %s (required None)'
                                % [nt(e.val) for e in inh])
            if not [e for e in ps.dels() if nt(e.r) == 'cls.__implemented__']:
                p_create.append('old-style declaration not removed')
        else:
            p_create.append('bases of a new specification: `%s`' % nt(b)[:80])
        # installation
        st = [e for e in ps.stores() if nt(e.r) == 'cls.__implemented__']
        if [nt(e.val) for e in st] != [spec]:
            p_inst.append('cls.__implemented__ stores: %s' % [nt(e.val)[:40] for e in st])
        bt = [e for e in ps.stores() if nt(e.r) == 'BuiltinImplementationSpecifications[cls]']
        if ps.facts.get('EXCEPT(TypeError)') is True:
            if [nt(e.val) for e in bt] != [spec] or \
                    ps.facts.get('isinstance(cls, type)') is not True:
                p_inst.append('a type that rejects attributes is not registered in '
                              'the builtin table')
        else:
            if bt:
                p_inst.append('builtin table written although the class took the '
                              'attribute')
            pb = [e for e in ps.stores() if nt(e.r) == 'cls.__providedBy__']
            has = ps.facts.get("hasattr(cls, '__providedBy__')")
            if (has is False) != bool(pb) or any(
                    nt(e.val) != 'objectSpecificationDescriptor' for e in pb):
                p_inst.append('__providedBy__ descriptor: hasattr=%s, stores %s'
                              % (has, [nt(e.val)[:30] for e in pb]))
            pv = [e for e in ps.stores() if nt(e.r) == 'cls.__provides__']
            need = ps.facts.get('isinstance(cls, type)') is True and \
                ps.facts.get("'__provides__' in cls.__dict__") is False
            if need != bool(pv) or any(
                    not nt(e.val).startswith('ClassProvides(cls, ') for e in pv):
                p_inst.append('__provides__ descriptor: needed=%s, stores %s'
                              % (need, [nt(e.val)[:40] for e in pv]))
        if ret != spec:
            p_ret.append('a creating path returns `%s`' % ret[:60])
    if not fresh:
        p_create.append('no path builds a specification from cls.__bases__')
    rep.check(rule, site, not p_create,
              'a new class specification inherits the specifications of '
              'cls.__bases__ in order and records inherit = cls; an old-style '
              'declaration becomes a specification with inherit = None '
              '(%d/%d paths)' % (fresh, old) if not p_create else
              {'problems': sorted(set(p_create))[:3]}, construct='create', node=f)
    rep.check(rule, site, not p_inst,
              'the new specification is installed as cls.__implemented__ with '
              'the __providedBy__/__provides__ descriptors where missing, or '
              'registered in the builtin table when the type rejects attributes'
              if not p_inst else {'problems': sorted(set(p_inst))[:3]},
              construct='install', node=f)
    rep.check(rule, site, not p_ret,
              'every path returns the class\'s own live specification (the '
              'installed one, the one just created, or _empty)'
              if not p_ret else {'problems': sorted(set(p_ret))[:3]},
              construct='returns', node=f)


def directly_provides_dispatch(rep, mod, rule):
    d = find_def(mod, 'directlyProvides')
    probs = []
    kinds = set()
    NORM = '_normalizeargs(interfaces)'
    for ps in normal(summaries(d)):
        st = [e for e in ps.stores() if nt(e.r) == 'object.__provides__']
        if len(st) != 1:
            probs.append('%d stores of object.__provides__ on a path' % len(st))
            continue
        v = st[0].val
        sub = [(c, t) for c, t, p in ps.order
               if c.startswith('issubclass(') and c.endswith(', type)')]
        if not sub:
            probs.append('class/instance not distinguished')
            continue
        c, t = sub[-1]
        X = c[len('issubclass('):-len(', type)')]
        if X not in ("getattr(object, '__class__', None)", 'type(object)'):
            probs.append('class of the object taken as `%s`' % X[:50])
        want = ('ClassProvides(object, %s, *%s)' if t else 'Provides(%s, *%s)') \
            % ((X, NORM))
        kinds.add(t)
        if nt(v) != want:
            probs.append('%s gets `%s`' % ('a class' if t else 'an instance', nt(v)[:70]))
        if len(_calls(ps, '_normalizeargs')) != 1:
            probs.append('arguments normalised %d times' % len(_calls(ps, '_normalizeargs')))
    if kinds != {True, False}:
        probs.append('dispatch kinds seen: %s' % sorted(kinds))
    rep.check(rule, 'declarations.directlyProvides', not probs,
              'classes get ClassProvides(object, cls, ...), instances '
              'Provides(cls, ...); arguments normalised once for both branches'
              if not probs else {'problems': sorted(set(probs))[:3]},
              construct='dispatch', node=d)
    os_ = find_def(mod, 'ObjectSpecificationDescriptor.__get__')
    table = {}
    probs = []
    for ps in normal(summaries(os_)):
        none = ps.facts.get('inst is None')
        exc = ps.facts.get('EXCEPT(AttributeError)')
        other = [c for c, t, p in ps.order if c.startswith('EXCEPT(') and
                 c != 'EXCEPT(AttributeError)']
        if other:
            probs.append('swallows %s' % other[0])
        key = 'class' if none else ('missing' if exc else 'has')
        table.setdefault(key, set()).add(nt(ps.ret))
    want = {'class': {'getObjectSpecification(cls)'}, 'has': {'inst.__provides__'},
            'missing': {'implementedBy(cls)'}}
    rep.check(rule, 'ObjectSpecificationDescriptor.__get__', table == want and not probs,
              '__providedBy__: class access -> the class\'s own spec; instance '
              '-> its __provides__, else (AttributeError only) implementedBy(cls): %s %s'
              % ({k: sorted(v) for k, v in table.items()}, probs),
              construct='descriptor', node=os_)


def class_forms(rep, mod, rule, rule_elide):
    """classImplementsOnly / classImplements / classImplementsFirst and the
    decorators, over path summaries"""
    SPEC = 'implementedBy(cls)'
    f = find_def(mod, 'classImplementsOnly')
    probs = []
    ss = normal(summaries(f))
    for ps in ss:
        co = find_def(mod, '_classImplements_ordered')
        dflt_empty = len(co.args.defaults) >= 1 and isinstance(
            co.args.defaults[-1], ast.Tuple) and not co.args.defaults[-1].elts
        forms = ['_classImplements_ordered(%s, interfaces, ())' % SPEC]
        if dflt_empty:          # `after` may be left to its default, ()
            forms.append('_classImplements_ordered(%s, interfaces)' % SPEC)
        call = [e for e in ps.events if e.kind == 'call' and nt(e.r) in forms]
        if len(call) != 1:
            probs.append('does not delegate to _classImplements_ordered(spec, '
                         'interfaces, ()) exactly once')
            continue
        k = ps.index(call[0])
        for attr, val in (('declared', '()'), ('inherit', 'None'), ('__bases__', '()')):
            sts = [e for e in ps.stores() if nt(e.r) == '%s.%s' % (SPEC, attr)]
            if not sts or nt(sts[-1].val) != val or ps.index(sts[-1]) > k:
                probs.append('%s not reset to %s before re-declaring' % (attr, val))
    rep.check(rule, 'declarations.classImplementsOnly', bool(ss) and not probs,
              'clears declared, inherit and __bases__ of the class\'s own '
              'specification before re-declaring (nothing inherited survives, '
              'old bases cannot elide new declarations)' if not probs else
              {'problems': sorted(set(probs))[:3]}, construct='only-reset', node=f)

    f = find_def(mod, 'classImplements')
    probs = []
    IF = 'tuple(_normalizeargs(interfaces))'
    E = 'EACH(%s)' % IF
    kinds = set()
    ss = normal(summaries(f))
    for ps in ss:
        call = _calls(ps, '_classImplements_ordered')
        if len(call) != 1 or len(call[0].r.args) != 3 or nt(call[0].r.args[0]) != SPEC \
                or ps.events[-1] is not call[0]:
            probs.append('does not end in one _classImplements_ordered(spec, before, after)')
            continue
        B, A = alloc_site(call[0].r.args[1]), alloc_site(call[0].r.args[2])
        if B is None or A is None or A == B:
            probs.append('before/after are not two separately built sequences')
            continue
        its = iterated(ps)
        apps = [e for e in ps.events if e.kind == 'call' and
                isinstance(e.r.func, ast.Attribute) and
                e.r.func.attr in ('append', 'insert', 'extend', 'add')]
        if IF not in its and nt(_parse(IF)) not in its and \
                '_normalizeargs(interfaces)' not in its:
            if apps:
                probs.append('classifies without an interface')
            continue
        src = [i for i in its if i in (IF, '_normalizeargs(interfaces)')][0]
        Ex = 'EACH(%s)' % src
        if len(apps) != 1 or apps[0].r.func.attr != 'append' or \
                [nt(a) for a in apps[0].r.args] != [Ex]:
            probs.append('an interface is classified %d times' % len(apps))
            continue
        where = alloc_site(apps[0].r.func.value)
        def is_placement(c):
            if c == '%s.extends(EACH(%s.declared))' % (Ex, SPEC):
                return True
            try:
                e = _parse(c)
            except SyntaxError:
                return False
            # any(<iface>.extends(d) for d in <spec>.declared)
            if isinstance(e, ast.Call) and dotted(e.func) == 'any' and len(e.args) == 1 \
                    and isinstance(e.args[0], (ast.GeneratorExp, ast.ListComp)) \
                    and len(e.args[0].generators) == 1:
                g = e.args[0].generators[0]
                return not g.ifs and isinstance(g.target, ast.Name) and \
                    nt(g.iter) == '%s.declared' % SPEC and \
                    nt(e.args[0].elt) == '%s.extends(%s)' % (Ex, g.target.id)
            return False
        ext = [t for c, t, p in ps.order if is_placement(c)]
        other = [c for c in each_conditions(ps, src) if not is_placement(c)]
        if other:
            probs.append('placement depends on `%s`' % other[0][:60])
        front = bool(ext) and ext[-1]
        kinds.add(front)
        if where != (B if front else A):
            probs.append('an interface that %s an already declared one goes %s'
                         % ('extends' if front else 'does not extend',
                            'to the end' if front else 'in front'))
    for lp in walk_local(f):
        if isinstance(lp, ast.For):
            b, d = iter_polarity(lp.iter, f)
            if d != 'fwd':
                probs.append('walks `%s` backwards' % norm_src(lp.iter)[:40])
    if kinds != {True, False}:
        probs.append('classification kinds seen: %s' % sorted(kinds))
    rep.check(rule, 'declarations.classImplements', bool(ss) and not probs,
              'new interfaces extending an already declared one go in front, '
              'the others at the end; then the ordered helper runs'
              if not probs else {'problems': sorted(set(probs))[:3]},
              construct='classify', node=f)

    f = find_def(mod, 'classImplementsFirst')
    ss = normal(summaries(f))
    ok = bool(ss) and all(
        [nt(e.r) for e in _calls(ps, '_classImplements_ordered')] ==
        ['_classImplements_ordered(%s, (iface,), ())' % SPEC] for ps in ss)
    rep.check(rule, 'declarations.classImplementsFirst', ok,
              'declares the interface in front', construct='first', node=f)

    imp = find_def(mod, 'implementer.__call__')
    probs = []
    kinds = set()
    for ps in normal(summaries(imp)):
        t = ps.facts.get('isinstance(ob, type)')
        ci = [nt(e.r) for e in _calls(ps, 'classImplements')]
        kinds.add(t)
        if t is True:
            if ci != ['classImplements(ob, *self.interfaces)'] or ps.stores():
                probs.append('a class does not go through classImplements(ob, '
                             '*self.interfaces)')
        elif t is False:
            if ci:
                probs.append('a non-class goes through classImplements')
        else:
            probs.append('class test is not isinstance(ob, type): %s'
                         % [c for c, t, p in ps.order][:2])
        if nt(ps.ret) != 'ob':
            probs.append('returns `%s`' % nt(ps.ret)[:40])
    if kinds != {True, False}:
        probs.append('dispatch kinds %s' % sorted(kinds, key=str))
    rep.check(rule, 'declarations.implementer.__call__', not probs,
              'every class (any metaclass: isinstance(ob, type)) goes through '
              'classImplements, which keeps inheritance and earlier declarations'
              if not probs else {'problems': sorted(set(probs))[:3]},
              construct='class-branch', node=imp)
    io = find_def(mod, 'implementer_only.__call__')
    ss = normal(summaries(io))
    ok = bool(ss) and all(
        [nt(e.r) for e in _calls(ps, 'classImplementsOnly')] ==
        ['classImplementsOnly(ob, *self.interfaces)'] and nt(ps.ret) == 'ob' for ps in ss)
    rep.check(rule, 'declarations.implementer_only.__call__', ok,
              'implementer_only -> classImplementsOnly', construct='only', node=io)

    # instance declarations drop exactly what the class already implies
    h = find_def(mod, 'Declaration._add_interfaces_to_cls')
    probs = []
    IMP = 'implementedBy(cls)'
    for ps in normal(summaries(h)):
        r = ps.ret
        parts = None
        if isinstance(r, ast.Call) and dotted(r.func) == 'tuple' and len(r.args) == 1 \
                and isinstance(r.args[0], ast.BinOp):
            r = r.args[0]      # tuple(kept + [spec])
        if isinstance(r, ast.BinOp) and isinstance(r.op, ast.Add):
            right = r.right
            if isinstance(right, ast.List):
                right = ast.Tuple(elts=right.elts, ctx=ast.Load())
            parts = (r.left, right)
        elif isinstance(r, ast.Tuple) and len(r.elts) == 2 and \
                isinstance(r.elts[0], ast.Starred):
            parts = (r.elts[0].value, ast.Tuple(elts=[r.elts[1]], ctx=ast.Load()))
        if parts is None or nt(parts[1]) != '(%s,)' % IMP:
            probs.append('returns `%s` (required: kept interfaces + the class '
                         'specification last)' % nt(ps.ret)[:80])
            continue
        kept = parts[0]
        if isinstance(kept, ast.Call) and dotted(kept.func) in ('tuple', 'list') and kept.args:
            kept = kept.args[0]
        okk = False
        if isinstance(kept, (ast.ListComp, ast.GeneratorExp)) and len(kept.generators) == 1:
            g = kept.generators[0]
            src, d = iter_polarity(g.iter)
            i = g.target.id if isinstance(g.target, ast.Name) else None
            okk = nt(src) == 'interfaces' and d == 'fwd' and nt(kept.elt) == i and \
                [nt(c) for c in g.ifs] == ['not %s.isOrExtends(%s)' % (IMP, i)]
        elif nt(kept) == '[]':
            # loop form: interfaces walked forward, kept iff not implied
            src = 'interfaces'
            e = 'EACH(%s)' % src
            apps = [x for x in ps.events if x.kind == 'call' and
                    nt(x.r) == '[].append(%s)' % e]
            if src in iterated(ps):
                t = ps.facts.get('%s.isOrExtends(%s)' % (IMP, e))
                okk = t is not None and (t is False) == bool(apps) and len(apps) <= 1
            else:
                okk = not apps
        if not okk:
            probs.append('kept part `%s`' % nt(parts[0])[:90])
    rep.check(rule_elide, 'Declaration._add_interfaces_to_cls', not probs,
              'instance declarations drop exactly what the class already '
              'implies, in order, and end with the class specification'
              if not probs else {'problems': sorted(set(probs))[:3]},
              construct='elide:instance', node=h)


def super_cache_owner(rep, mod, rule):
    sup = find_def(mod, '_implementedBy_super')
    p = sup.args.args[0].arg
    OWNER = 'implementedBy(%s.__self_class__)' % p
    probs = []
    n = 0
    for ps in normal(summaries(sup)):
        for e in ps.events:
            txt = None
            if e.kind == 'store':
                txt = nt(e.r)
            elif e.kind == 'call':
                txt = nt(e.r)
            if txt and '_super_cache' in txt:
                n += 1
                if ('%s._super_cache' % OWNER) not in txt:
                    probs.append('cache reached through `%s`' % txt[:70])
        r = nt(ps.ret)
        if '_super_cache' in r and ('%s._super_cache' % OWNER) not in r and \
                'WeakKeyDictionary()' not in r:
            probs.append('returns from `%s`' % r[:70])
    rep.check(rule, 'declarations._implementedBy_super', not probs,
              'the super-spec cache belongs to the specification of the concrete '
              'type (%s)' % OWNER if not probs else {'problems': sorted(set(probs))[:3]},
              construct='super-cache', node=sup)


# ---------------------------------------------------------------------------
# C19: super proxies, over path summaries

POP_FORMS = ("self.__dict__.pop('_super_cache', None)", "vars(self).pop('_super_cache', None)",
             "self.__dict__.pop('_super_cache')", "delattr(self, '_super_cache')")


def drops_super_cache(ps):
    """events of the path that remove the instance's super-spec cache"""
    return [e for e in ps.dels() if nt(e.r) == 'self._super_cache'] + \
        [e for e in ps.stores() if nt(e.r) == 'self._super_cache' and nt(e.val) == 'None'] + \
        [e for e in ps.events if e.kind == 'call' and nt(e.r) in POP_FORMS]


def changed_drops_super_cache(rep, mod, rule):
    f = find_def(mod, 'Implements.changed')
    probs = []
    ss = normal(summaries(f))
    for ps in ss:
        sup = [e for e in ps.events if e.kind == 'call' and
               nt(e.r) == 'super().changed(originally_changed)']
        drop = drops_super_cache(ps)
        if len(sup) != 1:
            probs.append('super().changed(originally_changed) called %d times on a path'
                         % len(sup))
            continue
        if not drop:
            probs.append('a path keeps the super-spec cache')
        elif ps.index(drop[0]) > ps.index(sup[0]):
            probs.append('the cache is dropped only after the dependents were notified')
    rep.check(rule, 'Implements.changed', bool(ss) and not probs,
              'drops _super_cache on every path, before super().changed'
              if not probs else {'problems': sorted(set(probs))[:3]},
              construct='cache-drop', node=f)


def super_remainder(rep, mod, rule):
    f = find_def(mod, '_next_super_class')
    p = f.args.args[0].arg
    MRO = '%s.__self_class__.__mro__' % p
    want = '%s[%s.index(%s.__thisclass__) + 1]' % (MRO, MRO, p)
    rets = [nt(ps.ret) for ps in normal(summaries(f))]
    rep.check(rule, 'declarations._next_super_class',
              bool(rets) and all(r == want for r in rets),
              'next class = __self_class__.__mro__[index(__thisclass__) + 1]: %s'
              % sorted(set(rets))[:2], construct='next', node=f)
    f = find_def(mod, '_implementedBy_super')
    p = f.args.args[0].arg
    MRO = '%s.__self_class__.__mro__' % p
    KEEP = '%s[%s.index(_next_super_class(%s)):]' % (MRO, MRO, p)
    probs = []
    n = 0
    for ps in normal(summaries(f)):
        named = [e for e in ps.events if e.kind == 'call' and
                 dotted(e.r.func) == 'Implements.named']
        if not named:
            continue
        n += 1
        from .sem import nform
        c = nform(named[0].r)
        star = [a.value for a in c.args if isinstance(a, ast.Starred)]
        if len(named) != 1 or len(star) != 1 or len(c.args) != 2:
            probs.append('synthesized as `%s`' % nt(c)[:80])
            continue
        b = star[0]
        if isinstance(b, ast.Call) and dotted(b.func) in ('list', 'tuple') and b.args:
            b = b.args[0]
        ok = False
        if isinstance(b, (ast.ListComp, ast.GeneratorExp)) and len(b.generators) == 1:
            g = b.generators[0]
            src, d = iter_polarity(g.iter)
            ok = not g.ifs and d == 'fwd' and nt(src) == KEEP and \
                isinstance(g.target, ast.Name) and \
                nt(b.elt) == 'implementedBy(%s)' % g.target.id
        if not ok:
            probs.append('bases `%s` (required: the live specifications of '
                         '__self_class__.__mro__[index(next class):], forward, '
                         'unfiltered)' % nt(b)[:100])
        if nt(ps.ret) != nt(c):
            probs.append('a computing path returns `%s`' % nt(ps.ret)[:60])
    if not n:
        probs.append('no path synthesizes a specification')
    rep.check(rule, 'declarations._implementedBy_super', not probs,
              'bases = [implementedBy(c) for c in __self_class__.__mro__[index('
              'next class):]] (forward, unfiltered), passed whole to '
              'Implements.named; the new spec is returned'
              if not probs else {'problems': sorted(set(probs))[:3]},
              construct='remainder', node=f)


def super_cache_protocol(rep, mod, rule):
    f = find_def(mod, '_implementedBy_super')
    p = f.args.args[0].arg
    OWNER = 'implementedBy(%s.__self_class__)' % p
    KEY = '%s.__thisclass__' % p
    CACHE = '%s._super_cache' % OWNER
    probs = []
    hit = miss = 0
    for ps in normal(summaries(f)):
        fresh = [nt(e.val) for e in ps.stores() if nt(e.r) == CACHE]
        tables = [CACHE] + fresh
        named = [e for e in ps.events if e.kind == 'call' and
                 dotted(e.r.func) == 'Implements.named']
        ret = nt(ps.ret)
        if named:
            miss += 1
            st = [e for e in ps.stores() if isinstance(e.r, ast.Subscript)
                  and nt(e.r.value) in tables]
            if len(st) != 1 or nt(st[0].r.slice) != KEY or nt(st[0].val) != nt(named[0].r):
                probs.append('the new spec is not stored once under %s in the cache of '
                             '%s: %s' % (KEY, OWNER, [repr(e)[:60] for e in st]))
            got_none = [t_ for t_ in tables if ps.facts.get(
                '%s.get(%s) is None' % (t_, KEY)) is True]
            if ps.facts.get('EXCEPT(KeyError)') is not True and not got_none and \
                    not any('%s in ' % KEY in c for c, t, pp in ps.order):
                probs.append('computes without having missed the cache')
        else:
            hit += 1
            if ret not in ['%s[%s]' % (t, KEY) for t in tables] and \
                    not any(ret == '%s.get(%s)' % (t, KEY) for t in tables):
                probs.append('a path without computation returns `%s`' % ret[:70])
        other = [repr(e)[:60] for e in ps.events
                 if '_super_cache' in repr(e) and CACHE not in repr(e)]
        if other:
            probs.append('cache reached through `%s`' % other[0])
    if not (hit and miss):
        probs.append('hit paths %d, miss paths %d' % (hit, miss))
    rep.check(rule, 'declarations._implementedBy_super', not probs,
              'the cache lives in implementedBy(__self_class__) (the remainder '
              'depends on the concrete type\'s MRO), keyed by __thisclass__; a hit '
              'returns the entry, a miss stores the new spec once'
              if not probs else {'problems': sorted(set(probs))[:3]},
              construct='cache-owner', node=f)


def super_unwrap(rep, amod, rule):
    h = find_def(amod, 'LookupBase.adapter_hook')
    probs = []
    kinds = set()
    for ps in normal(summaries(h)):
        fc = [e for e in ps.events if e.kind == 'call' and isinstance(e.r.func, ast.Call)
              and len(e.r.args) == 1 and not e.r.keywords]
        if not fc:
            continue
        t = ps.facts.get('isinstance(object, super)')
        kinds.add(t)
        for e in fc:
            a = nt(e.r.args[0])
            if t is None:
                probs.append('factory called without testing for a super proxy')
            elif a != ('object.__self__' if t else 'object'):
                probs.append('%s: factory called with `%s`'
                             % ('super proxy' if t else 'plain object', a))
    if kinds != {True, False}:
        probs.append('factory-call paths seen for the super test: %s'
                     % sorted(kinds, key=str))
    rep.check(rule, 'LookupBase.adapter_hook', not probs,
              'on every path that calls the factory, a super proxy is replaced '
              'by the proxied object itself' if not probs else
              {'problems': sorted(set(probs))[:3]}, construct='unwrap', node=h)
    q = find_def(amod, 'AdapterLookupBase.queryMultiAdapter')
    probs = []
    n = 0
    for ps in normal(summaries(q)):
        fc = [e for e in ps.events if e.kind == 'call' and isinstance(e.r.func, ast.Call)]
        for e in fc:
            n += 1
            args = e.r.args
            ok = False
            if len(args) == 1 and isinstance(args[0], ast.Starred) and \
                    isinstance(args[0].value, (ast.ListComp, ast.GeneratorExp)) and \
                    len(args[0].value.generators) == 1:
                comp = args[0].value
                g = comp.generators[0]
                src, d = iter_polarity(g.iter)
                o = g.target.id if isinstance(g.target, ast.Name) else None
                tab = ifexp_table(comp.elt)
                ok = nt(src) == 'objects' and d == 'fwd' and not g.ifs and tab == {
                    (('isinstance(%s, super)' % o, True),): '%s.__self__' % o,
                    (('isinstance(%s, super)' % o, False),): o}
            if not ok:
                probs.append('factory arguments `%s`' % nt(e.r)[-100:])
    if not n:
        probs.append('no factory call found')
    rep.check(rule, 'AdapterLookupBase.queryMultiAdapter', not probs,
              'every proxied object is unwrapped for the factory call, in order'
              if not probs else {'problems': sorted(set(probs))[:3]},
              construct='unwrap', node=q)
