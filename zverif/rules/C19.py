"""C19 - super() proxies see only the remainder of the MRO."""
import ast

from ..core import AnalysisError, norm_src
from ..pyfront import (find_def, find_all, match, walk_local, methods_of, dotted)
from ..flowq import (iter_polarity, resolve_local, pred_of, witness_path,
                     nodes_with, any_pred)
from ..cfg import cfg_of, header_expr
from ..cfront import ccfg, show, node_calls, returns, is_var
from . import cside, shared
from .cside import ccheck


def attr_reads_of(cfg, var):
    out = []
    for n in cfg.nodes:
        h = header_expr(n) if n.ast is not None else None
        if h is None:
            continue
        for x in ast.walk(h):
            if isinstance(x, ast.Attribute) and isinstance(x.value, ast.Name) \
                    and x.value.id == var:
                out.append((n, x))
            if isinstance(x, ast.Call) and dotted(x.func) in ('getattr', 'hasattr') \
                    and x.args and isinstance(x.args[0], ast.Name) and x.args[0].id == var:
                out.append((n, x))
    return out


def py_super_dispatch(rep, rule, func, site, var, target_pat):
    cfg = cfg_of(func)
    tests = [n for n in cfg.nodes if n.kind == 'test'
             and match('isinstance(%s, super)' % var, n.ast) is not None]
    ok = len(tests) == 1
    detail = 'isinstance(%s, super) tests: %d' % (var, len(tests))
    if ok:
        t = tests[0]
        tnext = [m for m, lab in t.succ if lab == 'T']
        okroute = bool(tnext) and isinstance(tnext[0].ast, ast.Return) and \
            match(target_pat, tnext[0].ast.value) is not None
        reads = [(n, x) for n, x in attr_reads_of(cfg, var) if n is not t]
        okdom = bool(reads) and all(cfg.dominated_by(n, lambda m: m is t) for n, x in reads)
        ok = okroute and okdom
        detail = ('the super test routes to %s (%s) and dominates all %d '
                  'attribute reads on the object (%s)'
                  % (target_pat, okroute, len(reads), okdom))
        if not okdom:
            early = [norm_src(x) for n, x in reads
                     if not cfg.dominated_by(n, lambda m: m is t)]
            detail = {'attribute_read_before_super_test': early,
                      'why': 'a super object forwards attribute reads to the '
                             'instance, so the read reports what the object '
                             'itself (and earlier classes) declare'}
    rep.check(rule, site, ok, detail, construct='super-first', node=func)


def run(rep):
    repo = rep.repo
    mod = repo.module('declarations.py')
    amod = repo.module('adapter.py')
    rep.rule('R19.1', 'the super test dominates every attribute probe on the '
             'object in providedBy and implementedBy (Python and C) and routes '
             'to the remainder-of-MRO computation', floor=4)
    rep.rule('R19.2', 'Implements.changed drops the super-spec cache on every '
             'path before delegating', floor=1)
    rep.rule('R19.3', 'remainder slice: next class = mro[index(__thisclass__) '
             '+ 1] of __self_class__\'s MRO; kept classes = mro[index(next):], '
             'forward, unfiltered; their live specs become the bases', floor=2)
    rep.rule('R19.4', 'the synthesized spec is memoized in the specification '
             'of __self_class__ (the concrete type), keyed by __thisclass__',
             floor=1)
    rep.rule('R19.5', 'registry entry points unwrap the proxy (__self__) after '
             'the lookup and before calling the factory', floor=2)
    rep.rule('R19.6', 'adaptation of a super proxy stays correct after later '
             'declaration changes: the (in place updated) synthesized specification '
             'invalidates the lookup caches only if the lookup object subscribed to '
             'it - _uncached_lookup subscribes to the complete required tuple on '
             'every exit, hit or miss, and _subscribe to every specification in it '
             '(shared with C04 R04.7 / C05 INV-4)', floor=2)
    rep.rule('R19.7', 'the synthesized specification lists the class specification of EVERY '
             'class of the remainder as a base: the argument normaliser passes interfaces '
             'and class specifications through as they are (none dropped as "implied"), so '
             'the proxy keeps following each of them when it is re-declared later '
             '(C20 R20.5)', floor=1)
    rep.decline('that the synthesized specification equals "interfaces of the '
                'classes after C" for every class DAG (depends on C3 merging, '
                'C03)')

    # ---- R19.1 -------------------------------------------------------------------
    f = find_def(mod, 'providedBy')
    py_super_dispatch(rep, 'R19.1', f, 'declarations.providedBy',
                      shared.params(f)[0], 'implementedBy(ob)')
    f = find_def(mod, 'implementedBy')
    py_super_dispatch(rep, 'R19.1', f, 'declarations.implementedBy',
                      shared.params(f)[0], '_implementedBy_super(cls)')
    u = cside.cu(rep)
    # C twins, over path summaries: a path on which the super test is true
    # returns the remainder-of-MRO route and never probes the object; every
    # probe of the object comes after the test and on its false side
    import re
    from . import csem
    for fn, var, test, route, site in (
            ('providedBy', 'ob', 'PyObject_IsInstance(ob, &PySuper_Type)',
             'implementedBy(module, ob)', 'providedBy'),
            ('implementedBy', 'cls', 'PyObject_TypeCheck(cls, &PySuper_Type)',
             'implementedByFallback(module, cls)', 'implementedBy')):
        probs = []
        kinds = set()
        tok = re.compile(r'(?<![A-Za-z0-9_>.])%s(?![A-Za-z0-9_])' % var)
        nprobe = 0
        for ps in csem.returning(csem.S(u, fn)):
            t = ps.facts.get(test)
            pos = [p for k, tr, p in ps.order if k == test]
            calls = [i for i, e in enumerate(ps.events) if e.kind == 'call'
                     and repr(e) == test]
            first = calls[0] if calls else None
            probes = [i for i, e in enumerate(ps.events)
                      if tok.search(repr(e)) and repr(e) != test
                      and not repr(e).startswith(('Py_INCREF', 'Py_DECREF', 'Py_XDECREF'))
                      and repr(e) != route]
            nprobe += len(probes)
            if first is None:
                if probes:
                    probs.append('`%s` runs on a path without the super test'
                                 % repr(ps.events[probes[0]])[:60])
                continue
            early = [i for i in probes if i < first]
            if early:
                probs.append('`%s` runs before the super test' % repr(ps.events[early[0]])[:60])
            if t is None:
                continue
            if ps.facts.get('(%s < 0)' % test) is True:
                # the test itself failed (an error, not an answer): not a super
                # object; what the path does then is C10 F4's business
                continue
            kinds.add(t)
            if t:
                if csem.ret(ps) != route:
                    probs.append('a super object returns `%s` (required %s)'
                                 % (csem.ret(ps)[:50], route))
                if probes:
                    probs.append('a super object is probed: `%s`'
                                 % repr(ps.events[probes[0]])[:60])
        if kinds != {True, False}:
            probs.append('outcomes of the super test seen: %s' % sorted(kinds))
        if not nprobe:
            probs.append('no probe of the object found (anchor lost)')
        ccheck(rep, 'R19.1', site, not probs,
               'the super test precedes every probe of `%s` (%d probe events) and a '
               'super object is routed to %s without being probed' % (var, nprobe, route)
               if not probs else {'problems': sorted(set(probs))[:3]},
               construct='super-first')

    # ---- R19.2 .. R19.5 (Python side): over path summaries ---------------------------
    from . import declsem
    declsem.changed_drops_super_cache(rep, mod, 'R19.2')
    declsem.super_remainder(rep, mod, 'R19.3')
    declsem.super_cache_protocol(rep, mod, 'R19.4')
    declsem.super_unwrap(rep, amod, 'R19.5')
    # C twin, over path summaries (helpers expanded): the factory is called with
    # object.__self__ exactly on the paths where object is a super proxy
    SELF = 'PyObject_GetAttr(object, str__self__)'
    probs = []
    kinds = set()
    for ps in csem.returning(csem.S(u, '_adapter_hook')):
        fc = csem.calls(ps, 'PyObject_CallFunctionObjArgs')
        if not fc:
            continue
        sup = ps.fact('PyObject_TypeCheck(object, &PySuper_Type)')
        kinds.add(sup)
        for e in fc:
            a = csem.args_of(e)
            want = SELF if sup else 'object'
            if sup is None:
                probs.append('factory called without testing for a super proxy')
            elif len(a) != 3 or a[1] != want:
                probs.append('%s: factory called with `%s`' % (
                    'super proxy' if sup else 'plain object', a[1][:50]))
    if kinds != {True, False}:
        probs.append('factory-call paths seen for the super test: %s'
                     % sorted(kinds, key=str))
    ccheck(rep, 'R19.5', '_adapter_hook', not probs,
           'C twin unwraps __self__ of a super proxy before the factory call'
           if not probs else {'problems': sorted(set(probs))[:3]}, construct='unwrap')

    from .C05 import subscribe_on_all_exits, subscribe_all_spec
    amod_ = rep.repo.module('adapter.py')
    subscribe_on_all_exits(rep, amod_, 'R19.6', only=('_uncached_lookup',))
    subscribe_all_spec(rep, amod_, 'R19.6')
    from . import declsem as _d7
    _d7.normalizeargs(rep, rep.repo.module('declarations.py'), 'R19.7')
