"""C10 - the C accelerator is observationally equivalent to the Python
reference.  Equivalence on all programs is not statically decidable; decided
here is the twin-skeleton agreement, every feature of which is necessary for
equivalence: signatures, members, guards, swallowed exception classes, cache
key shapes and fields, verify protocol, comparison and adaptation tables."""
import ast

from ..core import AnalysisError, norm_src
from ..pyfront import (find_def, find_all, match, walk_local, methods_of, dotted,
                       class_attr_assign, ClassTable)
from ..cfg import cfg_of
from ..cfront import (ccfg, show, node_calls, c_assigned, c_reaching, is_var,
                      returns, nodes_calling)
from . import cside, shared
from .cside import ccheck

FMT_OPT = {'OO|OO': 2, 'OO': 0, 'O|O': 1, '|OO': 2}


def c_signature(u, fn):
    """(keyword names, number of optional, format) from kwlist + format string
    of the function's PyArg_ParseTupleAndKeywords call - its own, or the one in
    a static helper it delegates the parsing to (the format may then be an
    argument of that helper)."""
    def local(f, bind=None):
        g = ccfg(f)
        kw = [n.e.a[2] for n in g.nodes if n.e is not None and n.e.k == 'decl'
              and n.e.a[0] == 'kwlist']
        pa = [c for n in g.nodes for c in node_calls(n, 'PyArg_ParseTupleAndKeywords')]
        if not kw or not pa:
            return None
        names = [x.a[0] for x in kw[0].a[0] if x is not None and x.k == 'str']
        fa = pa[0].a[1][2]
        if fa is not None and fa.k == 'var' and bind and fa.a[0] in bind:
            fa = bind[fa.a[0]]
        if fa is None or fa.k != 'str':
            return None
        fmt = fa.a[0].strip('"').split(':')[0]
        nopt = len(fmt.split('|')[1]) if '|' in fmt else 0
        return names, nopt, fmt
    f = u.func(fn)
    got = local(f)
    if got is not None:
        return got
    for n in ccfg(f).nodes:
        for c in node_calls(n):
            h = u.funcs.get(c.a[0]) if isinstance(c.a[0], str) else None
            if h is None:
                continue
            bind = {p: a for (p, _t), a in zip(h.params, c.a[1])}
            got = local(h, bind)
            if got is not None:
                return got
    return None


def py_signature(func):
    a = func.args
    names = [x.arg for x in a.args][1:]
    return names, len(a.defaults)


def member_names(u, table):
    g = u.globals.get(table)
    if g is None or g[1] is None:
        raise AnalysisError('anchor vanished: member table %s' % table)
    out = []
    for row in g[1].a[0]:
        if row is not None and row.k == 'initlist' and row.a[0] and \
                row.a[0][0] is not None and row.a[0][0].k == 'str':
            out.append(row.a[0][0].a[0])
    return out


def slots_of(cls):
    v = class_attr_assign(cls, '__slots__')
    if isinstance(v, (ast.Tuple, ast.List)):
        return [e.value for e in v.elts if isinstance(e, ast.Constant)]
    return []


def swallow_audit(rep, u, fn, accepted=()):
    """every PyErr_Clear() in fn follows a successful
    PyErr_ExceptionMatches(PyExc_AttributeError) test of the failure it
    clears (or is a listed idiom), and no swallow-everything probe
    (PyObject_HasAttr*) is used.  Decided over the path summaries."""
    from . import csem
    ss = csem.S(u, fn)
    bad, n = csem.clear_audit(ss, accepted)
    probes = sorted({show(e.e)[:60] for ps in ss for e in ps.events
                     if e.kind == 'call' and e.name in ('PyObject_HasAttrString',
                                                        'PyObject_HasAttr')})
    ok = not bad and not probes
    ccheck(rep, 'F4', fn, ok,
           '%d PyErr_Clear() event(s) on %d paths, each guarded by '
           'PyErr_ExceptionMatches(PyExc_AttributeError) (or a listed '
           'delegation idiom); no swallow-everything probe' % (n, len(ss)) if ok else
           {'unguarded_clears': bad, 'swallow_all_probes': probes,
            'why': 'the Python twin catches AttributeError only; clearing any '
                   'exception makes C return a fallback where Python raises'},
           construct='swallow')


# ---------------------------------------------------------------------------
# decision tables of providedBy (both twins)

def providedby_cases():
    yield ('super', None, None, None)
    yield ('noattr', None, None, None)          # no __providedBy__
    yield ('pb_error', None, None, None)        # reading it raises ValueError
    yield ('spec', None, None, None)            # a real specification
    yield ('ducktyped', None, None, None)       # not a spec instance, has .extends
    yield ('extends_error', None, None, None)   # probing .extends raises KeyError
    for prov in ('missing', 'error', 'has'):
        if prov != 'has':
            yield ('nonspec', prov, None, None)
            continue
        for cp in ('missing', 'error', 'same', 'different'):
            yield ('nonspec', prov, cp, None)


def providedby_spec(case):
    pb, prov, cp, _ = case
    if pb == 'super':
        return 'implementedBy(ob)'
    if pb == 'noattr':
        return 'getObjectSpecification(ob)'
    if pb == 'pb_error':
        return 'raise ValueError'
    if pb in ('spec', 'ducktyped'):
        return 'R'
    if pb == 'extends_error':
        return 'raise KeyError'
    if prov == 'missing':
        return 'implementedBy(CLS)'
    if prov == 'error':
        return 'raise ValueError'
    if cp == 'missing':
        return 'PROVIDES'
    if cp == 'error':
        return 'raise ValueError'
    if cp == 'same':
        return 'implementedBy(CLS)'
    return 'PROVIDES'


def providedby_py(func):
    from ..peval import Interp, Opaque, outcome, Raised
    table = {}
    for case in providedby_cases():
        pb, prov, cp, _ = case
        PROV = Opaque('PROVIDES', label='PROVIDES')
        CP = PROV if cp == 'same' else Opaque('CP', label='CP')
        clsattrs = {}
        if cp in ('same', 'different'):
            clsattrs['__provides__'] = CP
        elif cp == 'error':
            clsattrs['__provides__'] = Raised('ValueError')
        CLS = Opaque('CLS', attrs=clsattrs, label='CLS')
        rattrs = {}
        if pb in ('spec', 'ducktyped'):
            rattrs['extends'] = Opaque('extends', label='extends')
        elif pb == 'extends_error':
            rattrs['extends'] = Raised('KeyError')
        R = Opaque('R', attrs=rattrs, label='R')
        obattrs = {'__class__': CLS}
        if pb not in ('noattr', 'pb_error', 'super'):
            obattrs['__providedBy__'] = R
        if pb == 'pb_error':
            obattrs['__providedBy__'] = Raised('ValueError')
        if prov == 'has':
            obattrs['__provides__'] = PROV
        elif prov == 'error':
            obattrs['__provides__'] = Raised('ValueError')
        ob = Opaque('ob', attrs=obattrs, label='ob')

        def isinst(v, clsname, n, pb=pb):
            if clsname == 'super':
                return pb == 'super'
            raise AnalysisError('isinstance(%s)' % clsname)

        def call(n, env, interp):
            d = dotted(n.func)
            if d in ('implementedBy', 'getObjectSpecification') and len(n.args) == 1:
                a = interp.ev(n.args[0], env)
                return Opaque(d, label='%s(%s)' % (d, getattr(a, 'label', a)))
            raise AnalysisError('call outside model: %s' % norm_src(n))
        it = Interp(hooks={'isinstance': isinst, 'call': call})
        try:
            o = outcome(it, func, [ob])
            table[case] = o[1] if o[0] == 'return' else 'raise ' + o[1]
        except AnalysisError as e:
            table[case] = 'UNDECIDED ' + str(e)[:80]
    return table


def providedby_c(u):
    from ..ceval import CInterp, Sym
    f = u.func('providedBy')
    table = {}

    class M:
        def __init__(s, case):
            s.pb, s.prov, s.cp, _ = case
            s.err = None
            s.ob, s.CLS, s.R = Sym('ob'), Sym('CLS'), Sym('R')
            s.PROV = Sym('PROVIDES')
            s.CP = s.PROV if s.cp == 'same' else Sym('CP')
            s.g = {}

        def glob(s, n):
            return s.g.setdefault(n, Sym(n))

        def field(s, base, name):
            return Sym('%s.%s' % (getattr(base, 'name', base), name))

        def setfield(s, *a):
            raise AnalysisError('store')

        def fail(s, exc):
            s.err = exc
            return None

        def call(s, name, args, interp, env):
            if name in ('Py_INCREF', 'Py_XINCREF', 'Py_DECREF', 'Py_XDECREF'):
                return None
            if name in ('PyModule_GetState', '_zic_state', '_zic_state_load_declarations'):
                return Sym('rec')
            if name == 'PyObject_IsInstance':
                return 1 if s.pb == 'super' else 0
            if name == 'implementedBy':
                return Sym('implementedBy(%s)' % args[1].name)
            if name == 'getObjectSpecification':
                return Sym('getObjectSpecification(%s)' % args[1].name)
            if name == 'PyErr_ExceptionMatches':
                return 1 if s.err == getattr(args[0], 'name', '')[6:] else 0
            if name == 'PyErr_Clear':
                s.err = None
                return None
            if name == 'PyObject_TypeCheck':
                return 1 if (args[0] is s.R and s.pb == 'spec') else 0
            if name in ('PyObject_GetAttrString', 'PyObject_HasAttrString'):
                has = name.startswith('PyObject_Has')
                if args[0] is s.R and args[1] == 'extends':
                    if s.pb in ('spec', 'ducktyped'):
                        return 1 if has else Sym('extends')
                    if s.pb == 'extends_error':
                        return 0 if has else s.fail('KeyError')
                    return 0 if has else s.fail('AttributeError')
                raise AnalysisError('unexpected probe %s' % (args[1],))
            if name == 'PyObject_GetAttr':
                ob, attr = args
                an = getattr(attr, 'name', '')
                if ob is s.ob and an == 'str__providedBy__':
                    if s.pb == 'noattr':
                        return s.fail('AttributeError')
                    if s.pb == 'pb_error':
                        return s.fail('ValueError')
                    return s.R
                if ob is s.ob and an == 'str__class__':
                    return s.CLS
                if ob is s.ob and an == 'str__provides__':
                    if s.prov == 'has':
                        return s.PROV
                    return s.fail('AttributeError' if s.prov == 'missing' else 'ValueError')
                if ob is s.CLS and an == 'str__provides__':
                    if s.cp in ('same', 'different'):
                        return s.CP
                    return s.fail('AttributeError' if s.cp == 'missing' else 'ValueError')
                raise AnalysisError('unexpected probe %r.%s' % (ob, an))
            raise AnalysisError('call %s outside model' % name)
    for case in providedby_cases():
        m = M(case)
        try:
            v = CInterp(m).run(f, [Sym('module'), m.ob])
            table[case] = ('raise ' + (m.err or 'NULL-without-error')) if v is None else v.name
        except AnalysisError as e:
            table[case] = 'UNDECIDED ' + str(e)[:80]
    return table


def py_handlers(func):
    """exception classes a function converts into a fallback: the types of
    its handlers, plus AttributeError for every three-argument getattr (which
    swallows exactly that)"""
    out = []
    for n in ast.walk(func):
        if isinstance(n, ast.ExceptHandler):
            if n.type is None:
                out.append('BARE')
            elif isinstance(n.type, ast.Tuple):
                out += [norm_src(e) for e in n.type.elts]
            else:
                out.append(norm_src(n.type))
        elif isinstance(n, ast.Call) and isinstance(n.func, ast.Name) and \
                n.func.id == 'getattr' and len(n.args) == 3:
            out.append('AttributeError')
        elif isinstance(n, ast.Call) and isinstance(n.func, ast.Name) and \
                n.func.id == 'hasattr':
            out.append('AttributeError')
    return out


def lookup_signatures(rep, u, amod, rule):
    """every C lookup entry point (LookupBase and VerifyingBase tables) takes
    the parameters of its Python twin: names, order, number of optional ones"""
    lb = find_def(amod, 'LookupBase')
    vb = find_def(amod, 'VerifyingBase')
    lms = methods_of(lb)
    for table, prefix in (('LB_methods', 'LookupBase'), ('VB_methods', 'VerifyingBase')):
        for pyname, cfn, flags in u.method_table(table):
            pf = lms.get(pyname)
            if pyname in methods_of(vb) and prefix == 'VerifyingBase':
                pf = methods_of(vb)[pyname]
            if pf is None:
                ccheck(rep, rule, cfn, False,
                       'C entry %s.%s has no Python twin' % (prefix, pyname),
                       construct='signature')
                continue
            pn, pd = py_signature(pf)
            if flags.strip() == '8':          # METH_O
                ok = len(pn) == 1
                ccheck(rep, rule, cfn, ok,
                       '%s.%s: METH_O vs Python parameters %s' % (prefix, pyname, pn),
                       construct='signature')
                continue
            cs = c_signature(u, cfn)
            ok = cs is not None and cs[0] == pn and cs[1] == pd
            ccheck(rep, rule, cfn, ok,
                   '%s.%s: C keywords %s (%s optional, format %s) vs Python %s '
                   '(%d optional)' % (prefix, pyname, cs and cs[0], cs and cs[1],
                                      cs and cs[2], pn, pd), construct='signature')


def run(rep):
    repo = rep.repo
    amod = repo.module('adapter.py')
    imod = repo.module('interface.py')
    dmod = repo.module('declarations.py')
    u = cside.cu(rep)
    rep.rule('F1', 'signatures: parameter names, order and number of optional '
             'parameters of every twin entry point (Python def vs C kwlist + '
             'format string); METH_O entries take one argument', floor=14)
    rep.rule('F2', 'members: __slots__ of the Python twin are members of the C '
             'type (with the documented __module__/__ibmodule__ alias)', floor=3)
    rep.rule('F3', 'name guards: the same entry points reject non-str names '
             'with ValueError before touching the cache, in both twins', floor=6)
    rep.rule('F4', 'swallowed exceptions: every probe that converts an '
             'exception into a fallback swallows AttributeError only, in both '
             'twins (no bare PyErr_Clear, no PyObject_HasAttr*, no broad '
             'except)', floor=8)
    rep.rule('F5', 'cache fields, key shapes, fills and default handling '
             'agree (C05 INV-2/INV-4, C08 R08.2, C04 R04.6 for both twins)',
             floor=10)
    rep.rule('F6', 'comparison and hash: both twins realise the same decision '
             'table (C12 R12.1/R12.2)', floor=2)
    rep.rule('F7', 'adaptation chain: both twins realise the same table '
             '(C14 R14.1/R14.4)', floor=4)
    rep.rule('F8', 'verifying registries: every entry point runs the '
             'generation check in both twins; same snapshot shape (C05 INV-5, '
             'C06 R06.5)', floor=10)
    rep.rule('F9', 'super dispatch precedes attribute probes in both twins '
             '(C19 R19.1)', floor=4)
    rep.rule('F10', 'getObjectSpecification: both twins answer with the '
             'object\'s own specification, else implementedBy of the class the '
             'object reports (ob.__class__), else the empty declaration', floor=2)
    rep.rule('F11', 'descriptor slots: a tp_descr_get function receives NULL for '
             'a missing/None owner (and for a missing instance); the Python twin '
             'fails with TypeError there, so no path may hand the owner to a callee '
             'without having established it non-NULL (a NULL owner otherwise '
             'crashes the interpreter where the reference raises)', floor=2)
    rep.rule('F12', 'adapter hooks may change adapter_hooks while __adapt__ walks it: '
             'the Python twin iterates the live list, the C twin must bound its '
             'index by the current size and hold each hook across its call (a stale '
             'bound crashes the interpreter where the reference continues; shared '
             'with C14 R14.7)', floor=1)
    rep.rule('F13', 'virtual dispatch parity: a method the Python __adapt__ calls ON '
             'self (overridable with @interfacemethod) is either a method call in the C '
             'twin too, or the class writer routes interfaces overriding it to the Python '
             '__adapt__ (the C twin inlines the default implementation; shared with C14 '
             'R14.8)', floor=1)
    rep.rule('F14', 'equality never orders, in either implementation: the Python __eq__/'
             '__ne__ evaluate no ordering comparison of the keys (the C twin compares the '
             'components with the caller\'s operator or Py_EQ), so unequal keys that are '
             'not orderable give the same answer on both (shared with C12 R12.6)', floor=3)
    rep.rule('F15', 'the C query methods of a specification answer from the same source as '
             'the Python twins: I.providedBy(ob) asks providedBy(ob), I.implementedBy(cls) '
             'asks implementedBy(cls), isOrExtends reads the implied set (C02 R02.5)', floor=3)
    rep.decline('equality of results, exception points and subsequent '
                'behaviour for arbitrary API programs (that is differential '
                'execution; only the structural core is decided)')

    # ---- F15 ----------------------------------------------------------------------
    cside.sb_queries(rep, 'F15')
    from .C02 import r02_5
    r02_5(rep, imod, rule='F15')
    # ---- F1 -----------------------------------------------------------------------
    lookup_signatures(rep, u, amod, 'F1')
    from . import csem as _csem13
    _csem13.adapt_dispatch(rep, 'F13', u, imod)
    from .C12 import eq_no_ordering
    eq_no_ordering(rep, 'F14', imod, u)
    lb = find_def(amod, 'LookupBase')
    vb = find_def(amod, 'VerifyingBase')
    lms = methods_of(lb)
    ib = find_def(imod, 'InterfaceBase')
    cs = c_signature(u, 'IB__init__')
    pn, pd = py_signature(methods_of(ib)['__init__'])
    ccheck(rep, 'F1', 'IB__init__', cs is not None and cs[1] == pd and len(cs[0]) == len(pn),
           'InterfaceBase.__init__: C %s vs Python %s (both optional)' % (cs, (pn, pd)),
           construct='signature')
    cs = c_signature(u, 'IB__call__')
    pn, pd = py_signature(methods_of(ib)['__call__'])
    ccheck(rep, 'F1', 'IB__call__', cs is not None and cs[0] == pn and cs[1] == pd,
           'InterfaceBase.__call__: C %s vs Python %s' % (cs, (pn, pd)),
           construct='signature')
    # the delegated set covers the C tables
    cnames = {n for n, fn, fl in u.method_table('LB_methods')}
    ccheck(rep, 'F1', 'LB_methods',
           cnames == {'changed', 'lookup', 'lookup1', 'queryAdapter', 'adapter_hook',
                      'lookupAll', 'subscriptions'},
           'entry points implemented in C: %s' % sorted(cnames), construct='table')

    # ---- F2 -----------------------------------------------------------------------
    for pycls, mod, table, alias in (
            ('SpecificationBase', imod, 'SB_members', {'__weakref__'}),
            ('ClassProvidesBase', dmod, 'CPB_members', set()),
            ('InterfaceBase', imod, 'IB_members', {'_v_cached_hash'})):
        cls = find_def(mod, pycls)
        slots = set(slots_of(cls))
        members = set(member_names(u, table))
        missing = slots - members - alias
        ccheck(rep, 'F2', table, not missing and bool(slots),
               '%s.__slots__ %s vs C members %s (missing %s; not exposed by '
               'design: %s)' % (pycls, sorted(slots), sorted(members), sorted(missing),
                                sorted(alias)), construct='members')

    # ---- F3 -----------------------------------------------------------------------
    from .C08 import name_guard
    for nm in ('lookup', 'lookup1', 'adapter_hook'):
        name_guard(rep, 'F3', lms[nm], 'LookupBase.' + nm)
    cside.name_guard_c(rep, u, 'F3', '_lookup', ['_getcache', 'PySequence_Tuple'])
    cside.name_guard_c(rep, u, 'F3', '_lookup1', ['_getcache', '_lookup'])
    cside.name_guard_c(rep, u, 'F3', '_adapter_hook', ['providedBy', '_lookup1'])

    # ---- F4 -----------------------------------------------------------------------
    swallow_audit(rep, u, 'providedBy')
    swallow_audit(rep, u, 'getObjectSpecification')
    swallow_audit(rep, u, 'OSD_descr_get')
    swallow_audit(rep, u, 'IB__call__')
    swallow_audit(rep, u, 'implementedBy',
                  accepted=('implementedByFallback', 'getitem-keyerror'))
    want = {c: providedby_spec(c) for c in providedby_cases()}
    pyt = providedby_py(find_def(dmod, 'providedBy'))
    ct = providedby_c(u)
    f = find_def(dmod, 'providedBy')
    bad = {str(k): [v, want[k]] for k, v in pyt.items() if v != want[k]}
    rep.check('F4', 'declarations.providedBy', not bad,
              'decision table of the Python providedBy over %d cases (which '
              'attribute is missing / raises / is a specification) equals the '
              'specification' % len(pyt) if not bad else {'code_vs_spec': bad},
              construct='table', node=f)
    bad = {str(k): [v, want[k]] for k, v in ct.items() if v != want[k]}
    ccheck(rep, 'F4', 'providedBy', not bad,
           'decision table of the C providedBy over %d cases equals the '
           'specification' % len(ct) if not bad else {'code_vs_spec': bad},
           construct='table')
    diff = {str(k): [pyt[k], ct[k]] for k in pyt if pyt[k] != ct[k]}
    ccheck(rep, 'F4', 'providedBy', not diff,
           'Python and C providedBy tables coincide' if not diff else
           {'python_vs_c': diff}, construct='tables-equal')
    for fn, mod in (('providedBy', dmod), ('getObjectSpecification', dmod),
                    ('implementedBy', dmod), ('ObjectSpecificationDescriptor.__get__', dmod),
                    ('InterfaceBase.__call__', imod)):
        f = find_def(mod, fn)
        hs = py_handlers(f)
        rep.check('F4', fn, bool(hs) and set(hs) <= {'AttributeError', 'TypeError'}
                  and ('TypeError' not in hs or fn == 'implementedBy'),
                  'Python twin catches %s' % hs, construct='handlers', node=f)

    # ---- F5 -----------------------------------------------------------------------
    saved = rep.check

    def relabel(to):
        def chk(rule, *a, **k):
            return saved(to, *a, **k)
        return chk
    try:
        rep.check = relabel('F5')
        cside.inv2_c(rep, u)
        cside.fills(rep, u)
        cside.lookup_default_c(rep, u, 'F5')
        rep.check = relabel('F8')
        cside.verify_first(rep, u)
        cside.verify_compare(rep, u)
    finally:
        rep.check = saved
    # Python side of F5/F8 comes from the same rule functions
    from .C05 import inv2, inv4, inv5
    table = ClassTable(repo, ['adapter.py'])
    try:
        rep.check = relabel('F5')
        inv4(rep, amod, table)
        rep.check = relabel('F8')
        inv5(rep, amod, table, rule='F8')
    finally:
        rep.check = saved

    from . import csem as _csem
    _csem.object_specification_twins(rep, 'F10', u, repo.module('declarations.py'))
    _csem.descr_get_owner(rep, 'F11', u)
    _csem.hook_walk(rep, 'F12', u)

    # ---- F6 / F7 -------------------------------------------------------------------
    from . import C12 as c12
    ptable, atoms, funcs = c12.py_table(imod)
    ctable = c12.c_table(u)
    diff = [k for k in ptable if ptable[k] != ctable.get(k)]
    ccheck(rep, 'F6', 'IB_richcompare', not diff,
           'Python and C comparison tables coincide on all %d cases' % len(ptable)
           if not diff else {'differing_cases': [
               {'case': k, 'python': ptable[k], 'c': ctable.get(k)} for k in diff[:4]]},
           construct='tables-equal')
    hpy = c12.py_hash_key(methods_of(ib)['__hash__'])
    hc = c12.c_hash_key(u)
    ccheck(rep, 'F6', 'IB__hash__', not hpy and not hc,
           'both hash the tuple (name, module) on a memo miss and return the '
           'memo (py: %s / c: %s)' % (hpy[:2], hc[:2]), construct='hash')
    from . import C14 as c14
    pt = c14.py_call_table(ib)
    ct = c14.c_call_table(u)
    diff = []
    for (custom, conform, adapt, alt), (out, trace, ea) in ct.items():
        po, ptrace = pt[(conform, adapt, alt)]
        if (out, trace) != (po, ptrace):
            diff.append({'case': [custom, conform, adapt, alt], 'python': [po, ptrace],
                         'c': [out, trace]})
    ccheck(rep, 'F7', 'IB__call__', not diff,
           'Python and C adaptation tables coincide on all %d cases' % len(ct)
           if not diff else {'differing_cases': diff[:3]}, construct='tables-equal')
    pa = c14.py_adapt_table(ib)
    ca = c14.c_adapt_table(u)
    diff = [k for k in pa if (pa[k][0], pa[k][1]) != (ca[k][0], ca[k][1])]
    ccheck(rep, 'F7', 'IB__adapt__', not diff,
           'Python and C __adapt__ tables coincide on all %d cases' % len(pa)
           if not diff else {'differing': [str(k) for k in diff]}, construct='tables-equal')
    rep.check('F7', 'InterfaceBase.__call__', all(v[0][0] != 'UNDECIDED' for v in pt.values()),
              'Python table fully decided', construct='decided',
              node=methods_of(ib)['__call__'])
    rep.check('F7', 'InterfaceBase.__adapt__', all(v[0][0] != 'UNDECIDED' for v in pa.values()),
              'Python table fully decided', construct='decided',
              node=methods_of(ib)['__adapt__'])

    # ---- F9 -----------------------------------------------------------------------
    from . import C19 as c19
    try:
        rep.check = relabel('F9')
        f = find_def(dmod, 'providedBy')
        c19.py_super_dispatch(rep, 'F9', f, 'declarations.providedBy',
                              shared.params(f)[0], 'implementedBy(ob)')
        f = find_def(dmod, 'implementedBy')
        c19.py_super_dispatch(rep, 'F9', f, 'declarations.implementedBy',
                              shared.params(f)[0], '_implementedBy_super(cls)')
    finally:
        rep.check = saved
    for fn, test in (('providedBy', 'PyObject_IsInstance'),
                     ('implementedBy', 'PyObject_TypeCheck')):
        g = ccfg(u.func(fn))
        t = [n for n in g.nodes if node_calls(n, test) and 'PySuper_Type' in show(n.e)]
        probes = [n for n in g.nodes if n.e is not None and any(
            c.a[0] in ('PyObject_GetAttr', 'PyObject_GetItem', 'PyObject_GetAttrString')
            for c in node_calls(n))]
        ok = len(t) >= 1 and all(g.dominated_by(p, lambda n: n is t[0]) for p in probes)
        ccheck(rep, 'F9', fn, ok,
               'the super test dominates all %d attribute probes' % len(probes),
               construct='super-first')
