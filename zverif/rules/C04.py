"""C04 - adapter lookup returns the most specific applicable registration.

Decides the loop shapes that fix the winner for every hierarchy: traversal
source + direction + combinator of the recursive walk, of the extendor walk,
of the registry walk; the order maintained by add_extendor; None->Interface
normalisation in all key constructors; default handling.
"""
import ast

from ..core import AnalysisError, norm_src
from ..pyfront import (find_def, find_all, match, walk_local, dotted, same,
                       calls_in, names_in)
from ..flowq import iter_polarity, resolve_local, loops_over
from ..cfg import cfg_of
from . import shared


def params(func):
    return [a.arg for a in func.args.args]


def split_recursive_leaf(rep, func, rule):
    """The ``if i < l`` split of _lookup/_lookupAll/_subscriptions:
    returns (recursive_body, leaf_body, i_name, l_name)."""
    ps = params(func)
    top_ifs = [s for s in func.body if isinstance(s, ast.If)]
    for st in top_ifs:
        t = st.test
        if isinstance(t, ast.Compare) and len(t.ops) == 1 and \
                isinstance(t.left, ast.Name) and \
                isinstance(t.comparators[0], ast.Name):
            a, b = t.left.id, t.comparators[0].id
            op = type(t.ops[0]).__name__
            if a in ps and b in ps:
                if op == 'Lt':
                    return st.body, st.orelse, a, b, st
                if op == 'Gt':
                    return st.body, st.orelse, b, a, st
                if op == 'GtE':      # i >= l : leaf first
                    return st.orelse, st.body, a, b, st
                if op == 'LtE':      # l <= i
                    return st.orelse, st.body, b, a, st
                if op in ('Eq',):
                    return st.orelse, st.body, a, b, st
                if op in ('NotEq',):
                    return st.body, st.orelse, a, b, st
    return None


def probe_is_exact(func, loop, container_names):
    """Inside ``loop`` the container is probed with exactly the loop
    variable: components.get(var) / components_get(var) / components[var]."""
    if not isinstance(loop.target, ast.Name):
        return None
    var = loop.target.id
    probes = []
    for n in walk_local(loop):
        if isinstance(n, ast.Call):
            f = resolve_local(func, n.func) if isinstance(n.func, ast.Name) \
                else n.func
            if isinstance(f, ast.Attribute) and f.attr == 'get' and \
                    isinstance(f.value, ast.Name) and \
                    f.value.id in container_names and n.args:
                probes.append(n.args[0])
        elif isinstance(n, ast.Subscript) and isinstance(n.value, ast.Name) \
                and n.value.id in container_names:
            probes.append(n.slice)
    if not probes:
        return None
    return all(isinstance(p, ast.Name) and p.id == var for p in probes), \
        [norm_src(p) for p in probes]


def first_hit_on_not_none(loop, value_names=None):
    """The loop body returns (or breaks with) a value exactly when it is not
    None; returns (ok, text)."""
    exits = []
    for n in walk_local(loop):
        if isinstance(n, (ast.Return, ast.Break)):
            exits.append(n)
    if not exits:
        return False, 'no early exit in the loop (not first-hit)'
    for ex in exits:
        # guard: nearest enclosing If inside the loop
        p = ex.parent
        guard = None
        while p is not loop:
            if isinstance(p, ast.If) and ex in list(ast.walk(p)) and \
                    any(ex is x or ex in list(ast.walk(x)) for x in p.body):
                guard = p
                break
            p = p.parent
        if guard is None:
            return False, 'unconditional %s in loop' % norm_src(ex)
        env = match('$r is not None', guard.test)
        if env is None:
            return False, 'early exit guarded by `%s`, expected `<result> is not None`' \
                % norm_src(guard.test)
        if isinstance(ex, ast.Return):
            if ex.value is None or not same(ex.value, env['r']):
                return False, 'returns %s under guard on %s' % (
                    norm_src(ex.value), norm_src(env['r']))
    return True, 'early exit iff result is not None'


def run(rep):
    repo = rep.repo
    mod = repo.module('adapter.py')
    rep.rule('R04.1', 'adapter._lookup: the walk over specs[i].__sro__ (iff i < l) '
             'and the walk over the extendor list (iff not) both run forward, '
             'probe exact keys / the exact name, return the first non-None hit; '
             'recursion with i+1 and unchanged specs/provided/name; miss -> None',
             floor=7)
    rep.rule('R04.3', 'add_extendor keeps everything `provided` extends in '
             'front (most general first) for every interface of provided.__iro__; '
             'remove_extendor removes by equality from every __iro__ entry',
             floor=2)
    rep.rule('R04.4', '_uncached_lookup walks self._registry.ro forward and '
             'stops at the first registry with a non-None answer; skip '
             'conditions are only order>=len(byorder) and no extendors')
    rep.rule('R04.5', 'every key constructor maps each element of `required` '
             'through _convert_None_to_Interface (None means Interface)',
             floor=5)
    rep.rule('R04.6', 'LookupBase.lookup returns `default` (by identity) iff '
             'the result is None, else the result; the cache stores the uncached result, never the default (PY and C)', floor=3)
    rep.rule('R04.7', 'the winner follows later changes of the required '
             'specifications: _uncached_lookup subscribes the lookup object to '
             'every required spec on hit and on miss (else a cached winner '
             'survives classImplements/__bases__ changes)', floor=1)
    rep.rule('R04.8', 'the winner is the one of the registries\' CURRENT contents, also '
             'when asked through a registry further down: every mutator of the '
             'registration storage ends in self.changed() (which reaches every '
             'sub-registry and bumps the generation verifying sub-registries compare), '
             'the generation only moves forward, and code that suspends changed() '
             'delivers it afterwards (C05 INV-1/INV-7, C06 R06.5)', floor=6)
    rep.decline('none - relative to C02/C03 (resolution orders) and C01 '
                '(providedBy)')

    # ---- R04.1 / R04.2 (the walker, wherever its loops are nested) ------------
    from . import sem
    f = find_def(mod, '_lookup')
    rep.require(len(params(f)) == 6, '_lookup signature changed: %s' % params(f))
    sem.check_walkers(rep, 'R04.1', f, 'first')

    # ---- R04.3 add_extendor / remove_extendor ----------------------------
    shared.extendor_index(rep, 'R04.3', mod)

    # ---- R04.4 registry walk ------------------------------------------
    ul = find_def(mod, 'AdapterLookupBase._uncached_lookup')
    sem.registry_walk_spec(rep, 'R04.4', ul, '_lookup', '_adapters', 'fwd', True,
                           ['name', '0', 'len(required)'], None)

    # ---- R04.5 None -> Interface (over path summaries) -------------------------------
    import re as _re
    from .mutators import norm_required
    from ..sympath import summaries as _S, normal as _N
    RAW = _re.compile(r'(?<![A-Za-z0-9_.])required(?![A-Za-z0-9_])')
    for fn in ('register', '_find_leaf', 'unregister', 'subscribe',
               'unsubscribe'):
        f = find_def(mod, 'BaseAdapterRegistry.' + fn)
        probs = []
        used = 0
        for ps in _N(_S(f)):
            texts = [(repr(e), e) for e in ps.events] + [(c, None) for c, t, p in ps.order]
            if ps.ret is not None:
                texts.append((sem.nt(ps.ret), None))
            for txt, e in texts:
                if e is not None and e.kind == 'call' and \
                        sem.nt(e.r.func) == 'self.unregister':
                    continue      # register(..., None) delegates with the raw arguments
                t = txt
                if e is not None:
                    parts = [sem.nt(e.r)] + ([sem.nt(e.val)] if e.val is not None else [])
                    t = ' = '.join(norm_required(x) for x in parts)
                else:
                    t = norm_required(t)
                if _re.search(r'(?<![A-Za-z0-9_.])R(?![A-Za-z0-9_])', t):
                    used += 1
                if RAW.search(t) and not t.startswith(
                        ('_convert_None_to_Interface(', 'map(_convert_None_to_Interface, ')):
                    probs.append('`required` is used without the None -> Interface '
                                 'conversion in `%s`' % t[:70])
        if not used:
            probs.append('the normalised required is never used')
        rep.check('R04.5', 'BaseAdapterRegistry.' + fn, not probs,
                  'every use of `required` goes through tuple(_convert_None_to_Interface'
                  '(r) for r in required) (%d uses)' % used if not probs else
                  {'problems': sorted(set(probs))[:3]}, node=f)
    cn = find_def(mod, '_convert_None_to_Interface')
    p = params(cn)[0]
    tab = set()
    for ps in _N(_S(cn)):
        tab.add((ps.facts.get('%s is None' % p), sem.nt(ps.ret)))
    rep.check('R04.5', '_convert_None_to_Interface',
              tab == {(True, 'Interface'), (False, p)},
              'decision table %s' % sorted(map(str, tab)), node=cn)

    # ---- R04.6 default handling and cache fill (PY) ----------------------
    lk = find_def(mod, 'LookupBase.lookup')
    sem.cached_lookup_spec(rep, 'R04.6', lk, 'LookupBase.lookup', '_uncached_lookup',
                           '_getcache', 'single-or-tuple', True,
                           ['required', 'provided', 'name'])
    from .C05 import subscribe_on_all_exits
    subscribe_on_all_exits(rep, mod, 'R04.7', only=('_uncached_lookup',))
    from .C05 import subscribe_all_spec
    subscribe_all_spec(rep, mod, 'R04.7')
    from . import cside
    cside.c04(rep)
    # ... and later changes of a base registry (verifying registries answer
    # from their cache only while the snapshot covers EVERY registry above)
    cside.verify_snapshot_c(rep, cside.cu(rep), 'R04.7')
    # ---- R04.8 ---------------------------------------------------------------
    from ..pyfront import ClassTable
    from .C05 import inv1, inv7
    inv1(rep, mod, ClassTable(repo, ['adapter.py']), rule='R04.8')
    inv7(rep, rule='R04.8')
    shared.generation_monotone(rep, 'R04.8', mod)
