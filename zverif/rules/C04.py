"""C04 - adapter lookup returns the most specific applicable registration.

Decides the loop shapes that fix the winner for every hierarchy: traversal
source + direction + combinator of the recursive walk, of the extendor walk,
of the registry walk; the order maintained by add_extendor; None->Interface
normalisation in all key constructors; default handling.
"""
import ast

from ..core import AnalysisError, norm_src
from ..pyfront import (find_def, find_all, match, walk_local, dotted, same,
                       calls_in, names_in)
from ..flowq import iter_polarity, resolve_local, loops_over
from ..cfg import cfg_of
from . import shared


def params(func):
    return [a.arg for a in func.args.args]


def split_recursive_leaf(rep, func, rule):
    """The ``if i < l`` split of _lookup/_lookupAll/_subscriptions:
    returns (recursive_body, leaf_body, i_name, l_name)."""
    ps = params(func)
    top_ifs = [s for s in func.body if isinstance(s, ast.If)]
    for st in top_ifs:
        t = st.test
        if isinstance(t, ast.Compare) and len(t.ops) == 1 and \
                isinstance(t.left, ast.Name) and \
                isinstance(t.comparators[0], ast.Name):
            a, b = t.left.id, t.comparators[0].id
            op = type(t.ops[0]).__name__
            if a in ps and b in ps:
                if op == 'Lt':
                    return st.body, st.orelse, a, b, st
                if op == 'Gt':
                    return st.body, st.orelse, b, a, st
                if op == 'GtE':      # i >= l : leaf first
                    return st.orelse, st.body, a, b, st
                if op == 'LtE':      # l <= i
                    return st.orelse, st.body, b, a, st
                if op in ('Eq',):
                    return st.orelse, st.body, a, b, st
                if op in ('NotEq',):
                    return st.body, st.orelse, a, b, st
    return None


def probe_is_exact(func, loop, container_names):
    """Inside ``loop`` the container is probed with exactly the loop
    variable: components.get(var) / components_get(var) / components[var]."""
    if not isinstance(loop.target, ast.Name):
        return None
    var = loop.target.id
    probes = []
    for n in walk_local(loop):
        if isinstance(n, ast.Call):
            f = resolve_local(func, n.func) if isinstance(n.func, ast.Name) \
                else n.func
            if isinstance(f, ast.Attribute) and f.attr == 'get' and \
                    isinstance(f.value, ast.Name) and \
                    f.value.id in container_names and n.args:
                probes.append(n.args[0])
        elif isinstance(n, ast.Subscript) and isinstance(n.value, ast.Name) \
                and n.value.id in container_names:
            probes.append(n.slice)
    if not probes:
        return None
    return all(isinstance(p, ast.Name) and p.id == var for p in probes), \
        [norm_src(p) for p in probes]


def first_hit_on_not_none(loop, value_names=None):
    """The loop body returns (or breaks with) a value exactly when it is not
    None; returns (ok, text)."""
    exits = []
    for n in walk_local(loop):
        if isinstance(n, (ast.Return, ast.Break)):
            exits.append(n)
    if not exits:
        return False, 'no early exit in the loop (not first-hit)'
    for ex in exits:
        # guard: nearest enclosing If inside the loop
        p = ex.parent
        guard = None
        while p is not loop:
            if isinstance(p, ast.If) and ex in list(ast.walk(p)) and \
                    any(ex is x or ex in list(ast.walk(x)) for x in p.body):
                guard = p
                break
            p = p.parent
        if guard is None:
            return False, 'unconditional %s in loop' % norm_src(ex)
        env = match('$r is not None', guard.test)
        if env is None:
            return False, 'early exit guarded by `%s`, expected `<result> is not None`' \
                % norm_src(guard.test)
        if isinstance(ex, ast.Return):
            if ex.value is None or not same(ex.value, env['r']):
                return False, 'returns %s under guard on %s' % (
                    norm_src(ex.value), norm_src(env['r']))
    return True, 'early exit iff result is not None'


def run(rep):
    repo = rep.repo
    mod = repo.module('adapter.py')
    rep.rule('R04.1', 'adapter._lookup recursive branch: walk specs[i].__sro__ '
             'forward for every position i, exact-key probe, first non-None '
             'hit returns, recursion with i+1 and unchanged specs/provided/name')
    rep.rule('R04.2', 'adapter._lookup leaf branch: walk the extendor list '
             'forward, exact interface probe, exact-name probe, first non-None')
    rep.rule('R04.3', 'add_extendor keeps everything `provided` extends in '
             'front (most general first) for every interface of provided.__iro__; '
             'remove_extendor removes by equality from every __iro__ entry',
             floor=2)
    rep.rule('R04.4', '_uncached_lookup walks self._registry.ro forward and '
             'stops at the first registry with a non-None answer; skip '
             'conditions are only order>=len(byorder) and no extendors')
    rep.rule('R04.5', 'every key constructor maps each element of `required` '
             'through _convert_None_to_Interface (None means Interface)',
             floor=5)
    rep.rule('R04.6', 'LookupBase.lookup returns `default` (by identity) iff '
             'the result is None, else the result; the cache stores the uncached result, never the default (PY and C)', floor=3)
    rep.rule('R04.7', 'the winner follows later changes of the required '
             'specifications: _uncached_lookup subscribes the lookup object to '
             'every required spec on hit and on miss (else a cached winner '
             'survives classImplements/__bases__ changes)', floor=1)
    rep.decline('none - relative to C02/C03 (resolution orders) and C01 '
                '(providedBy)')

    # ---- R04.1 / R04.2 --------------------------------------------------
    f = find_def(mod, '_lookup')
    ps = params(f)
    rep.require(len(ps) == 6, '_lookup signature changed: %s' % ps)
    comp_p, specs_p, prov_p, name_p = ps[0], ps[1], ps[2], ps[3]
    sp = split_recursive_leaf(rep, f, 'R04.1')
    if sp is None:
        rep.check('R04.1', 'adapter._lookup', False,
                  'cannot find the `i < l` split between recursive and leaf branch',
                  node=f)
        rep.check('R04.2', 'adapter._lookup', False, 'no leaf branch', node=f)
    else:
        rec_body, leaf_body, i_n, l_n, ifnode = sp
        rep.require(i_n == ps[4] and l_n == ps[5],
                    '_lookup: index/length parameters not recognised')
        # recursive branch
        loops = [s for s in rec_body if isinstance(s, ast.For)]
        ok = len(loops) == 1
        if not ok:
            rep.check('R04.1', 'adapter._lookup', False,
                      'recursive branch has %d top-level loops' % len(loops),
                      node=ifnode)
        else:
            lp = loops[0]
            src, d = iter_polarity(lp.iter, f)
            env = match('%s[%s].__sro__' % (specs_p, i_n), src)
            rep.check('R04.1', 'adapter._lookup', env is not None,
                      'recursive walk iterates `%s` (required: %s[%s].__sro__)'
                      % (norm_src(src), specs_p, i_n),
                      construct='source', node=lp)
            rep.check('R04.1', 'adapter._lookup', d == 'fwd',
                      'direction of the walk over the required spec\'s __sro__ '
                      'is %s (required fwd, independent of the position i: '
                      'most specific first)' % d, construct='direction', node=lp)
            pe = probe_is_exact(f, lp, {comp_p})
            rep.check('R04.1', 'adapter._lookup', bool(pe and pe[0]),
                      'probe keys %s (required: exactly the loop variable)'
                      % (pe[1] if pe else 'none found'),
                      construct='probe', node=lp)
            fh = first_hit_on_not_none(lp)
            rep.check('R04.1', 'adapter._lookup', fh[0], fh[1],
                      construct='first-hit', node=lp)
            # recursion arguments
            recs = [c for c in calls_in(lp) if isinstance(c.func, ast.Name)
                    and c.func.id == f.name]
            okr = len(recs) == 1
            detail = 'recursive calls: %s' % [norm_src(c) for c in recs]
            if okr:
                c = recs[0]
                a = c.args
                okr = (len(a) == 6 and not c.keywords
                       and isinstance(a[1], ast.Name) and a[1].id == specs_p
                       and isinstance(a[2], ast.Name) and a[2].id == prov_p
                       and isinstance(a[3], ast.Name) and a[3].id == name_p
                       and match('%s + 1' % i_n, a[4]) is not None
                       and isinstance(a[5], ast.Name) and a[5].id == l_n)
                # first argument: the probed sub-container
                if okr:
                    sub = resolve_local(f, a[0])
                    okr = not (isinstance(a[0], ast.Name) and a[0].id == comp_p)
            rep.check('R04.1', 'adapter._lookup', okr, detail,
                      construct='recursion', node=lp)
        # leaf branch
        loops = [s for s in leaf_body if isinstance(s, ast.For)]
        if len(loops) != 1:
            rep.check('R04.2', 'adapter._lookup', False,
                      'leaf branch has %d top-level loops' % len(loops),
                      node=ifnode)
        else:
            lp = loops[0]
            src, d = iter_polarity(lp.iter, f)
            rep.check('R04.2', 'adapter._lookup',
                      isinstance(src, ast.Name) and src.id == prov_p,
                      'leaf walk iterates `%s` (required: the extendor list `%s`)'
                      % (norm_src(src), prov_p), construct='source', node=lp)
            rep.check('R04.2', 'adapter._lookup', d == 'fwd',
                      'direction of the extendor walk is %s (required fwd: '
                      'most general provided interface first)' % d,
                      construct='direction', node=lp)
            pe = probe_is_exact(f, lp, {comp_p})
            rep.check('R04.2', 'adapter._lookup', bool(pe and pe[0]),
                      'probe keys %s' % (pe[1] if pe else 'none found'),
                      construct='probe', node=lp)
            gets = [c for c in calls_in(lp)
                    if isinstance(c.func, ast.Attribute) and c.func.attr == 'get'
                    and len(c.args) >= 1 and isinstance(c.args[0], ast.Name)
                    and c.args[0].id == name_p]
            okn = len(gets) == 1 and len(gets[0].args) == 1
            rep.check('R04.2', 'adapter._lookup', okn,
                      'exact-name probe `comps.get(%s)`: %s'
                      % (name_p, [norm_src(g) for g in gets]),
                      construct='name-probe', node=lp)
            fh = first_hit_on_not_none(lp)
            rep.check('R04.2', 'adapter._lookup', fh[0], fh[1],
                      construct='first-hit', node=lp)
        # fall through returns None
        last = f.body[-1]
        rep.check('R04.1', 'adapter._lookup',
                  isinstance(last, ast.Return) and
                  (last.value is None or (isinstance(last.value, ast.Constant)
                                          and last.value.value is None)),
                  'falls through to `%s`' % norm_src(last), construct='miss',
                  node=last)

    # ---- R04.3 add_extendor / remove_extendor ----------------------------
    shared.extendor_index(rep, 'R04.3', mod)

    # ---- R04.4 registry walk ------------------------------------------
    ul = find_def(mod, 'AdapterLookupBase._uncached_lookup')
    shared.check_registry_walk(rep, 'R04.4', ul, want_dir='fwd',
                               helper='_lookup', first_hit=True,
                               tail_args=['name', '0', 'order'])

    # ---- R04.5 None -> Interface ------------------------------------------
    for fn in ('register', '_find_leaf', 'unregister', 'subscribe',
               'unsubscribe'):
        f = find_def(mod, 'BaseAdapterRegistry.' + fn)
        ok, detail = shared.required_normalised(f)
        rep.check('R04.5', 'BaseAdapterRegistry.' + fn, ok, detail, node=f)
    cn = find_def(mod, '_convert_None_to_Interface')
    p = params(cn)[0]
    paths = cfg_of(cn).paths()
    okc = True
    seen = []
    for path in paths:
        conds = [(norm_src(n.ast), lab) for n, lab in path if n.kind == 'test']
        ret = [n.ast for n, lab in path if isinstance(n.ast, ast.Return)]
        seen.append((conds, norm_src(ret[0].value) if ret else None))
    want = {((('%s is None' % p, 'T'),), 'Interface'),
            ((('%s is None' % p, 'F'),), p)}
    got = {(tuple(c), r) for c, r in seen}
    alt = {((('%s is not None' % p, 'F'),), 'Interface'),
           ((('%s is not None' % p, 'T'),), p)}
    rep.check('R04.5', '_convert_None_to_Interface', got == want or got == alt,
              'decision table %s' % sorted(map(str, got)), node=cn)

    # ---- R04.6 default handling (PY) -------------------------------------
    lk = find_def(mod, 'LookupBase.lookup')
    shared.check_default_tail(rep, 'R04.6', lk, 'LookupBase.lookup')
    from .C05 import subscribe_on_all_exits
    subscribe_on_all_exits(rep, mod, 'R04.7', only=('_uncached_lookup',))
    from . import cside
    cside.c04(rep)
