"""C02 - extends/isOrExtends equal reachability over the current bases."""
import ast

from ..core import AnalysisError, norm_src
from ..pyfront import (find_def, find_all, match, walk_local, dotted, same,
                       calls_in, names_in, ClassTable, methods_of,
                       class_attr_assign)
from ..flowq import (iter_polarity, resolve_local, loops_over, pred_of,
                     witness_path, nodes_with, reaching_defs, def_value,
                     any_pred)
from ..cfg import cfg_of, header_expr
from . import shared


def must(cfg, pred):
    return cfg.must_pass_after(cfg.entry, pred)


def r02_1(rep, mod, rule='R02.1'):
    f = find_def(mod, 'Specification.changed')
    site = 'Specification.changed'
    cfg = cfg_of(f)
    # implied cleared
    impl = resolve_local(f, ast.Name(id='implied', ctx=ast.Load()))
    clear = any_pred(pred_of('implied.clear()'), pred_of('self._implied.clear()'),
                     pred_of('self._implied = {}', 'exec'),
                     pred_of('implied = self._implied = {}', 'exec'))
    ok = must(cfg, clear) and (match('self._implied', impl) is not None or
                               not find_all(f, 'implied.clear()'))
    rep.check(rule, site, ok,
              'the implied set is emptied on every path before being refilled'
              if ok else {'missing': 'implied.clear()',
                          'path': witness_path(cfg, cfg.entry, clear)},
              construct='clear', node=f)
    # ancestors = self._calculate_sro()   (possibly wrapped in tuple()/list())
    forms = ['$a = self._calculate_sro()', '$a = tuple(self._calculate_sro())',
             '$a = list(self._calculate_sro())']
    calc = any_pred(*[pred_of(p, 'exec') for p in forms])
    okc = must(cfg, calc)
    rep.check(rule, site, okc,
              'the resolution order is recomputed (self._calculate_sro()) on '
              'every path' if okc else
              {'missing': 'self._calculate_sro()',
               'path': witness_path(cfg, cfg.entry, calc)},
              construct='recompute', node=f)
    anc = None
    wrapped = False
    for n in walk_local(f):
        if not isinstance(n, ast.Assign):
            continue
        for k, p in enumerate(forms):
            e = match(p, n, 'exec')
            if e is not None and isinstance(e['a'], ast.Name):
                anc = e['a'].id
                wrapped = k == 1
    if anc is None:
        rep.check(rule, site, False, 'result of _calculate_sro() is not bound to a name',
                  construct='source', node=f)
        return None
    sro_forms = ['self.__sro__ = tuple(%s)' % anc]
    if wrapped:
        sro_forms.append('self.__sro__ = %s' % anc)
    sro = any_pred(*[pred_of(p, 'exec') for p in sro_forms])
    oksro = must(cfg, sro)
    rep.check(rule, site, oksro,
              '__sro__ = tuple(<the computed order>) on every path',
              construct='sro', node=f)
    iro_pats = ['self.__iro__ = tuple([$x for $x in %s if isinstance($x, InterfaceClass)])' % anc,
                'self.__iro__ = tuple($x for $x in %s if isinstance($x, InterfaceClass))' % anc]
    iro = any_pred(*[pred_of(p, 'exec') for p in iro_pats])
    okiro = must(cfg, iro)
    rep.check(rule, site, okiro,
              '__iro__ = the InterfaceClass members of the same computed order, '
              'in order, on every path', construct='iro', node=f)
    # implied loop: unfiltered
    lps = [lp for lp in walk_local(f) if isinstance(lp, ast.For)
           and isinstance(iter_polarity(lp.iter)[0], ast.Name)
           and iter_polarity(lp.iter)[0].id == anc]
    good = None
    for lp in lps:
        v = lp.target.id if isinstance(lp.target, ast.Name) else None
        if v is None:
            continue
        stores = [s for s in lp.body if isinstance(s, ast.Assign)
                  and match('implied[%s]' % v, s.targets[0]) is not None]
        exits = [n for n in walk_local(lp) if isinstance(
            n, (ast.Break, ast.Return, ast.Continue))]
        anystore = find_all(lp, 'implied[%s] = $v' % v, 'exec')
        if anystore:
            good = (lp, bool(stores) and not exits, stores, exits)
    if good is None:
        rep.check(rule, site, False,
                  'no loop over the computed order storing implied[ancestor]',
                  construct='implied', node=f)
    else:
        lp, ok, stores, exits = good
        okm = must(cfg, lambda n: n.ast is lp)
        rep.check(rule, site, ok and okm,
                  'every member of the computed order is recorded in the implied '
                  'set unconditionally (unconditional store: %s, early exits: %d, '
                  'on every path: %s)' % (bool(stores), len(exits), okm),
                  construct='implied', node=lp)
    # v_attrs reset
    va = pred_of('self._v_attrs = None', 'exec')
    rep.check(rule, site, must(cfg, va),
              'the attribute memo _v_attrs is dropped on every path',
              construct='v_attrs', node=f)
    return anc


def r02_2(rep, mod, rule='R02.2'):
    f = find_def(mod, 'Specification.changed')
    site = 'Specification.changed'
    cfg = cfg_of(f)
    found = None
    for lp in walk_local(f):
        if not isinstance(lp, ast.For) or not isinstance(lp.target, ast.Name):
            continue
        v = lp.target.id
        calls = find_all(lp, '%s.changed($$a)' % v)
        if calls:
            found = (lp, v, calls)
    if found is None:
        rep.check(rule, site, False, 'no loop notifying the dependents',
                  construct='notify', node=f)
        return
    lp, v, calls = found
    it = lp.iter
    snap = isinstance(it, ast.Call) and isinstance(it.func, ast.Name) and \
        it.func.id in ('tuple', 'list') and len(it.args) == 1
    src = it.args[0] if snap else it
    oksrc = (match('self._dependents.keys() if self._dependents else ()', src) is not None
             or match('self._dependents.keys()', src) is not None
             or match('self._dependents', src) is not None
             or match('self.dependents.keys()', src) is not None
             or match('self.dependents', src) is not None
             or match('self._dependents or ()', src) is not None)
    rep.check(rule, site, oksrc,
              'notifies the keys of the dependents table: `%s`' % norm_src(src),
              construct='source', node=lp)
    rep.check(rule, site, snap,
              'iterates a snapshot (tuple/list) of the dependents: a dependent\'s '
              'changed() may unsubscribe it (lookup objects do), and mutating '
              'the live mapping during iteration aborts the propagation: `%s`'
              % norm_src(it), construct='snapshot', node=lp)
    c = calls[0][0]
    uncond = isinstance(c.parent, ast.Expr) and c.parent.parent is lp
    exits = [n for n in walk_local(lp) if isinstance(
        n, (ast.Break, ast.Return, ast.Continue))]
    okargs = match('%s.changed(originally_changed)' % v, c) is not None
    rep.check(rule, site, uncond and not exits and okargs,
              'every dependent is notified unconditionally with the original '
              'cause (unconditional %s, early exits %d, argument %s)'
              % (uncond, len(exits), okargs), construct='all', node=lp)
    ln = cfg.node_of(lp)
    okpath = must(cfg, lambda n: n is ln)
    rep.check(rule, site, okpath,
              'the notification loop is reached on every path (no early return '
              'that skips dependents)' if okpath else
              {'path': witness_path(cfg, cfg.entry, lambda n: n is ln)},
              construct='reached', node=lp)
    # ordering: own state first
    sro = pred_of('self.__sro__ = $v', 'exec')
    iro = pred_of('self.__iro__ = $v', 'exec')
    okdom = cfg.dominated_by(ln, sro) and cfg.dominated_by(ln, iro)
    impl = [n for n in cfg.nodes if n.ast is not None and n.kind == 'iter'
            and find_all(n.ast, 'implied[$k] = $v', 'exec')]
    okdom = okdom and all(cfg.dominated_by(ln, lambda n, x=x: n is x) for x in impl) \
        and bool(impl)
    rep.check(rule, site, okdom,
              'own __sro__/__iro__/implied are settled before dependents are '
              'told (they read their bases\' __sro__)', construct='order', node=lp)


def r02_3(rep, mod, rule='R02.3'):
    cls = find_def(mod, 'Specification')
    f = None
    for st in cls.body:
        if isinstance(st, ast.FunctionDef) and st.name.endswith('__setBases'):
            f = st
    rep.require(f is not None, 'Specification.__setBases vanished')
    site = 'Specification.__setBases'
    cfg = cfg_of(f)
    store = [n for n in cfg.nodes if isinstance(n.ast, ast.Assign)
             and match('self._bases = bases', n.ast, 'exec') is not None]
    rep.check(rule, site, len(store) == 1, 'stores self._bases = bases',
              construct='store', node=f)
    if len(store) != 1:
        return
    st = store[0]

    def full_loop(src_pats, call):
        for lp in walk_local(f):
            if not isinstance(lp, ast.For) or not isinstance(lp.target, ast.Name):
                continue
            s, d = iter_polarity(lp.iter)
            if not any(match(p, s) is not None for p in src_pats):
                continue
            v = lp.target.id
            cs = find_all(lp, '%s.%s(self)' % (v, call))
            if not cs:
                continue
            uncond = isinstance(cs[0][0].parent, ast.Expr) and \
                cs[0][0].parent.parent is lp
            exits = [n for n in walk_local(lp) if isinstance(
                n, (ast.Break, ast.Return, ast.Continue))]
            return lp, uncond and not exits
        return None, False
    ul, oku = full_loop(['self.__bases__', 'self._bases'], 'unsubscribe')
    sl, oks = full_loop(['bases', 'self._bases', 'self.__bases__'], 'subscribe')
    okub = ul is not None and cfg.dominated_by(st, lambda n: n.ast is ul)
    rep.check(rule, site, oku and okub,
              'unsubscribes from EVERY old base (unconditionally, by object) '
              'before the store', construct='unsubscribe-all', node=f)
    oksa = sl is not None and st.id not in cfg.reach(cfg.node_of(sl)) and \
        cfg.dominated_by(cfg.node_of(sl), lambda n: n is st) if sl is not None else False
    if sl is not None:
        s, d = iter_polarity(sl.iter)
        if match('bases', s) is None:
            oksa = oksa and True
    rep.check(rule, site, oks and bool(oksa),
              'subscribes to EVERY new base (unconditionally) after the store',
              construct='subscribe-all', node=f)
    chg = pred_of('self.changed(self)')
    okc = must(cfg, chg)
    cn = [n for n in cfg.nodes if n.ast is not None and chg(n)]
    oklast = okc and all(cfg.dominated_by(n, lambda m: m is st) for n in cn) and \
        (sl is None or all(cfg.dominated_by(n, lambda m: m.ast is sl) for n in cn))
    rep.check(rule, site, oklast,
              'calls self.changed(self) last, on every path', construct='changed',
              node=f)
    prop = class_attr_assign(cls, '__bases__')
    okp = False
    if prop is not None:
        env = match('property($g, $s)', prop)
        okp = env is not None and isinstance(env['s'], ast.Name) and \
            env['s'].id == f.name and isinstance(env['g'], ast.Lambda) and \
            match('self._bases', env['g'].body) is not None
    rep.check(rule, site, okp, '__bases__ = property(lambda self: self._bases, '
              '__setBases): %s' % norm_src(prop), construct='property', node=cls)
    init = find_def(mod, 'Specification.__init__')
    cfgi = cfg_of(init)
    rep.check(rule, 'Specification.__init__',
              must(cfgi, pred_of('self.__bases__ = tuple(bases)', 'exec')),
              'the constructor assigns the bases through the property',
              construct='init', node=init)
    # subscribe / unsubscribe counting
    sub = find_def(mod, 'Specification.subscribe')
    d = shared.params(sub)[1]
    ok = bool(find_all(sub, 'self._dependents[%s] = self.dependents.get(%s, 0) + 1'
                       % (d, d), 'exec'))
    rep.check(rule, 'Specification.subscribe', ok,
              'counts one more subscription of the dependent', construct='count',
              node=sub)
    un = find_def(mod, 'Specification.unsubscribe')
    d = shared.params(un)[1]
    dec = find_all(un, 'n -= 1', 'exec') + find_all(un, 'n = n - 1', 'exec')
    ifs = [n for n in walk_local(un) if isinstance(n, ast.If)
           and (match('not n', n.test) is not None or match('n == 0', n.test) is not None)]
    ok = len(dec) == 1 and len(ifs) == 1
    if ok:
        i = ifs[0]
        ok = any(find_all(s, 'del self.dependents[%s]' % d, 'exec') or
                 find_all(s, 'del self._dependents[%s]' % d, 'exec') for s in i.body) \
            and any(find_all(s, 'self.dependents[%s] = n' % d, 'exec') or
                    find_all(s, 'self._dependents[%s] = n' % d, 'exec') for s in i.orelse)
        n0 = [x for x in walk_local(un) if isinstance(x, ast.Assign)
              and match('n = self._dependents[%s]' % d, x, 'exec') is not None]
        ok = ok and len(n0) == 1
    rep.check(rule, 'Specification.unsubscribe', ok,
              'decrements the count; removes the dependent exactly at zero',
              construct='count', node=un)


def r02_4(rep, repo, rule='R02.4'):
    table = ClassTable(repo, ['interface.py', 'declarations.py'])
    # InterfaceClass is created by a metaclass call with literal bases
    table.synthetic_bases['_InterfaceClassBase'] = ['InterfaceBase',
                                                    'Specification', 'Element']
    table.classes.setdefault('_InterfaceClassBase', ('interface.py', None))
    watched = ('changed', 'subscribe', 'unsubscribe', 'dependents',
               '__bases__', 'isOrExtends', 'extends', '_calculate_sro',
               '__setBases', '_implied', '__sro__', '__iro__')
    n = 0
    for cname in sorted(table.classes):
        node = table.node(cname)
        if node is None or cname in ('Specification', 'SpecificationBase'):
            continue
        try:
            mro = table.mro(cname)
        except AnalysisError:
            continue
        if 'Specification' not in mro:
            continue
        for st in node.body:
            names = []
            if isinstance(st, ast.FunctionDef):
                names = [st.name]
            elif isinstance(st, ast.Assign):
                names = [t.id for t in st.targets if isinstance(t, ast.Name)]
            for nm in names:
                if nm not in watched:
                    continue
                n += 1
                site = '%s.%s' % (cname, nm)
                if cname == '_ImmutableDeclaration':
                    ok = immutable_ok(node)
                    rep.check(rule, site, ok,
                              'the shared empty declaration may ignore '
                              'notifications only while it can never change: '
                              '__bases__ setter rejects every non-empty value '
                              'and interfaces() is empty: %s' % ok,
                              construct='immutable', node=st)
                    continue
                if nm == 'changed' and isinstance(st, ast.FunctionDef):
                    cfg = cfg_of(st)
                    p = pred_of('super().changed(originally_changed)')
                    ok = must(cfg, p)
                    rep.check(rule, site, ok,
                              'override calls super().changed(originally_changed) '
                              'on every path' if ok else
                              {'path': witness_path(cfg, cfg.entry, p)},
                              construct='super', node=st)
                    continue
                if nm in ('isOrExtends',) and isinstance(st, ast.Assign) and \
                        dotted(st.value) == 'SpecificationBase.isOrExtends':
                    rep.check(rule, site, True, 'alias of the base implementation',
                              construct='alias', node=st)
                    continue
                rep.check(rule, site, False,
                          'unexpected override of %s in a Specification subclass '
                          '(bypasses the notification protocol)' % nm,
                          construct='override', node=st)
    rep.require(n >= 5, 'R02.4: only %d overrides found' % n)


def immutable_ok(node):
    setter = None
    for st in node.body:
        if isinstance(st, ast.FunctionDef) and st.name == '__bases__' and any(
                norm_src(d) == '__bases__.setter' for d in st.decorator_list):
            setter = st
    if setter is None:
        return False
    p = shared.params(setter)[1]
    ifs = [n for n in setter.body if isinstance(n, ast.If)]
    ok = len(ifs) == 1 and match('%s != ()' % p, ifs[0].test) is not None and \
        any(isinstance(s, ast.Raise) for s in ifs[0].body)
    stores = [n for n in walk_local(setter) if isinstance(n, (ast.Assign, ast.AugAssign))]
    ok = ok and not stores
    it = methods_of(node).get('interfaces')
    ok = ok and it is not None and any(
        isinstance(s, ast.Return) and match('iter(())', s.value) is not None
        for s in it.body)
    return ok


def r02_5(rep, mod, rule='R02.5'):
    sb = find_def(mod, 'SpecificationBase')
    ms = methods_of(sb)
    f = ms['isOrExtends']
    p = shared.params(f)[1]
    rets = [n for n in walk_local(f) if isinstance(n, ast.Return)]
    ok = len(rets) == 1 and match('%s in self._implied' % p, rets[0].value) is not None
    rep.check(rule, 'SpecificationBase.isOrExtends', ok,
              'returns %s' % [norm_src(r.value) for r in rets], node=f)
    for nm, fn in (('providedBy', 'providedBy'), ('implementedBy', 'implementedBy')):
        f = ms[nm]
        p = shared.params(f)[1]
        rets = [n for n in walk_local(f) if isinstance(n, ast.Return)]
        ok = len(rets) == 1 and match('self in $s._implied', rets[0].value) is not None
        if ok:
            sp = resolve_local(f, match('self in $s._implied', rets[0].value)['s'])
            ok = match('%s(%s)' % (fn, p), sp) is not None
        rep.check(rule, 'SpecificationBase.' + nm, ok,
                  'returns self in %s(%s)._implied: %s' % (
                      fn, p, [norm_src(r.value) for r in rets]), node=f)
    v = class_attr_assign(sb, '__call__')
    rep.check(rule, 'SpecificationBase.__call__',
              v is not None and dotted(v) == 'isOrExtends',
              '__call__ = isOrExtends', node=sb)
    f = find_def(mod, 'Specification.extends')
    ps = shared.params(f)
    i, s = ps[1], ps[2]
    rets = [n for n in walk_local(f) if isinstance(n, ast.Return)]
    pats = ['%s in self._implied and (not %s or self != %s)' % (i, s, i),
            '%s in self._implied and (self != %s or not %s)' % (i, i, s)]
    ok = len(rets) == 1 and any(match(p, rets[0].value) is not None for p in pats)
    dflt = [norm_src(d) for d in f.args.defaults]
    rep.check(rule, 'Specification.extends', ok and dflt == ['True'],
              'returns %s (strict default %s)' % (
                  [norm_src(r.value) for r in rets], dflt), node=f)


def r02_6(rep, mod, rule='R02.6'):
    f = find_def(mod, 'Specification._calculate_sro')
    site = 'Specification._calculate_sro'
    call = find_all(f, 'self._do_calculate_ro(base_mros={$b: $b.__sro__ for $b in self.__bases__})')
    rep.check(rule, site, len(call) == 1,
              'the order is computed from the CURRENT __sro__ of every current '
              'base', construct='bases', node=f)
    ifs = [n for n in f.body if isinstance(n, ast.If)]
    ok = False
    detail = 'no root-last adjustment found'
    for i in ifs:
        if match('root is not None and sro and sro[-1] is not root', i.test) is not None:
            filt = find_all(i, 'sro = [$x for $x in sro if $x is not root]', 'exec')
            app = find_all(i, 'sro.append(root)', 'exec')
            root = resolve_local(f, ast.Name(id='root', ctx=ast.Load()))
            ok = bool(filt) and bool(app) and match('self._ROOT', root) is not None
            detail = ('when the root is not already last it is removed wherever '
                      'it is and appended (filter %s, append %s)' % (bool(filt), bool(app)))
    rets = [n for n in walk_local(f) if isinstance(n, ast.Return)]
    ok = ok and len(rets) == 1 and match('sro', rets[0].value) is not None
    rep.check(rule, site, ok, detail, construct='root-last', node=f)
    v = class_attr_assign(find_def(mod, 'Specification'), '_do_calculate_ro')
    rep.check(rule, site, v is not None and dotted(v) == 'calculate_ro',
              '_do_calculate_ro is ro.ro', construct='ro', node=f)


def run(rep):
    repo = rep.repo
    mod = repo.module('interface.py')
    rep.rule('R02.1', 'Specification.changed recomputes, on every path, '
             '__sro__, __iro__ and the implied set from ONE unfiltered result '
             'of _calculate_sro()', floor=6)
    rep.rule('R02.2', 'then notifies EVERY dependent (snapshot of the keys, '
             'no condition, no early exit), after its own state is settled',
             floor=5)
    rep.rule('R02.3', '__bases__ store protocol: unsubscribe from every old '
             'base, store, subscribe to every new base, changed(self) last; '
             'subscription counting', floor=8)
    rep.rule('R02.4', 'overrides in Specification subclasses keep the '
             'protocol (Implements.changed calls super; the immutable empty '
             'declaration can never change)', floor=5)
    rep.rule('R02.5', 'queries read only the implied set: isOrExtends = '
             'membership; providedBy/implementedBy = self in spec._implied; '
             'extends = membership and (not strict or self != interface); same '
             'for the C twins SB_extends/SB_providedBy/SB_implementedBy',
             floor=9)
    rep.rule('R02.6', '_calculate_sro uses the current __sro__ of the current '
             'bases and always returns the root last', floor=3)
    rep.assume('the __bases__ graph is acyclic (the package does not enforce '
               'it; termination of the propagation depends on it)')
    rep.decline('none: by induction on the longest path the rules above give '
                'the behaviour (argument in DESIGN.md section 3, C02), but the '
                'induction itself is not machine-checked')
    r02_1(rep, mod)
    r02_2(rep, mod)
    r02_3(rep, mod)
    r02_4(rep, repo)
    r02_5(rep, mod)
    r02_6(rep, mod)
    from . import cside
    cside.c02(rep)
