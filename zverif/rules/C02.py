"""C02 - extends/isOrExtends equal reachability over the current bases."""
import ast

from ..core import AnalysisError, norm_src
from ..pyfront import (find_def, find_all, match, walk_local, dotted, same,
                       calls_in, names_in, ClassTable, methods_of,
                       class_attr_assign)
from ..flowq import (iter_polarity, resolve_local, loops_over, pred_of,
                     witness_path, nodes_with, reaching_defs, def_value,
                     any_pred)
from ..cfg import cfg_of, header_expr
from . import shared


def must(cfg, pred):
    return cfg.must_pass_after(cfg.entry, pred)


def r02_3(rep, mod, rule='R02.3'):
    cls = find_def(mod, 'Specification')
    f = None
    for st in cls.body:
        if isinstance(st, ast.FunctionDef) and st.name.endswith('__setBases'):
            f = st
    rep.require(f is not None, 'Specification.__setBases vanished')
    site = 'Specification.__setBases'
    from ..sympath import summaries as _S, normal as _N
    from .sem import nt as _nt
    from ..pyfront import inlined as _inl
    f = _inl(f)
    p_store, p_un, p_sub, p_chg = [], [], [], []
    ss = _N(_S(f))
    bases_p = [a.arg for a in f.args.args][-1]
    OLD = ('self.__bases__', 'self._bases')
    nold = nnew = 0
    for ps in ss:
        st = [e for e in ps.stores() if _nt(e.r) == 'self._bases']
        if len(st) != 1 or _nt(st[0].val) != bases_p:
            p_store.append('stores %s' % [repr(e)[:40] for e in st])
            continue
        si = ps.index(st[0])
        facts_each = [c for c, t, p in ps.order if 'EACH(' in c and not c.startswith('ITER(')]
        if facts_each:
            p_un.append('(un)subscription depends on `%s`' % facts_each[0][:60])
        un = [e for e in ps.events if e.kind == 'call' and
              isinstance(e.r.func, ast.Attribute) and e.r.func.attr == 'unsubscribe']
        sub = [e for e in ps.events if e.kind == 'call' and
               isinstance(e.r.func, ast.Attribute) and e.r.func.attr == 'subscribe']
        old_it = [c for c, t, p in ps.order if t and c in ['ITER(%s)' % o for o in OLD]
                  and p <= si]
        if old_it:
            nold += 1
            E = 'EACH(%s)' % old_it[0][5:-1]
            if [_nt(e.r) for e in un] != ['%s.unsubscribe(self)' % E] or \
                    ps.index(un[0]) > si:
                p_un.append('old bases: %s' % [_nt(e.r)[:50] for e in un])
        elif un:
            p_un.append('unsubscribes from `%s`' % _nt(un[0].r)[:50])
        new_src = [bases_p, 'self._bases', 'self.__bases__']
        new_it = [(c, p) for c, t, p in ps.order if t and c in ['ITER(%s)' % o for o in new_src]
                  and p > si]
        if new_it:
            nnew += 1
            E = 'EACH(%s)' % new_it[0][0][5:-1]
            if [_nt(e.r) for e in sub] != ['%s.subscribe(self)' % E] or \
                    ps.index(sub[0]) < si:
                p_sub.append('new bases: %s' % [_nt(e.r)[:50] for e in sub])
        elif sub:
            p_sub.append('subscribes to `%s`' % _nt(sub[0].r)[:50])
        last = ps.events[-1] if ps.events else None
        ch = [e for e in ps.events if e.kind == 'call' and _nt(e.r) == 'self.changed(self)']
        if len(ch) != 1 or last is not ch[0]:
            p_chg.append('self.changed(self) called %d times / not last' % len(ch))
    for lp in walk_local(f):
        if isinstance(lp, ast.For) and [n for n in walk_local(lp) if isinstance(
                n, (ast.Break, ast.Return, ast.Continue))]:
            p_un.append('a walk over the bases can end early')
    if not nold:
        p_un.append('no path walks the old bases')
    if not nnew:
        p_sub.append('no path walks the new bases')
    rep.check(rule, site, bool(ss) and not p_store, 'stores self._bases = bases'
              if not p_store else {'problems': p_store[:2]}, construct='store', node=f)
    rep.check(rule, site, not p_un,
              'unsubscribes from EVERY old base (unconditionally, by object) '
              'before the store' if not p_un else {'problems': sorted(set(p_un))[:2]},
              construct='unsubscribe-all', node=f)
    rep.check(rule, site, not p_sub,
              'subscribes to EVERY new base (unconditionally) after the store'
              if not p_sub else {'problems': sorted(set(p_sub))[:2]},
              construct='subscribe-all', node=f)
    rep.check(rule, site, not p_chg,
              'calls self.changed(self) last, on every path'
              if not p_chg else {'problems': sorted(set(p_chg))[:2]},
              construct='changed', node=f)
    prop = class_attr_assign(cls, '__bases__')
    okp = False
    if prop is not None:
        env = match('property($g, $s)', prop)
        okp = env is not None and isinstance(env['s'], ast.Name) and \
            env['s'].id == f.name and isinstance(env['g'], ast.Lambda) and \
            match('self._bases', env['g'].body) is not None
    rep.check(rule, site, okp, '__bases__ = property(lambda self: self._bases, '
              '__setBases): %s' % norm_src(prop), construct='property', node=cls)
    init = find_def(mod, 'Specification.__init__')
    from ..sympath import summaries as _S, normal as _N
    from .sem import nt as _nt
    bp = ([a.arg for a in init.args.args] + ['bases'])[1]
    paths = _N(_S(init))
    oki = bool(paths)
    for ps in paths:
        st = [e for e in ps.stores() if _nt(e.r) == 'self.__bases__']
        if len(st) != 1 or norm_src(st[0].val) != 'tuple(%s)' % bp:
            oki = False
    rep.check(rule, 'Specification.__init__', oki,
              'the constructor assigns tuple(bases) through the property on every '
              'path',
              construct='init', node=init)


def r02_4(rep, repo, rule='R02.4'):
    table = ClassTable(repo, ['interface.py', 'declarations.py'])
    # InterfaceClass is created by a metaclass call with literal bases
    table.synthetic_bases['_InterfaceClassBase'] = ['InterfaceBase',
                                                    'Specification', 'Element']
    table.classes.setdefault('_InterfaceClassBase', ('interface.py', None))
    watched = ('changed', 'subscribe', 'unsubscribe', 'dependents',
               '__bases__', 'isOrExtends', 'extends', '_calculate_sro',
               '__setBases', '_implied', '__sro__', '__iro__')
    n = 0
    for cname in sorted(table.classes):
        node = table.node(cname)
        if node is None or cname in ('Specification', 'SpecificationBase'):
            continue
        try:
            mro = table.mro(cname)
        except AnalysisError:
            continue
        if 'Specification' not in mro:
            continue
        for st in node.body:
            names = []
            if isinstance(st, ast.FunctionDef):
                names = [st.name]
            elif isinstance(st, ast.Assign):
                names = [t.id for t in st.targets if isinstance(t, ast.Name)]
            for nm in names:
                if nm not in watched:
                    continue
                n += 1
                site = '%s.%s' % (cname, nm)
                if cname == '_ImmutableDeclaration':
                    ok = immutable_ok(node)
                    rep.check(rule, site, ok,
                              'the shared empty declaration may ignore '
                              'notifications only while it can never change: '
                              '__bases__ setter rejects every non-empty value '
                              'and interfaces() is empty: %s' % ok,
                              construct='immutable', node=st)
                    continue
                if nm == 'changed' and isinstance(st, ast.FunctionDef):
                    # over path summaries: every normal path hands the notification
                    # (with the caller's argument) to the inherited implementation -
                    # spelled super().changed(x), super(Cls, self).changed(x) or
                    # Base.changed(self, x) for a class later in the MRO
                    from . import sem as _sem4
                    arg = st.args.args[1].arg if len(st.args.args) > 1 else None
                    later = mro[mro.index(cname) + 1:] if cname in mro else []
                    accept = {'super().changed(%s)' % arg,
                              'super(%s, self).changed(%s)' % (cname, arg)}
                    # module-level aliases of the class (`ProvidesClass = Provides`)
                    for rel_ in ('interface.py', 'declarations.py'):
                        for ms_ in repo.module(rel_).body:
                            if isinstance(ms_, ast.Assign) and isinstance(ms_.value, ast.Name) \
                                    and ms_.value.id == cname:
                                for t_ in ms_.targets:
                                    if isinstance(t_, ast.Name):
                                        accept.add('super(%s, self).changed(%s)' % (t_.id, arg))
                    accept |= {'%s.changed(self, %s)' % (b, arg) for b in later}
                    ss4 = _sem4.normal(_sem4.summaries(st))
                    bad4 = [ps for ps in ss4 if not any(
                        e.kind == 'call' and _sem4.nt(e.r) in accept for e in ps.events)]
                    ok = bool(ss4) and not bad4
                    rep.check(rule, site, ok,
                              'override hands the notification to the inherited changed() '
                              'on every path (%d paths)' % len(ss4) if ok else
                              {'path': [repr(e)[:70] for e in bad4[0].events][:8] if bad4
                               else 'no normal path'},
                              construct='super', node=st)
                    continue
                if nm in ('isOrExtends',) and isinstance(st, ast.Assign) and \
                        dotted(st.value) == 'SpecificationBase.isOrExtends':
                    rep.check(rule, site, True, 'alias of the base implementation',
                              construct='alias', node=st)
                    continue
                rep.check(rule, site, False,
                          'unexpected override of %s in a Specification subclass '
                          '(bypasses the notification protocol)' % nm,
                          construct='override', node=st)
    rep.require(n >= 5, 'R02.4: only %d overrides found' % n)


def immutable_ok(node):
    setter = None
    for st in node.body:
        if isinstance(st, ast.FunctionDef) and st.name == '__bases__' and any(
                norm_src(d) == '__bases__.setter' for d in st.decorator_list):
            setter = st
    if setter is None:
        return False
    p = shared.params(setter)[1]
    ifs = [n for n in setter.body if isinstance(n, ast.If)]
    ok = len(ifs) == 1 and match('%s != ()' % p, ifs[0].test) is not None and \
        any(isinstance(s, ast.Raise) for s in ifs[0].body)
    stores = [n for n in walk_local(setter) if isinstance(n, (ast.Assign, ast.AugAssign))]
    ok = ok and not stores
    it = methods_of(node).get('interfaces')
    ok = ok and it is not None and any(
        isinstance(s, ast.Return) and match('iter(())', s.value) is not None
        for s in it.body)
    return ok


def r02_5(rep, mod, rule='R02.5'):
    sb = find_def(mod, 'SpecificationBase')
    ms = methods_of(sb)
    from . import sem as _sem

    def only_returns(fn, want, site, text):
        ss_ = _sem.normal(_sem.summaries(fn))
        got = sorted({_sem.nt(ps.ret) for ps in ss_})
        other = sorted({_sem.nt(e.r) for ps in ss_ for e in ps.events
                        if not (e.kind == 'call' and _sem.nt(e.r) in want[1:])})
        ok = bool(ss_) and got == [want[0]] and not other
        rep.check(rule, site, ok, text if ok else
                  {'returns': got, 'other effects': other[:2]}, node=fn)
    f = ms['isOrExtends']
    p = shared.params(f)[1]
    only_returns(f, ['%s in self._implied' % p], 'SpecificationBase.isOrExtends',
                 'isOrExtends = membership in the implied set')
    for nm, fn in (('providedBy', 'providedBy'), ('implementedBy', 'implementedBy')):
        f = ms[nm]
        p = shared.params(f)[1]
        only_returns(f, ['self in %s(%s)._implied' % (fn, p), '%s(%s)' % (fn, p)],
                     'SpecificationBase.' + nm,
                     'returns self in %s(%s)._implied' % (fn, p))
    v = class_attr_assign(sb, '__call__')
    rep.check(rule, 'SpecificationBase.__call__',
              v is not None and dotted(v) == 'isOrExtends',
              '__call__ = isOrExtends', node=sb)


def r02_6(rep, mod, rule='R02.6'):
    f = find_def(mod, 'Specification._calculate_sro')
    site = 'Specification._calculate_sro'
    v = class_attr_assign(find_def(mod, 'Specification'), '_do_calculate_ro')
    rep.check(rule, site, v is not None and dotted(v) == 'calculate_ro',
              '_do_calculate_ro is ro.ro', construct='ro', node=f)


def run(rep):
    repo = rep.repo
    mod = repo.module('interface.py')
    rep.rule('R02.1', 'Specification.changed recomputes, on every path, '
             '__sro__, __iro__ and the implied set from ONE unfiltered result '
             'of _calculate_sro()', floor=6)
    rep.rule('R02.2', 'then notifies EVERY dependent (snapshot of the keys, '
             'no condition, no early exit), after its own state is settled',
             floor=5)
    rep.rule('R02.3', '__bases__ store protocol: unsubscribe from every old '
             'base, store, subscribe to every new base, changed(self) last; '
             'subscription counting', floor=8)
    rep.rule('R02.4', 'overrides in Specification subclasses keep the '
             'protocol (Implements.changed calls super; the immutable empty '
             'declaration can never change)', floor=5)
    rep.rule('R02.5', 'queries read only the implied set: isOrExtends = '
             'membership; providedBy/implementedBy = self in spec._implied; '
             'extends = membership and (not strict or self != interface); same '
             'for the C twins SB_extends/SB_providedBy/SB_implementedBy',
             floor=9)
    rep.rule('R02.6', '_calculate_sro uses the current __sro__ of the current '
             'bases and always returns the root last', floor=3)
    rep.rule('R02.7', 'every dependent is notified: the dependents table must '
             'distinguish distinct dependents (identity), although interfaces compare '
             'and hash by (__name__, __module__)', floor=1)
    rep.assume('the __bases__ graph is acyclic (the package does not enforce '
               'it; termination of the propagation depends on it)')
    rep.decline('none: by induction on the longest path the rules above give '
                'the behaviour (argument in DESIGN.md section 3, C02), but the '
                'induction itself is not machine-checked')
    from . import specsem
    specsem.changed_recompute(rep, mod, 'R02.1')
    specsem.changed_notify(rep, mod, 'R02.2')
    r02_3(rep, mod)
    specsem.subscription_counting(rep, mod, 'R02.3')
    r02_4(rep, repo)
    from . import identsem
    identsem.dependents_identity(rep, mod, 'R02.7')
    r02_5(rep, mod)
    specsem.extends_table(rep, mod, 'R02.5')
    r02_6(rep, mod)
    specsem.calculate_sro(rep, mod, 'R02.6')
    from . import cside
    cside.c02(rep)
