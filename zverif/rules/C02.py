"""C02 - extends/isOrExtends equal reachability over the current bases."""
import ast

from ..core import AnalysisError, norm_src
from ..pyfront import (find_def, find_all, match, walk_local, dotted, same,
                       calls_in, names_in, ClassTable, methods_of,
                       class_attr_assign)
from ..flowq import (iter_polarity, resolve_local, loops_over, pred_of,
                     witness_path, nodes_with, reaching_defs, def_value,
                     any_pred)
from ..cfg import cfg_of, header_expr
from . import shared


def must(cfg, pred):
    return cfg.must_pass_after(cfg.entry, pred)


def r02_3(rep, mod, rule='R02.3'):
    cls = find_def(mod, 'Specification')
    f = None
    for st in cls.body:
        if isinstance(st, ast.FunctionDef) and st.name.endswith('__setBases'):
            f = st
    rep.require(f is not None, 'Specification.__setBases vanished')
    site = 'Specification.__setBases'
    cfg = cfg_of(f)
    store = [n for n in cfg.nodes if isinstance(n.ast, ast.Assign)
             and match('self._bases = bases', n.ast, 'exec') is not None]
    rep.check(rule, site, len(store) == 1, 'stores self._bases = bases',
              construct='store', node=f)
    if len(store) != 1:
        return
    st = store[0]

    def full_loop(src_pats, call):
        for lp in walk_local(f):
            if not isinstance(lp, ast.For) or not isinstance(lp.target, ast.Name):
                continue
            s, d = iter_polarity(lp.iter)
            if not any(match(p, s) is not None for p in src_pats):
                continue
            v = lp.target.id
            cs = find_all(lp, '%s.%s(self)' % (v, call))
            if not cs:
                continue
            uncond = isinstance(cs[0][0].parent, ast.Expr) and \
                cs[0][0].parent.parent is lp
            exits = [n for n in walk_local(lp) if isinstance(
                n, (ast.Break, ast.Return, ast.Continue))]
            return lp, uncond and not exits
        return None, False
    ul, oku = full_loop(['self.__bases__', 'self._bases'], 'unsubscribe')
    sl, oks = full_loop(['bases', 'self._bases', 'self.__bases__'], 'subscribe')
    okub = ul is not None and cfg.dominated_by(st, lambda n: n.ast is ul)
    rep.check(rule, site, oku and okub,
              'unsubscribes from EVERY old base (unconditionally, by object) '
              'before the store', construct='unsubscribe-all', node=f)
    oksa = sl is not None and st.id not in cfg.reach(cfg.node_of(sl)) and \
        cfg.dominated_by(cfg.node_of(sl), lambda n: n is st) if sl is not None else False
    if sl is not None:
        s, d = iter_polarity(sl.iter)
        if match('bases', s) is None:
            oksa = oksa and True
    rep.check(rule, site, oks and bool(oksa),
              'subscribes to EVERY new base (unconditionally) after the store',
              construct='subscribe-all', node=f)
    chg = pred_of('self.changed(self)')
    okc = must(cfg, chg)
    cn = [n for n in cfg.nodes if n.ast is not None and chg(n)]
    oklast = okc and all(cfg.dominated_by(n, lambda m: m is st) for n in cn) and \
        (sl is None or all(cfg.dominated_by(n, lambda m: m.ast is sl) for n in cn))
    rep.check(rule, site, oklast,
              'calls self.changed(self) last, on every path', construct='changed',
              node=f)
    prop = class_attr_assign(cls, '__bases__')
    okp = False
    if prop is not None:
        env = match('property($g, $s)', prop)
        okp = env is not None and isinstance(env['s'], ast.Name) and \
            env['s'].id == f.name and isinstance(env['g'], ast.Lambda) and \
            match('self._bases', env['g'].body) is not None
    rep.check(rule, site, okp, '__bases__ = property(lambda self: self._bases, '
              '__setBases): %s' % norm_src(prop), construct='property', node=cls)
    init = find_def(mod, 'Specification.__init__')
    cfgi = cfg_of(init)
    rep.check(rule, 'Specification.__init__',
              must(cfgi, pred_of('self.__bases__ = tuple(bases)', 'exec')),
              'the constructor assigns the bases through the property',
              construct='init', node=init)


def r02_4(rep, repo, rule='R02.4'):
    table = ClassTable(repo, ['interface.py', 'declarations.py'])
    # InterfaceClass is created by a metaclass call with literal bases
    table.synthetic_bases['_InterfaceClassBase'] = ['InterfaceBase',
                                                    'Specification', 'Element']
    table.classes.setdefault('_InterfaceClassBase', ('interface.py', None))
    watched = ('changed', 'subscribe', 'unsubscribe', 'dependents',
               '__bases__', 'isOrExtends', 'extends', '_calculate_sro',
               '__setBases', '_implied', '__sro__', '__iro__')
    n = 0
    for cname in sorted(table.classes):
        node = table.node(cname)
        if node is None or cname in ('Specification', 'SpecificationBase'):
            continue
        try:
            mro = table.mro(cname)
        except AnalysisError:
            continue
        if 'Specification' not in mro:
            continue
        for st in node.body:
            names = []
            if isinstance(st, ast.FunctionDef):
                names = [st.name]
            elif isinstance(st, ast.Assign):
                names = [t.id for t in st.targets if isinstance(t, ast.Name)]
            for nm in names:
                if nm not in watched:
                    continue
                n += 1
                site = '%s.%s' % (cname, nm)
                if cname == '_ImmutableDeclaration':
                    ok = immutable_ok(node)
                    rep.check(rule, site, ok,
                              'the shared empty declaration may ignore '
                              'notifications only while it can never change: '
                              '__bases__ setter rejects every non-empty value '
                              'and interfaces() is empty: %s' % ok,
                              construct='immutable', node=st)
                    continue
                if nm == 'changed' and isinstance(st, ast.FunctionDef):
                    cfg = cfg_of(st)
                    p = pred_of('super().changed(originally_changed)')
                    ok = must(cfg, p)
                    rep.check(rule, site, ok,
                              'override calls super().changed(originally_changed) '
                              'on every path' if ok else
                              {'path': witness_path(cfg, cfg.entry, p)},
                              construct='super', node=st)
                    continue
                if nm in ('isOrExtends',) and isinstance(st, ast.Assign) and \
                        dotted(st.value) == 'SpecificationBase.isOrExtends':
                    rep.check(rule, site, True, 'alias of the base implementation',
                              construct='alias', node=st)
                    continue
                rep.check(rule, site, False,
                          'unexpected override of %s in a Specification subclass '
                          '(bypasses the notification protocol)' % nm,
                          construct='override', node=st)
    rep.require(n >= 5, 'R02.4: only %d overrides found' % n)


def immutable_ok(node):
    setter = None
    for st in node.body:
        if isinstance(st, ast.FunctionDef) and st.name == '__bases__' and any(
                norm_src(d) == '__bases__.setter' for d in st.decorator_list):
            setter = st
    if setter is None:
        return False
    p = shared.params(setter)[1]
    ifs = [n for n in setter.body if isinstance(n, ast.If)]
    ok = len(ifs) == 1 and match('%s != ()' % p, ifs[0].test) is not None and \
        any(isinstance(s, ast.Raise) for s in ifs[0].body)
    stores = [n for n in walk_local(setter) if isinstance(n, (ast.Assign, ast.AugAssign))]
    ok = ok and not stores
    it = methods_of(node).get('interfaces')
    ok = ok and it is not None and any(
        isinstance(s, ast.Return) and match('iter(())', s.value) is not None
        for s in it.body)
    return ok


def r02_5(rep, mod, rule='R02.5'):
    sb = find_def(mod, 'SpecificationBase')
    ms = methods_of(sb)
    f = ms['isOrExtends']
    p = shared.params(f)[1]
    rets = [n for n in walk_local(f) if isinstance(n, ast.Return)]
    ok = len(rets) == 1 and match('%s in self._implied' % p, rets[0].value) is not None
    rep.check(rule, 'SpecificationBase.isOrExtends', ok,
              'returns %s' % [norm_src(r.value) for r in rets], node=f)
    for nm, fn in (('providedBy', 'providedBy'), ('implementedBy', 'implementedBy')):
        f = ms[nm]
        p = shared.params(f)[1]
        rets = [n for n in walk_local(f) if isinstance(n, ast.Return)]
        ok = len(rets) == 1 and match('self in $s._implied', rets[0].value) is not None
        if ok:
            sp = resolve_local(f, match('self in $s._implied', rets[0].value)['s'])
            ok = match('%s(%s)' % (fn, p), sp) is not None
        rep.check(rule, 'SpecificationBase.' + nm, ok,
                  'returns self in %s(%s)._implied: %s' % (
                      fn, p, [norm_src(r.value) for r in rets]), node=f)
    v = class_attr_assign(sb, '__call__')
    rep.check(rule, 'SpecificationBase.__call__',
              v is not None and dotted(v) == 'isOrExtends',
              '__call__ = isOrExtends', node=sb)


def r02_6(rep, mod, rule='R02.6'):
    f = find_def(mod, 'Specification._calculate_sro')
    site = 'Specification._calculate_sro'
    v = class_attr_assign(find_def(mod, 'Specification'), '_do_calculate_ro')
    rep.check(rule, site, v is not None and dotted(v) == 'calculate_ro',
              '_do_calculate_ro is ro.ro', construct='ro', node=f)


def run(rep):
    repo = rep.repo
    mod = repo.module('interface.py')
    rep.rule('R02.1', 'Specification.changed recomputes, on every path, '
             '__sro__, __iro__ and the implied set from ONE unfiltered result '
             'of _calculate_sro()', floor=6)
    rep.rule('R02.2', 'then notifies EVERY dependent (snapshot of the keys, '
             'no condition, no early exit), after its own state is settled',
             floor=5)
    rep.rule('R02.3', '__bases__ store protocol: unsubscribe from every old '
             'base, store, subscribe to every new base, changed(self) last; '
             'subscription counting', floor=8)
    rep.rule('R02.4', 'overrides in Specification subclasses keep the '
             'protocol (Implements.changed calls super; the immutable empty '
             'declaration can never change)', floor=5)
    rep.rule('R02.5', 'queries read only the implied set: isOrExtends = '
             'membership; providedBy/implementedBy = self in spec._implied; '
             'extends = membership and (not strict or self != interface); same '
             'for the C twins SB_extends/SB_providedBy/SB_implementedBy',
             floor=9)
    rep.rule('R02.6', '_calculate_sro uses the current __sro__ of the current '
             'bases and always returns the root last', floor=3)
    rep.assume('the __bases__ graph is acyclic (the package does not enforce '
               'it; termination of the propagation depends on it)')
    rep.decline('none: by induction on the longest path the rules above give '
                'the behaviour (argument in DESIGN.md section 3, C02), but the '
                'induction itself is not machine-checked')
    from . import specsem
    specsem.changed_recompute(rep, mod, 'R02.1')
    specsem.changed_notify(rep, mod, 'R02.2')
    r02_3(rep, mod)
    specsem.subscription_counting(rep, mod, 'R02.3')
    r02_4(rep, repo)
    r02_5(rep, mod)
    specsem.extends_table(rep, mod, 'R02.5')
    r02_6(rep, mod)
    specsem.calculate_sro(rep, mod, 'R02.6')
    from . import cside
    cside.c02(rep)
