"""Semantic rules for Specification (interface.py) over path summaries."""
import ast

from ..core import AnalysisError, norm_src
from ..pyfront import (find_def, find_all, match, walk_local, dotted, clone)
from ..flowq import iter_polarity
from ..cfg import cfg_of, header_expr
from ..facts import canon, guarded, guarded_any, test_nodes, resolve
from ..sympath import summaries, normal
from .sem import nt, fact_about

SRO = 'self._calculate_sro()'


def _p(text):
    return ast.parse(text, mode='eval').body


def changed_recompute(rep, mod, rule, only=None):
    f = find_def(mod, 'Specification.changed')
    site = 'Specification.changed'
    ss = normal(summaries(f))
    rep.require(bool(ss), 'Specification.changed has no normal path')
    prob = {k: [] for k in ('clear', 'recompute', 'sro', 'iro', 'implied', 'v_attrs')}
    for ps in ss:
        calls = [e for e in ps.events if e.kind == 'call' and nt(e.r) == SRO]
        if len(calls) != 1:
            prob['recompute'].append('self._calculate_sro() called %d times on a path'
                                     % len(calls))
            continue
        cidx = ps.index(calls[0])
        # clear
        clears = [e for e in ps.events if (e.kind == 'call' and
                                           nt(e.r) == 'self._implied.clear()')
                  or (e.kind == 'store' and nt(e.r) == 'self._implied'
                      and nt(e.val) in ('{}', 'dict()'))]
        if not clears:
            prob['clear'].append('implied set not emptied on a path')
        # sro store
        st = [e for e in ps.events if e.kind == 'store' and nt(e.r) == 'self.__sro__']
        if len(st) != 1 or nt(st[0].val) not in (SRO, 'tuple(%s)' % SRO):
            prob['sro'].append('__sro__ = %s' % [nt(e.val)[:60] for e in st])
        # iro store
        it = [e for e in ps.events if e.kind == 'store' and nt(e.r) == 'self.__iro__']
        if len(it) != 1:
            prob['iro'].append('__iro__ stored %d times' % len(it))
        else:
            v = it[0].val
            inner = v
            if isinstance(v, ast.Call) and dotted(v.func) in ('tuple', 'list') and v.args:
                inner = v.args[0]
            comp_ok = False
            for src in (SRO, 'tuple(%s)' % SRO):
                for pat in ('[$x for $x in %s if isinstance($x, InterfaceClass)]' % src,
                            '($x for $x in %s if isinstance($x, InterfaceClass))' % src):
                    if match(pat, inner) is not None:
                        comp_ok = True
            if not comp_ok:
                # loop-built list: appended iff isinstance(EACH(A), InterfaceClass)
                if nt(inner) in ('[]', 'list()'):
                    each = None
                    aps = [e for e in ps.events if e.kind == 'call' and
                           isinstance(e.r.func, ast.Attribute) and e.r.func.attr == 'append'
                           and nt(e.r.func.value) in ('[]', 'list()')]
                    okl = True
                    for c, t, pos in ps.order:
                        if c.startswith('isinstance(EACH(') and c.endswith(', InterfaceClass)'):
                            arg = c[len('isinstance('):-len(', InterfaceClass)')]
                            has = any(nt(a.r.args[0]) == arg for a in aps)
                            if has != t:
                                okl = False
                            if SRO not in arg:
                                okl = False
                    looped = any(t and c.startswith('ITER(') and SRO in c for c, t, p in ps.order)
                    if not okl or (looped and not any(
                            c.startswith('isinstance(EACH(') for c, t, p in ps.order)):
                        prob['iro'].append('__iro__ built as `%s` with appends not '
                                           'controlled by isinstance(x, InterfaceClass)'
                                           % nt(v)[:60])
                else:
                    prob['iro'].append('__iro__ = `%s` is not the InterfaceClass '
                                       'members of the computed order' % nt(v)[:80])
        # implied: every iterated member recorded, unconditionally
        looped = [c for c, t, p in ps.order if t and c.startswith('ITER(') and SRO in c]
        stores = [e for e in ps.events if e.kind == 'store' and
                  isinstance(e.r, ast.Subscript) and nt(e.r.value) == 'self._implied']
        # the same through one bulk update: implied.update((a, ()) for a in <order>)
        bulk = False
        for e in ps.events:
            if e.kind == 'call' and nt(e.r.func) == 'self._implied.update' and \
                    len(e.r.args) == 1 and isinstance(
                        e.r.args[0], (ast.GeneratorExp, ast.ListComp, ast.DictComp)):
                c = e.r.args[0]
                g = c.generators[0]
                src, d = iter_polarity(g.iter)
                key = c.key if isinstance(c, ast.DictComp) else (
                    c.elt.elts[0] if isinstance(c.elt, ast.Tuple) and len(c.elt.elts) == 2
                    else None)
                if len(c.generators) == 1 and not g.ifs and isinstance(g.target, ast.Name) \
                        and nt(src) in (SRO, 'tuple(%s)' % SRO) and key is not None \
                        and nt(key) == g.target.id:
                    bulk = True
        if looped and not bulk and not any(
                nt(e.r.slice).startswith('EACH(') and SRO in nt(e.r.slice) for e in stores):
            prob['implied'].append('a path iterates the computed order without '
                                   'recording the member in the implied set')
        for e in stores:
            if not (nt(e.r.slice).startswith('EACH(') and SRO in nt(e.r.slice)):
                prob['implied'].append('implied[%s] stored' % nt(e.r.slice)[:40])
        resets = [ps.index(e) for e in ps.events if e.kind == 'store' and
                  nt(e.r) == 'self._v_attrs' and nt(e.val) == 'None']
        if not resets:
            prob['v_attrs'].append('_v_attrs not reset on a path')
        elif min(resets) > cidx:
            # dependents are notified (and may read attributes, or raise)
            # between the recomputation and a reset that only comes last
            prob['v_attrs'].append('the attribute memo is only dropped after the '
                                   'order was recomputed and dependents were '
                                   'notified: they (and everyone, if one of them '
                                   'raises) still see memoized descriptions of the '
                                   'old order')
    # the implied loop has no filter: a store on both isinstance outcomes when
    # loops are merged is covered above; separately require an unfiltered loop
    texts = {
        'clear': 'the implied set is emptied on every path before being refilled',
        'recompute': 'the resolution order is recomputed exactly once on every path',
        'sro': '__sro__ = tuple(<the computed order>) on every path',
        'iro': '__iro__ = the InterfaceClass members of the same computed order, in order',
        'implied': 'every member of the computed order is recorded in the implied '
                   'set unconditionally',
        'v_attrs': 'the attribute memo _v_attrs is dropped on every path',
    }
    for k in prob:
        if only is not None and k not in only:
            continue
        rep.check(rule, site, not prob[k], texts[k] if not prob[k] else
                  {'problems': sorted(set(prob[k]))[:3]}, construct=k, node=f)
    # direction of the loops over the computed order (iro keeps the order)
    for lp in walk_local(f):
        if isinstance(lp, (ast.For, ast.comprehension)):
            src, d = iter_polarity(lp.iter, f)
            if nt(src) in (SRO, 'tuple(%s)' % SRO) and d != 'fwd':
                rep.check(rule, site, False, 'the computed order is walked %s' % d,
                          construct='order', node=f)


def changed_notify(rep, mod, rule):
    f = find_def(mod, 'Specification.changed')
    site = 'Specification.changed'
    ss = normal(summaries(f))
    snap_forms = ('tuple(self._dependents.keys())', 'list(self._dependents.keys())',
                  'tuple(self._dependents)', 'list(self._dependents)',
                  'tuple(self.dependents.keys())', 'list(self.dependents.keys())',
                  'tuple(self._dependents.keys() if self._dependents else ())',
                  'tuple(self._dependents or ())')
    live_forms = ('self._dependents.keys()', 'self._dependents', 'self.dependents.keys()',
                  'self.dependents', 'self._dependents.keys() if self._dependents else ()',
                  'self._dependents or ()')
    found_src = set()
    p_source, p_snap, p_all, p_reached, p_order = [], [], [], [], []
    notified_paths = 0
    for ps in ss:
        iters = [(c, t) for c, t, p in ps.order if c.startswith('ITER(') and '_dependents' in c
                 or c.startswith('ITER(') and 'self.dependents' in c]
        looped = [c[5:-1] for c, t in iters if t]
        for src in looped:
            found_src.add(src)
            if src in snap_forms or src == '()':
                pass
            elif src in live_forms:
                p_snap.append('iterates the live mapping `%s`' % src)
            else:
                p_source.append('notifies `%s`' % src[:70])
            each = 'EACH(%s)' % src
            calls = [e for e in ps.events if e.kind == 'call' and
                     nt(e.r) == '%s.changed(originally_changed)' % each]
            if len(calls) != 1:
                p_all.append('a dependent is not notified (or not with the original '
                             'cause) on a path')
            else:
                notified_paths += 1
                idx = ps.index(calls[0])
                before = ps.events[:idx]
                for need in ('self.__sro__', 'self.__iro__'):
                    if not any(e.kind == 'store' and nt(e.r) == need for e in before):
                        p_order.append('%s stored after notifying' % need)
                # any condition on the dependent itself
                for c, t, pos in ps.order:
                    if each in c and not c.startswith('ITER('):
                        p_all.append('notification depends on `%s`' % c[:60])
        if not looped:
            # allowed only when there are no dependents
            empty = ps.fact('self._dependents')
            none = ps.fact('self._dependents is None')
            zero = [t for c, t in iters if not t]
            if not (empty is False or none is True or zero):
                p_reached.append('a path returns without notifying although there '
                                 'may be dependents')
    if not notified_paths:
        p_reached.append('no path notifies dependents')
    rep.check(rule, site, not p_source, 'notifies the keys of the dependents table: %s'
              % sorted(found_src) if not p_source else {'problems': sorted(set(p_source))},
              construct='source', node=f)
    rep.check(rule, site, not p_snap,
              'iterates a snapshot (tuple/list) of the dependents: a dependent\'s '
              'changed() may unsubscribe it, and mutating the live mapping during '
              'iteration aborts the propagation' if not p_snap else
              {'problems': sorted(set(p_snap))}, construct='snapshot', node=f)
    rep.check(rule, site, not p_all,
              'every dependent is notified unconditionally with the original cause'
              if not p_all else {'problems': sorted(set(p_all))[:3]}, construct='all', node=f)
    rep.check(rule, site, not p_reached,
              'the notification is reached on every path (skipped only without '
              'dependents)' if not p_reached else {'problems': sorted(set(p_reached))},
              construct='reached', node=f)
    rep.check(rule, site, not p_order,
              'own __sro__/__iro__ are settled before dependents are told'
              if not p_order else {'problems': sorted(set(p_order))}, construct='order',
              node=f)
    for lp in walk_local(f):
        if isinstance(lp, ast.For) and '_dependents' in norm_src(lp.iter):
            if [n for n in walk_local(lp) if isinstance(n, (ast.Break, ast.Return, ast.Continue))]:
                rep.check(rule, site, False, 'early exit in the notification loop',
                          construct='all', node=lp)


def calculate_sro(rep, mod, rule):
    from .rosem import seq_parts, comp_shape
    f = find_def(mod, 'Specification._calculate_sro')
    site = 'Specification._calculate_sro'
    ss = normal(summaries(f, lists=True))
    pb = []
    probs = []
    fixed = plain = 0
    for ps in ss:
        calls = [e for e in ps.events if e.kind == 'call' and
                 nt(e.r.func) == 'self._do_calculate_ro']
        if len(calls) != 1:
            probs.append('ro computed %d times' % len(calls))
            continue
        c = calls[0].r
        kw = {k.arg: k.value for k in c.keywords}
        bm = kw.get('base_mros', c.args[0] if c.args else None)
        okb = False
        if isinstance(bm, ast.DictComp) and len(bm.generators) == 1:
            g = bm.generators[0]
            src, d = iter_polarity(g.iter)
            okb = isinstance(g.target, ast.Name) and not g.ifs and \
                nt(src) == 'self.__bases__' and nt(bm.key) == g.target.id and \
                nt(bm.value) == '%s.__sro__' % g.target.id
        if not okb:
            pb.append('base orders passed as `%s`' % nt(bm)[:80])
        S = nt(calls[0].r)
        ret = nt(ps.ret)
        rootnone = ps.fact('self._ROOT is None')
        nonempty = ps.fact(S)
        lastroot = ps.fact('%s[-1] is self._ROOT' % S)
        if lastroot is None:
            lastroot = ps.fact('self._ROOT is %s[-1]' % S)
        needs_fix = (rootnone is False) and (nonempty is True) and (lastroot is False)
        if needs_fix:
            fixed += 1
            parts = seq_parts(ps.ret) if ps.ret is not None else []
            if not parts or parts[-1][0] != 'item' or nt(parts[-1][1]) != 'self._ROOT':
                probs.append('the root is not appended last on the repair path')
                continue
            rest = parts[:-1]
            each = 'EACH(%s)' % S
            if len(rest) == 1 and rest[0][0] == 'each':
                if comp_shape(rest[0][1]) != ('$', S, 'fwd', ['$ is not self._ROOT']):
                    probs.append('repair keeps `%s`' % nt(rest[0][1])[:80])
            elif all(k == 'item' and nt(x) == each for k, x in rest) and len(rest) <= 1:
                t = None
                for cc, tt, pos in ps.order:
                    if each in cc and ' is ' in cc and 'self._ROOT' in cc:
                        t = tt
                if ps.facts.get('ITER(%s)' % S) and (t is None or bool(rest) == t):
                    probs.append('members kept/dropped against the `is root` test')
            else:
                probs.append('repair builds `%s`' % ret[:80])
        else:
            plain += 1
            if ret != S:
                probs.append('returns `%s` although no repair is needed' % ret[:60])
            elif not (rootnone is True or nonempty is False or lastroot is True):
                # the unrepaired order may only be handed out when the path has
                # established that there is no root, nothing was computed, or the
                # root already is the last element
                probs.append('a path returns the computed order unrepaired without having '
                             'established that the root is already last (facts: root is None=%s, '
                             'order non-empty=%s, last is root=%s)' % (rootnone, nonempty, lastroot))
    if not fixed or not plain:
        probs.append('repair paths %d, plain paths %d' % (fixed, plain))
    rep.check(rule, site, bool(ss) and not pb,
              'the order is computed from the CURRENT __sro__ of every current base'
              if not pb else {'problems': sorted(set(pb))[:2]},
              construct='bases', node=f)
    rep.check(rule, site, not probs,
              'when the root is not already last it is removed wherever it is and '
              'appended; otherwise the computed order is returned unchanged'
              if not probs else {'problems': sorted(set(probs))[:4]},
              construct='root-last', node=f)


def subscription_counting(rep, mod, rule):
    sub = find_def(mod, 'Specification.subscribe')
    d = sub.args.args[1].arg
    ss = normal(summaries(sub))
    probs = []
    for ps in ss:
        st = [e for e in ps.events if e.kind == 'store' and isinstance(e.r, ast.Subscript)
              and nt(e.r.slice) == d]
        okc = len(st) == 1 and nt(st[0].r.value) in ('self._dependents', 'self.dependents') \
            and nt(st[0].val) in ('self.dependents.get(%s, 0) + 1' % d,
                                  'self._dependents.get(%s, 0) + 1' % d,
                                  '1 + self.dependents.get(%s, 0)' % d)
        # the table must exist: self.dependents (property) evaluated before a
        # store through self._dependents
        if okc and nt(st[0].r.value) == 'self._dependents':
            okc = 'self.dependents' in nt(st[0].val)
        if not okc:
            probs.append('stores %s' % [repr(e)[:80] for e in st])
    rep.check(rule, 'Specification.subscribe', not probs and bool(ss),
              'counts one more subscription of the dependent' if not probs else
              {'problems': probs[:3]}, construct='count', node=sub)
    un = find_def(mod, 'Specification.unsubscribe')
    d = un.args.args[1].arg
    cfg = cfg_of(un)
    dels = [n for n in cfg.nodes if isinstance(n.ast, ast.Delete) and any(
        match('self.dependents[%s]' % d, t) is not None or
        match('self._dependents[%s]' % d, t) is not None for t in n.ast.targets)]
    stores = [n for n in cfg.nodes if isinstance(n.ast, ast.Assign) and any(
        match('self.dependents[%s]' % d, t) is not None or
        match('self._dependents[%s]' % d, t) is not None for t in n.ast.targets)]
    ok = len(dels) == 1 and len(stores) == 1
    detail = 'delete %d / store %d' % (len(dels), len(stores))
    if ok:
        v = resolve(cfg, stores[0], stores[0].ast.value, depth=1)
        cnt = None
        # the count variable: n = self._dependents[d]; n -= 1
        ss = normal(summaries(un))
        okp = True
        for ps in ss:
            ds = [e for e in ps.events if e.kind == 'del']
            st = [e for e in ps.events if e.kind == 'store']
            cur = 'self._dependents[%s] - 1' % d
            z = ps.fact('not %s' % cur)
            zero = None
            for c, t, p in ps.order:
                if c in (cur, '%s == 0' % cur, '(%s)' % cur):
                    zero = (not t) if c in (cur, '(%s)' % cur) else t
            if zero is True and not (len(ds) == 1 and not st):
                okp = False
            if zero is False and not (len(st) == 1 and nt(st[0].val) == cur and not ds):
                okp = False
            if zero is None:
                okp = False
        ok = okp
        detail = 'decrements the count; removes the dependent exactly at zero (%s)' % okp
    rep.check(rule, 'Specification.unsubscribe', ok, detail, construct='count', node=un)


def extends_table(rep, mod, rule):
    """the truth table of extends over the three conditions it may look at:
    membership in the implied set, strictness, inequality with the receiver.
    Every path's returned value, under every assignment of the three that
    the path's own facts admit, is  member and (not strict or differs)."""
    import itertools
    from .sem import _eval3, consistent
    f = find_def(mod, 'Specification.extends')
    i, s = f.args.args[1].arg, f.args.args[2].arg
    (M, pm), (S, ps_), (N, pn) = [
        canon(ast.parse(t, mode='eval').body, True)
        for t in ('%s in self._implied' % i, s, 'self != %s' % i)]
    ss = normal(summaries(f))
    probs = []
    rows = 0
    for ps in ss:
        if ps.ret is None:
            probs.append('a path returns nothing')
            continue
        for bits in itertools.product((True, False), repeat=3):
            member, strict, differs = bits
            assign = {M: member == pm, S: strict == ps_, N: differs == pn}
            if not consistent(ps, assign):
                continue
            rows += 1
            want = member and (not strict or differs)
            if isinstance(ps.ret, ast.Constant) and isinstance(ps.ret.value, bool):
                got = ps.ret.value
            else:
                got = _eval3(ps.ret, assign)
            if got is not want:
                probs.append('member=%s strict=%s differs=%s returns `%s` (%s)'
                             % (member, strict, differs, nt(ps.ret)[:50], got))
    if rows < 8:
        probs.append('only %d of the 8 cases are covered' % rows)
    dflt = [norm_src(d) for d in f.args.defaults]
    rep.check(rule, 'Specification.extends', not probs and dflt == ['True'],
              'interface in self._implied and (not strict or self != interface); '
              'strict defaults to True' if not probs else
              {'problems': sorted(set(probs))[:4]},
              construct='table', node=f)


def spec_get(rep, mod, rule_polarity, rule_memo):
    f = find_def(mod, 'Specification.get')
    ss = normal(summaries(f))
    probs, memo = [], []
    hit = 0
    IRO = 'self.__iro__'
    for ps in ss:
        ret = nt(ps.ret)
        each = 'EACH(%s)' % IRO
        direct = '%s.direct(name)' % each
        looped = any(t and c == 'ITER(%s)' % IRO for c, t, p in ps.order)
        stores = [e for e in ps.events if e.kind == 'store' and isinstance(e.r, ast.Subscript)
                  and nt(e.r.slice) == 'name']
        if looped:
            dn = fact_about(ps, direct)
            if dn is False:
                hit += 1
                if continues_after(ps, f, direct, 'None', False):
                    probs.append('the walk continues after a direct definition was '
                                 'found (a later definer would win)')
                if ret != direct:
                    probs.append('a direct definition found but returns `%s`' % ret[:50])
                if not (len(stores) == 1 and nt(stores[0].val) == direct):
                    memo.append('found description not memoized under the name')
            elif dn is True:
                if stores:
                    memo.append('a missing (None) description is memoized')
            else:
                probs.append('direct(name) result not tested for None')
        else:
            if stores:
                memo.append('store without a lookup')
    for lp in walk_local(f):
        if isinstance(lp, ast.For) and nt(iter_polarity(lp.iter, f)[0]) == IRO:
            if iter_polarity(lp.iter, f)[1] != 'fwd':
                probs.append('__iro__ walked backwards')
    rets = {nt(ps.ret) for ps in ss}
    if 'default' not in rets:
        probs.append('no path returns the default')
    if not hit:
        probs.append('no path returns a direct definition')
    rep.check(rule_polarity, 'Specification.get', not probs,
              'walks __iro__ forward, returns the first non-None iface.direct(name), '
              'else the default' if not probs else {'problems': sorted(set(probs))[:4]},
              construct='first-definer', node=f)
    owner = [n for n in ast.walk(f) if isinstance(n, ast.Attribute) and n.attr == '_v_attrs']
    okown = bool(owner) and all(isinstance(m.value, ast.Name) and m.value.id == 'self'
                                for m in owner)
    rep.check(rule_memo, 'Specification.get', not memo and okown,
              'memo entries are stored only for found descriptions, keyed by the '
              'name, on the specification itself' if not memo else
              {'problems': sorted(set(memo))}, construct='memo-store', node=f)


# ---------------------------------------------------------------------------
# helpers

def fact_cmp(ps, a, b, op='is'):
    """latest truth of `a <op> b` on the path (either operand order)"""
    for c, t, _pos in ps.order[::-1]:
        if c in ('%s %s %s' % (a, op, b), '%s %s %s' % (b, op, a)):
            return t
        try:
            e = ast.parse(c, mode='eval').body
        except SyntaxError:
            continue
        if nt(e) in ('%s %s %s' % (a, op, b), '%s %s %s' % (b, op, a)):
            return t
    return None


def fact_indices(ps, a, b, op='is'):
    """indices (into ps.order) of the facts `a <op> b`"""
    want = ('%s %s %s' % (a, op, b), '%s %s %s' % (b, op, a))
    out = []
    for k in range(len(ps.order)):
        c = ps.order[k][0]
        if c in want:
            out.append(k)
            continue
        try:
            if nt(ast.parse(c, mode='eval').body) in want:
                out.append(k)
        except SyntaxError:
            pass
    return out


def continues_after(ps, func, a, b, truth, op='is'):
    """some fact `a <op> b` == truth on the path is established inside a loop
    whose header can be reached again afterwards"""
    cfg = cfg_of(func)
    return any(ps.order[k][1] == truth and ps.reenters_loop(cfg, k)
               for k in fact_indices(ps, a, b, op))


def iterated(ps):
    """sources whose loop body ran on this path"""
    return [c[5:-1] for c, t, p in ps.order if t and c.startswith('ITER(')]


def polarity_text(src):
    """(base text, 'fwd'|'rev') of an iterated source text"""
    e = ast.parse(src, mode='eval').body
    base, d = iter_polarity(e)
    return nt(base), d


def loop_exits(func, base_text, kinds=(ast.Break, ast.Return)):
    out = []
    for lp in walk_local(func):
        if isinstance(lp, ast.For):
            b, d = iter_polarity(lp.iter, func)
            if nt(b) == base_text or base_text in norm_src(lp.iter):
                out += [n for n in walk_local(lp) if isinstance(n, kinds)]
    return out


def each_conditions(ps, src):
    """conditions on the path that depend on the current member of src"""
    e = 'EACH(%s)' % src
    return [c for c, t, p in ps.order if e in c and not c.startswith('ITER(')]


def all_paths(func):
    return summaries(func, normal_only=False)


# ---------------------------------------------------------------------------
# C15 accessors

IRO = 'self.__iro__'


def names_and_descriptions(rep, mod, rule):
    f = find_def(mod, 'InterfaceClass.namesAndDescriptions')
    site = 'InterfaceClass.namesAndDescriptions'
    ss = normal(summaries(f))
    p_pol, p_dir = [], []
    seen_all = seen_direct = 0
    for ps in ss:
        a = ps.fact('all')
        ret = nt(ps.ret)
        if a is False:
            seen_direct += 1
            if ret != 'self.__attrs.items()':
                p_dir.append('all=False returns `%s`' % ret[:60])
            continue
        if a is None:
            p_dir.append('a path does not test `all`')
            continue
        seen_all += 1
        its = iterated(ps)
        if not its:
            if ret not in ('{}.items()', 'dict().items()'):
                p_pol.append('without interfaces returns `%s`' % ret[:60])
            continue
        if len(its) != 1:
            p_pol.append('iterates %s' % its)
            continue
        src = its[0]
        base, d = polarity_text(src)
        if base != IRO:
            p_pol.append('inherited view built from `%s`' % src[:60])
            continue
        each = 'EACH(%s)' % src
        direct = ('%s.namesAndDescriptions()' % each, '%s.namesAndDescriptions(False)' % each,
                  '%s.namesAndDescriptions(all=False)' % each)
        ups = [e for e in ps.events if e.kind == 'call' and isinstance(e.r.func, ast.Attribute)
               and e.r.func.attr == 'update' and len(e.r.args) == 1]
        okup = [e for e in ups if nt(e.r.args[0]) in direct or
                (isinstance(e.r.args[0], ast.Call) and dotted(e.r.args[0].func) == 'dict'
                 and e.r.args[0].args and nt(e.r.args[0].args[0]) in direct)]
        if len(ups) != 1 or len(okup) != 1:
            p_pol.append('collector is not one update() with the member\'s DIRECT '
                         'attributes: %s' % [nt(e.r)[:70] for e in ups])
            continue
        if d != 'rev':
            p_pol.append('walks __iro__ %s with a last-wins collector => the LAST '
                         'definer wins (required: first in __iro__, as get())' % d)
        coll = nt(okup[0].r.func.value)
        if coll not in ('{}', 'dict()') or ret != coll + '.items()':
            p_pol.append('returns `%s` (collector `%s`)' % (ret[:50], coll[:30]))
        if each_conditions(ps, src):
            p_pol.append('members filtered by %s' % each_conditions(ps, src)[:2])
    if loop_exits(f, IRO):
        p_pol.append('early exit from the walk')
    if not seen_all or not seen_direct:
        p_dir.append('all-paths %d, direct paths %d' % (seen_all, seen_direct))
    rep.check(rule, site, not p_pol,
              'all=True: walks __iro__ in reverse, updating one dict with each '
              'interface\'s DIRECT attributes => the first definer in __iro__ wins, '
              'as get()' if not p_pol else {'problems': sorted(set(p_pol))[:3]},
              construct='polarity', node=f)
    rep.check(rule, site, not p_dir, 'all=False returns only the direct attributes'
              if not p_dir else {'problems': sorted(set(p_dir))[:3]},
              construct='direct', node=f)


def query_tagged_value(rep, mod, rule):
    f = find_def(mod, 'InterfaceClass.queryTaggedValue')
    site = 'InterfaceClass.queryTaggedValue'
    P = 'EACH(%s).queryDirectTaggedValue(tag, _marker)' % IRO
    probs = []
    hit = miss = 0
    for ps in normal(summaries(f)):
        its = iterated(ps)
        ret = nt(ps.ret)
        if any(i != IRO for i in its):
            probs.append('walks %s' % its)
            continue
        if its:
            m = fact_cmp(ps, P, '_marker')
            if m is None:
                probs.append('the direct value is not compared with the sentinel')
            elif m is False:
                hit += 1
                if continues_after(ps, f, P, '_marker', False):
                    probs.append('the walk continues after a direct value was found')
                if ret != P:
                    probs.append('a direct value is found but `%s` is returned' % ret[:50])
            else:
                miss += 1
                if ret != 'default':
                    probs.append('no direct value but `%s` is returned' % ret[:50])
            extra = [c for c in each_conditions(ps, IRO)
                     if c not in ('%s is _marker' % P, '_marker is %s' % P)]
            if extra:
                probs.append('depends on %s' % extra[:2])
        else:
            miss += 1
            if ret != 'default':
                probs.append('no interface: returns `%s`' % ret[:50])
    if not hit or not miss:
        probs.append('hit paths %d, miss paths %d' % (hit, miss))
    for lp in walk_local(f):
        if isinstance(lp, ast.For):
            b, d = iter_polarity(lp.iter, f)
            if nt(b) == IRO and d != 'fwd':
                probs.append('__iro__ walked backwards')
    rep.check(rule, site, not probs,
              'first interface of __iro__ that has the tag directly wins (a '
              'stored None still wins: sentinel test)' if not probs else
              {'problems': sorted(set(probs))[:3]}, construct='first-definer', node=f)
    g = find_def(mod, 'InterfaceClass.getTaggedValue')
    Q = ('self.queryTaggedValue(tag, default=_marker)', 'self.queryTaggedValue(tag, _marker)')
    probs = []
    n = 0
    for ps in all_paths(g):
        if ps.kind == 'raise' and ps.ret_node is None:
            continue
        q = [x for x in Q if fact_cmp(ps, x, '_marker') is not None]
        if not q:
            probs.append('result not compared with the sentinel')
            continue
        n += 1
        m = fact_cmp(ps, q[0], '_marker')
        if m and not (ps.kind == 'raise' and nt(ps.raised) == 'KeyError(tag)'):
            probs.append('missing tag does not raise KeyError(tag)')
        if not m and not (ps.kind == 'return' and nt(ps.ret) == q[0]):
            probs.append('found value not returned')
    rep.check(rule, 'InterfaceClass.getTaggedValue', not probs and n >= 2,
              'getTaggedValue = queryTaggedValue or KeyError' if not probs else
              {'problems': sorted(set(probs))}, construct='via-query', node=g)


def tagged_value_tags(rep, mod, rule):
    f = find_def(mod, 'InterfaceClass.getTaggedValueTags')
    probs = []
    n = 0
    for ps in normal(summaries(f)):
        its = iterated(ps)
        ret = nt(ps.ret)
        if any(polarity_text(i)[0] != IRO for i in its):
            probs.append('walks %s' % its)
            continue
        if not its:
            if ret not in ('set()',):
                probs.append('no interface: returns `%s`' % ret)
            continue
        n += 1
        each = 'EACH(%s)' % its[0]
        ups = [e for e in ps.events if e.kind == 'call' and isinstance(e.r.func, ast.Attribute)
               and e.r.func.attr in ('update',) and len(e.r.args) == 1 and
               nt(e.r.args[0]) == '%s.getDirectTaggedValueTags()' % each]
        if len(ups) != 1 or nt(ups[0].r.func.value) != 'set()' or ret != 'set()':
            probs.append('direct tags of a member not added to the returned set')
        if each_conditions(ps, its[0]):
            probs.append('members filtered by %s' % each_conditions(ps, its[0])[:2])
    if loop_exits(f, IRO):
        probs.append('early exit from the walk')
    rep.check(rule, 'InterfaceClass.getTaggedValueTags', not probs and n >= 1,
              'union of the direct tags of every interface of __iro__' if not probs
              else {'problems': sorted(set(probs))}, construct='union', node=f)


def validate_invariants(rep, mod, rule):
    f = find_def(mod, 'InterfaceClass.validateInvariants')
    site = 'InterfaceClass.validateInvariants'
    obj, errors = f.args.args[1].arg, f.args.args[2].arg
    hnames = {h.name for h in walk_local(f) if isinstance(h, ast.ExceptHandler) and h.name}
    probs = []
    ran = collected = reraised = raised_all = clean = 0
    for ps in all_paths(f):
        if ps.kind == 'raise' and ps.ret_node is None:
            continue            # exception passing through
        its = iterated(ps)
        outer = [i for i in its if polarity_text(i)[0] == IRO]
        other = [i for i in its if polarity_text(i)[0] != IRO]
        inner = None
        for i in other:
            ok_inner = any(i == "EACH(%s).queryDirectTaggedValue('invariants', ())" % o
                           for o in outer)
            if not ok_inner:
                probs.append('iterates `%s`' % i[:70])
            else:
                inner = i
        for o in outer:
            if each_conditions(ps, o):
                probs.append('interfaces/invariants filtered by %s' % each_conditions(ps, o)[:1])
        if inner is not None:
            call = 'EACH(%s)(%s)' % (inner, obj)
            cs = [e for e in ps.events if e.kind == 'call' and nt(e.r) == call]
            if len(cs) != 1:
                probs.append('an invariant of a visited interface is not run')
            else:
                ran += 1
        exc = ps.fact('EXCEPT(Invalid)')
        if exc:
            none = fact_cmp(ps, errors, 'None')
            if none is None:
                probs.append('handler does not test whether a list was given')
            elif none:
                if not (ps.kind == 'raise' and ps.raised is None):
                    probs.append('without a list the failure is not re-raised')
                reraised += 1
                continue
            else:
                aps = [e for e in ps.events if e.kind == 'call' and any(
                    nt(e.r) == '%s.append(%s)' % (errors, h) for h in hnames)]
                if len(aps) != 1:
                    probs.append('failure not appended to the given list')
                if ps.kind == 'raise' and ps.raised is None:
                    probs.append('re-raises although a list was given (stops at '
                                 'the first failure)')
                collected += 1
        elif any(c.startswith('EXCEPT(') for c, t, p in ps.order):
            probs.append('handles %s' % [c for c, t, p in ps.order if c.startswith('EXCEPT(')])
        # ending
        last = [(c, t) for c, t, p in ps.order if c == errors]
        if not last and not exc and fact_cmp(ps, errors, 'None') is True:
            # no list to collect into and no handler on the path: a failing
            # invariant simply propagates (the same as re-raising it), and
            # there is nothing to report at the end
            if ps.kind == 'raise':
                probs.append('raises without a list of errors')
            if inner is not None:
                reraised += 1
            clean += 1
            continue
        if not last:
            probs.append('a path ends without testing the collected errors')
            continue
        if last[-1][1]:
            if not (ps.kind == 'raise' and nt(ps.raised) == 'Invalid(%s)' % errors):
                probs.append('collected errors are not raised as Invalid(errors)')
            raised_all += 1
        else:
            if ps.kind == 'raise':
                probs.append('raises without errors')
            clean += 1
    if loop_exits(f, IRO):
        probs.append('early exit from the walk over __iro__')
    if not (ran and collected and reraised and raised_all and clean):
        probs.append('path kinds: ran %d collected %d reraised %d raised %d clean %d'
                     % (ran, collected, reraised, raised_all, clean))
    rep.check(rule, site, not probs,
              'every direct invariant of every interface of __iro__ is run; '
              'Invalid is appended when a list is given, else re-raised; after the '
              'walk raises Invalid(errors) iff any' if not probs else
              {'problems': sorted(set(probs))[:4]}, construct='collect-all', node=f)


# ---------------------------------------------------------------------------
# C17 verify._verify

def _size_truth(c, L, n):
    """truth of the canonical fact text c about list L when len(L) == n, or
    None when c is not a fact about the size of L"""
    ln = 'len(%s)' % L
    if c == L or c == ln:
        return n > 0
    for k in (0, 1, 2):
        if c in ('%s == %d' % (ln, k), '%d == %s' % (k, ln)):
            return n == k
        if c == '%d < %s' % (k, ln):
            return k < n
        if c == '%s < %d' % (ln, k):
            return n < k
    return None


def verify_collects(rep, vmod, rule, rule_sel):
    f = find_def(vmod, '_verify')
    site = 'verify._verify'
    hnames = {h.name for h in walk_local(f) if isinstance(h, ast.ExceptHandler) and h.name}
    VIEW = ('iface.namesAndDescriptions(all=True)', 'iface.namesAndDescriptions(True)')
    p_sel, p_decl, p_loop, p_rep = [], [], [], []
    outcomes = set()
    n_paths = 0
    for ps in all_paths(f):
        if ps.kind == 'raise' and ps.ret_node is None:
            continue
        n_paths += 1
        c = ps.fact("vtype == 'c'")
        if c is None:
            p_sel.append('a path does not select the tester by vtype')
            continue
        T = 'iface.implementedBy' if c else 'iface.providedBy'
        other = 'iface.providedBy' if c else 'iface.implementedBy'
        if any(e.kind == 'call' and nt(e.r.func) == other for e in ps.events):
            p_sel.append("vtype %s 'c' asks %s" % ('==' if c else '!=', other))
        apps = [e for e in ps.events if e.kind == 'call' and
                isinstance(e.r.func, ast.Attribute) and e.r.func.attr == 'append'
                and len(e.r.args) == 1]
        DNI = 'DoesNotImplement(iface, candidate)'
        ins0 = [e for e in ps.events if e.kind == 'call' and
                isinstance(e.r.func, ast.Attribute) and e.r.func.attr == 'insert'
                and len(e.r.args) == 2 and nt(e.r.args[0]) == '0']
        built = [e for e in ps.events if e.kind == 'call' and nt(e.r) == DNI]
        dni = [e for e in apps if nt(e.r.args[0]) == DNI] + \
            [e for e in ins0 if nt(e.r.args[1]) == DNI]
        displays = {nt(e.r.func.value) for e in apps + ins0
                    if isinstance(e.r.func.value, ast.List)} | \
            {nt(n) for x in [ps.ret, ps.raised] if x is not None
             for n in ast.walk(x) if isinstance(n, ast.List)}
        for c_, t_, p_ in ps.order:
            try:
                for n in ast.walk(ast.parse(c_, mode='eval').body):
                    if isinstance(n, ast.List):
                        displays.add(nt(n))
            except SyntaxError:
                pass
        in_display = [d for d in displays if DNI in d]
        if in_display and not dni:
            dni = built[:1]
        if bool(built) != bool(dni):
            p_decl.append('a DoesNotImplement is built but not recorded')
        from .sem import decided
        T_ATOM, D_ATOM = 'tentative', '%s(candidate)' % T
        want_rec = decided(ps, [T_ATOM, D_ATOM], lambda m: (not m[T_ATOM]) and (not m[D_ATOM]))
        if want_rec is None:
            p_decl.append('recording DoesNotImplement is not decided by `tentative` and '
                          '%s(candidate)' % T)
        elif want_rec != bool(dni):
            p_decl.append('DoesNotImplement recorded: %s although the candidate %s'
                          % (bool(dni), 'is tentative or declares' if not want_rec
                             else 'is not tentative and does not declare'))
        if want_rec is False and ps.fact(T_ATOM) is True and any(
                e.kind == 'call' and nt(e.r) == D_ATOM for e in ps.events):
            p_decl.append('asks the tester although tentative')
        apps = apps + ins0
        L = {nt(e.r.func.value) for e in apps}
        # element loop
        its = iterated(ps)
        for i in its:
            if i not in VIEW:
                p_loop.append('iterates `%s`' % i[:60])
                continue
            each = 'EACH(%s)' % i
            call = '_verify_element(iface, %s[0], %s[1], candidate, vtype)' % (each, each)
            if len([e for e in ps.events if e.kind == 'call' and nt(e.r) == call]) != 1:
                p_loop.append('an element of the view is not verified')
            if each_conditions(ps, i):
                p_loop.append('elements filtered by %s' % each_conditions(ps, i)[:1])
        excs = [cc for cc, t, p in ps.order if cc.startswith('EXCEPT(')]
        if excs:
            if excs != ['EXCEPT(Invalid)']:
                p_loop.append('handles %s' % excs)
            caught = [e for e in apps if nt(e.r.args[0]) in hnames]
            if len(caught) != 1:
                p_loop.append('a caught Invalid is not appended')
            if ps.kind == 'raise' and ps.raised is None:
                p_loop.append('a caught Invalid is re-raised (first error only)')
                continue
        # report
        if len(L) > 1:
            p_rep.append('errors go to different lists %s' % sorted(L))
            continue
        Ls = sorted(L)[0] if L else None
        if Ls is None:
            # no append on this path: find the list from the facts
            cands = {cc for cc, t, p in ps.order if cc in ('[]', 'list()')} | set(displays)
            Ls = sorted(cands, key=len)[-1] if cands else '[]'
        consistent = []
        for n in (0, 1, 2):
            okn = True
            for cc, t, p in ps.order:
                v = _size_truth(cc, Ls, n)
                if v is not None and v != t:
                    okn = False
            if okn:
                consistent.append(n)
        if ps.kind == 'return':
            out = 0 if nt(ps.ret) == 'True' else 'return %s' % nt(ps.ret)
        elif ps.kind == 'raise':
            r = nt(ps.raised)
            out = 1 if r == '%s[0]' % Ls else (
                2 if r == 'MultipleInvalid(iface, candidate, %s)' % Ls else 'raise ' + r)
        else:
            out = 'falls off the end'
        outcomes.add(out)
        if consistent != [out]:
            p_rep.append('with %s error(s): %s' % (
                '/'.join(map(str, consistent)) or 'an impossible number of',
                {0: 'returns True', 1: 'raises the single error',
                 2: 'raises MultipleInvalid'}.get(out, out)))
    for lp in walk_local(f):
        if isinstance(lp, ast.For) and nt(lp.iter) in VIEW:
            if [n for n in walk_local(lp) if isinstance(n, (ast.Break, ast.Return))]:
                p_loop.append('the element loop can be left before exhaustion')
    if not {0, 1, 2} <= outcomes:
        p_rep.append('outcomes seen: %s' % sorted(map(str, outcomes)))
    rep.check(rule_sel, site, not p_sel and n_paths > 0,
              "vtype 'c' -> iface.implementedBy, otherwise iface.providedBy"
              if not p_sel else {'problems': sorted(set(p_sel))}, construct='tester', node=f)
    rep.check(rule, site, not p_decl,
              'DoesNotImplement appended iff not tentative and not tester(candidate)'
              if not p_decl else {'problems': sorted(set(p_decl))}, construct='declares',
              node=f)
    rep.check(rule, site, not p_loop,
              'every element of the inherited view is verified; every Invalid is '
              'caught and appended; the loop ends only by exhaustion' if not p_loop
              else {'problems': sorted(set(p_loop))[:3]}, construct='collect', node=f)
    rep.check(rule, site, not p_rep,
              'no error -> True; exactly one -> that error; several -> '
              'MultipleInvalid(iface, candidate, excs)' if not p_rep else
              {'problems': sorted(set(p_rep))[:4]}, construct='report', node=f)


# ---------------------------------------------------------------------------
# VerifyingBase (Python twin): generation snapshot and comparison

def listed_attr_source(ps, value, attr):
    """`value` denotes [x.<attr> for x in SRC] - written as a comprehension or
    as a list filled by a loop on this path.  Returns the text of SRC, or None."""
    v = value
    if isinstance(v, ast.Call) and dotted(v.func) in ('list', 'tuple') and len(v.args) == 1:
        v = v.args[0]
    if isinstance(v, (ast.ListComp, ast.GeneratorExp)) and len(v.generators) == 1:
        g = v.generators[0]
        if not g.ifs and isinstance(g.target, ast.Name) and \
                match('%s.%s' % (g.target.id, attr), v.elt) is not None:
            return nt(g.iter)
        return None
    if nt(v) in ('[]', 'list()'):
        srcs = [c[5:-1] for c, t, p in ps.order if c.startswith('ITER(')]
        for src in srcs:
            each = 'EACH(%s)' % src
            apps = [e for e in ps.events if e.kind == 'call' and
                    nt(e.r) == '[].append(%s.%s)' % (each, attr)]
            looped = ps.fact('ITER(%s)' % src)
            if looped and len(apps) == 1 and not each_conditions(ps, src):
                return src
            if looped is False and not apps:
                return src
    return None


def verifying_py(rep, mod, rule):
    vb = find_def(mod, 'VerifyingBase')
    from ..pyfront import methods_of
    vms = methods_of(vb)
    f = vms.get('_verify')
    rep.require(f is not None, 'VerifyingBase._verify vanished')
    probs = []
    kinds = set()
    for ps in normal(summaries(f)):
        cmpf = None
        for c, t, p in ps.order:
            try:
                e = _p(c)
            except SyntaxError:
                continue
            if isinstance(e, ast.Compare) and len(e.ops) == 1 and \
                    isinstance(e.ops[0], ast.Eq):
                sides = [e.left, e.comparators[0]]
                rec = [s for s in sides if nt(s) == 'self._verify_generations']
                cur = [s for s in sides if nt(s) != 'self._verify_generations']
                if rec and cur:
                    cmpf = (cur[0], t)
        chg = [e for e in ps.events if e.kind == 'call' and
               nt(e.r.func) == 'self.changed']
        if cmpf is None:
            probs.append('a path does not compare the current generations with '
                         'the recorded ones')
            continue
        src = listed_attr_source(ps, cmpf[0], '_generation')
        if src != 'self._verify_ro':
            probs.append('compares `%s` (generations of `%s`) with the recorded '
                         'generations' % (nt(cmpf[0])[:50], src))
            continue
        equal = cmpf[1]
        kinds.add(equal)
        if equal and chg:
            probs.append('calls changed() although the generations are equal')
        if not equal and len(chg) != 1:
            probs.append('differing generations do not lead to changed()')
    rep.check(rule, 'VerifyingBase._verify', not probs and kinds == {True, False},
              'compares [r._generation for r in self._verify_ro] with '
              'self._verify_generations and calls self.changed() on any difference'
              if not probs else {'problems': sorted(set(probs))[:3]},
              construct='compare', node=f)
    ch = vms.get('changed')
    probs = []
    n = 0
    for ps in normal(summaries(ch)):
        n += 1
        sup = [e for e in ps.events if e.kind == 'call' and
               nt(e.r) in ('LookupBaseFallback.changed(self, originally_changed)',
                           'super().changed(originally_changed)')]
        ro = [e for e in ps.events if e.kind == 'store' and nt(e.r) == 'self._verify_ro']
        gen = [e for e in ps.events if e.kind == 'store' and
               nt(e.r) == 'self._verify_generations']
        if len(sup) != 1:
            probs.append('the caches are not dropped (base changed() not called)')
        if len(ro) != 1 or nt(ro[0].val) not in ('self._registry.ro[1:]',
                                                 'tuple(self._registry.ro[1:])',
                                                 'list(self._registry.ro[1:])'):
            probs.append('_verify_ro = %s' % [nt(e.val)[:50] for e in ro])
            continue
        if len(gen) != 1:
            probs.append('generations stored %d times' % len(gen))
            continue
        src = listed_attr_source(ps, gen[0].val, '_generation')
        if src == 'self._verify_ro':
            # read back from the attribute: must be after its store
            reads = [e for e in ps.events if ps.index(e) < ps.index(ro[0]) and
                     'self._verify_ro' in repr(e) and e is not ro[0]]
            if ps.index(gen[0]) < ps.index(ro[0]) or reads:
                probs.append('generations are taken before _verify_ro is replaced')
        elif src != nt(ro[0].val) and src != 'self._registry.ro[1:]':
            probs.append('generations of `%s`' % src)
    rep.check(rule, 'VerifyingBase.changed', not probs and n >= 1,
              're-snapshots _verify_ro = registry.ro[1:] and then the generations '
              'of exactly those registries' if not probs else
              {'problems': sorted(set(probs))[:3]}, construct='snapshot', node=ch)


def setbases_links(rep, mod, rule):
    """AdapterRegistry._setBases keeps the sub-registry links of the bases in
    step with the new bases, then runs the base implementation."""
    f = find_def(mod, 'AdapterRegistry._setBases')
    site = 'AdapterRegistry._setBases'
    OLD = "self.__dict__.get('__bases__', ())"
    NEW = f.args.args[1].arg
    p_old, p_un, p_ln, p_sup = [], [], [], []
    kinds = set()
    for ps in normal(summaries(f)):
        its = iterated(ps)
        for i in its:
            if i not in (OLD, NEW):
                p_old.append('walks `%s` (old bases are %s)' % (i[:60], OLD))
        sup = [e for e in ps.events if e.kind == 'call' and
               nt(e.r) == 'super()._setBases(%s)' % NEW]
        if len(sup) != 1:
            p_sup.append('base _setBases(%s) not run exactly once on a path' % NEW)
        if OLD in its:
            E = 'EACH(%s)' % OLD
            rm = [e for e in ps.events if e.kind == 'call' and
                  nt(e.r) == '%s._removeSubregistry(self)' % E]
            kept = fact_cmp(ps, E, NEW, 'in')
            if kept is None:
                kinds.add('unlink')
                if len(rm) != 1:
                    p_un.append('an old base is not unlinked')
            elif kept:
                kinds.add('kept')
                if rm:
                    p_un.append('a base that stays is unlinked')
            else:
                kinds.add('unlink')
                if len(rm) != 1:
                    p_un.append('an old base that is no longer a base is not unlinked')
            extra = [c for c in each_conditions(ps, OLD) if c != '%s in %s' % (E, NEW)]
            if extra:
                p_un.append('unlinking depends on `%s`' % extra[0][:50])
        if NEW in its:
            E = 'EACH(%s)' % NEW
            ad = [e for e in ps.events if e.kind == 'call' and
                  nt(e.r) == '%s._addSubregistry(self)' % E]
            had = fact_cmp(ps, E, OLD, 'in')
            if had is None or not had:
                kinds.add('link')
                if len(ad) != 1:
                    p_ln.append('a new base is not linked')
            else:
                kinds.add('had')
            extra = [c for c in each_conditions(ps, NEW) if c != '%s in %s' % (E, OLD)]
            if extra:
                p_ln.append('linking depends on `%s`' % extra[0][:50])
            if sup and ad and ps.index(ad[0]) > ps.index(sup[0]):
                pass
    for lp in walk_local(f):
        if isinstance(lp, ast.For) and \
                [n for n in walk_local(lp) if isinstance(n, (ast.Break, ast.Return))]:
            p_un.append('a walk over the bases can end early')
    if not (p_old or p_un or p_ln) and not {'unlink', 'link'} <= kinds:
        p_un.append('path kinds %s' % sorted(kinds))
    rep.check(rule, site, not p_old, 'old bases = %s' % OLD if not p_old else
              {'problems': sorted(set(p_old))}, construct='old', node=f)
    rep.check(rule, site, not p_un,
              'unlinks from every old base that is not among the new bases'
              if not p_un else {'problems': sorted(set(p_un))[:3]}, construct='unlink',
              node=f)
    rep.check(rule, site, not p_ln,
              'links to every new base that was not among the old (direct) bases'
              if not p_ln else {'problems': sorted(set(p_ln))[:3]}, construct='link',
              node=f)
    rep.check(rule, site, not p_sup, 'runs the base _setBases(bases) on every path'
              if not p_sup else {'problems': sorted(set(p_sup))}, construct='super',
              node=f)
