"""Semantic rules for Specification (interface.py) over path summaries."""
import ast

from ..core import AnalysisError, norm_src
from ..pyfront import (find_def, find_all, match, walk_local, dotted, clone)
from ..flowq import iter_polarity
from ..cfg import cfg_of, header_expr
from ..facts import canon, guarded, guarded_any, test_nodes, resolve
from ..sympath import summaries, normal
from .sem import nt, fact_about

SRO = 'self._calculate_sro()'


def _p(text):
    return ast.parse(text, mode='eval').body


def changed_recompute(rep, mod, rule):
    f = find_def(mod, 'Specification.changed')
    site = 'Specification.changed'
    ss = normal(summaries(f))
    rep.require(bool(ss), 'Specification.changed has no normal path')
    prob = {k: [] for k in ('clear', 'recompute', 'sro', 'iro', 'implied', 'v_attrs')}
    for ps in ss:
        calls = [e for e in ps.events if e.kind == 'call' and nt(e.r) == SRO]
        if len(calls) != 1:
            prob['recompute'].append('self._calculate_sro() called %d times on a path'
                                     % len(calls))
            continue
        cidx = ps.index(calls[0])
        # clear
        clears = [e for e in ps.events if (e.kind == 'call' and
                                           nt(e.r) == 'self._implied.clear()')
                  or (e.kind == 'store' and nt(e.r) == 'self._implied'
                      and nt(e.val) in ('{}', 'dict()'))]
        if not clears:
            prob['clear'].append('implied set not emptied on a path')
        # sro store
        st = [e for e in ps.events if e.kind == 'store' and nt(e.r) == 'self.__sro__']
        if len(st) != 1 or nt(st[0].val) not in (SRO, 'tuple(%s)' % SRO):
            prob['sro'].append('__sro__ = %s' % [nt(e.val)[:60] for e in st])
        # iro store
        it = [e for e in ps.events if e.kind == 'store' and nt(e.r) == 'self.__iro__']
        if len(it) != 1:
            prob['iro'].append('__iro__ stored %d times' % len(it))
        else:
            v = it[0].val
            inner = v
            if isinstance(v, ast.Call) and dotted(v.func) in ('tuple', 'list') and v.args:
                inner = v.args[0]
            comp_ok = False
            for src in (SRO, 'tuple(%s)' % SRO):
                for pat in ('[$x for $x in %s if isinstance($x, InterfaceClass)]' % src,
                            '($x for $x in %s if isinstance($x, InterfaceClass))' % src):
                    if match(pat, inner) is not None:
                        comp_ok = True
            if not comp_ok:
                # loop-built list: appended iff isinstance(EACH(A), InterfaceClass)
                if nt(inner) in ('[]', 'list()'):
                    each = None
                    aps = [e for e in ps.events if e.kind == 'call' and
                           isinstance(e.r.func, ast.Attribute) and e.r.func.attr == 'append'
                           and nt(e.r.func.value) in ('[]', 'list()')]
                    okl = True
                    for c, t, pos in ps.order:
                        if c.startswith('isinstance(EACH(') and c.endswith(', InterfaceClass)'):
                            arg = c[len('isinstance('):-len(', InterfaceClass)')]
                            has = any(nt(a.r.args[0]) == arg for a in aps)
                            if has != t:
                                okl = False
                            if SRO not in arg:
                                okl = False
                    looped = any(t and c.startswith('ITER(') and SRO in c for c, t, p in ps.order)
                    if not okl or (looped and not any(
                            c.startswith('isinstance(EACH(') for c, t, p in ps.order)):
                        prob['iro'].append('__iro__ built as `%s` with appends not '
                                           'controlled by isinstance(x, InterfaceClass)'
                                           % nt(v)[:60])
                else:
                    prob['iro'].append('__iro__ = `%s` is not the InterfaceClass '
                                       'members of the computed order' % nt(v)[:80])
        # implied: every iterated member recorded, unconditionally
        looped = [c for c, t, p in ps.order if t and c.startswith('ITER(') and SRO in c]
        stores = [e for e in ps.events if e.kind == 'store' and
                  isinstance(e.r, ast.Subscript) and nt(e.r.value) == 'self._implied']
        if looped and not any(nt(e.r.slice).startswith('EACH(') and SRO in nt(e.r.slice)
                              for e in stores):
            prob['implied'].append('a path iterates the computed order without '
                                   'recording the member in the implied set')
        for e in stores:
            if not (nt(e.r.slice).startswith('EACH(') and SRO in nt(e.r.slice)):
                prob['implied'].append('implied[%s] stored' % nt(e.r.slice)[:40])
        if not any(e.kind == 'store' and nt(e.r) == 'self._v_attrs' and nt(e.val) == 'None'
                   for e in ps.events):
            prob['v_attrs'].append('_v_attrs not reset on a path')
    # the implied loop has no filter: a store on both isinstance outcomes when
    # loops are merged is covered above; separately require an unfiltered loop
    texts = {
        'clear': 'the implied set is emptied on every path before being refilled',
        'recompute': 'the resolution order is recomputed exactly once on every path',
        'sro': '__sro__ = tuple(<the computed order>) on every path',
        'iro': '__iro__ = the InterfaceClass members of the same computed order, in order',
        'implied': 'every member of the computed order is recorded in the implied '
                   'set unconditionally',
        'v_attrs': 'the attribute memo _v_attrs is dropped on every path',
    }
    for k in prob:
        rep.check(rule, site, not prob[k], texts[k] if not prob[k] else
                  {'problems': sorted(set(prob[k]))[:3]}, construct=k, node=f)
    # direction of the loops over the computed order (iro keeps the order)
    for lp in walk_local(f):
        if isinstance(lp, (ast.For, ast.comprehension)):
            src, d = iter_polarity(lp.iter, f)
            if nt(src) in (SRO, 'tuple(%s)' % SRO) and d != 'fwd':
                rep.check(rule, site, False, 'the computed order is walked %s' % d,
                          construct='order', node=f)


def changed_notify(rep, mod, rule):
    f = find_def(mod, 'Specification.changed')
    site = 'Specification.changed'
    ss = normal(summaries(f))
    snap_forms = ('tuple(self._dependents.keys())', 'list(self._dependents.keys())',
                  'tuple(self._dependents)', 'list(self._dependents)',
                  'tuple(self.dependents.keys())', 'list(self.dependents.keys())',
                  'tuple(self._dependents.keys() if self._dependents else ())',
                  'tuple(self._dependents or ())')
    live_forms = ('self._dependents.keys()', 'self._dependents', 'self.dependents.keys()',
                  'self.dependents', 'self._dependents.keys() if self._dependents else ()',
                  'self._dependents or ()')
    found_src = set()
    p_source, p_snap, p_all, p_reached, p_order = [], [], [], [], []
    notified_paths = 0
    for ps in ss:
        iters = [(c, t) for c, t, p in ps.order if c.startswith('ITER(') and '_dependents' in c
                 or c.startswith('ITER(') and 'self.dependents' in c]
        looped = [c[5:-1] for c, t in iters if t]
        for src in looped:
            found_src.add(src)
            if src in snap_forms or src == '()':
                pass
            elif src in live_forms:
                p_snap.append('iterates the live mapping `%s`' % src)
            else:
                p_source.append('notifies `%s`' % src[:70])
            each = 'EACH(%s)' % src
            calls = [e for e in ps.events if e.kind == 'call' and
                     nt(e.r) == '%s.changed(originally_changed)' % each]
            if len(calls) != 1:
                p_all.append('a dependent is not notified (or not with the original '
                             'cause) on a path')
            else:
                notified_paths += 1
                idx = ps.index(calls[0])
                before = ps.events[:idx]
                for need in ('self.__sro__', 'self.__iro__'):
                    if not any(e.kind == 'store' and nt(e.r) == need for e in before):
                        p_order.append('%s stored after notifying' % need)
                # any condition on the dependent itself
                for c, t, pos in ps.order:
                    if each in c and not c.startswith('ITER('):
                        p_all.append('notification depends on `%s`' % c[:60])
        if not looped:
            # allowed only when there are no dependents
            empty = ps.fact('self._dependents')
            none = ps.fact('self._dependents is None')
            zero = [t for c, t in iters if not t]
            if not (empty is False or none is True or zero):
                p_reached.append('a path returns without notifying although there '
                                 'may be dependents')
    if not notified_paths:
        p_reached.append('no path notifies dependents')
    rep.check(rule, site, not p_source, 'notifies the keys of the dependents table: %s'
              % sorted(found_src) if not p_source else {'problems': sorted(set(p_source))},
              construct='source', node=f)
    rep.check(rule, site, not p_snap,
              'iterates a snapshot (tuple/list) of the dependents: a dependent\'s '
              'changed() may unsubscribe it, and mutating the live mapping during '
              'iteration aborts the propagation' if not p_snap else
              {'problems': sorted(set(p_snap))}, construct='snapshot', node=f)
    rep.check(rule, site, not p_all,
              'every dependent is notified unconditionally with the original cause'
              if not p_all else {'problems': sorted(set(p_all))[:3]}, construct='all', node=f)
    rep.check(rule, site, not p_reached,
              'the notification is reached on every path (skipped only without '
              'dependents)' if not p_reached else {'problems': sorted(set(p_reached))},
              construct='reached', node=f)
    rep.check(rule, site, not p_order,
              'own __sro__/__iro__ are settled before dependents are told'
              if not p_order else {'problems': sorted(set(p_order))}, construct='order',
              node=f)
    for lp in walk_local(f):
        if isinstance(lp, ast.For) and '_dependents' in norm_src(lp.iter):
            if [n for n in walk_local(lp) if isinstance(n, (ast.Break, ast.Return, ast.Continue))]:
                rep.check(rule, site, False, 'early exit in the notification loop',
                          construct='all', node=lp)


def calculate_sro(rep, mod, rule):
    f = find_def(mod, 'Specification._calculate_sro')
    site = 'Specification._calculate_sro'
    call = find_all(f, 'self._do_calculate_ro(base_mros={$b: $b.__sro__ for $b in self.__bases__})')
    rep.check(rule, site, len(call) == 1,
              'the order is computed from the CURRENT __sro__ of every current base',
              construct='bases', node=f)
    ss = normal(summaries(f))
    base = None
    probs = []
    fixed = plain = 0
    for ps in ss:
        calls = [e for e in ps.events if e.kind == 'call' and
                 nt(e.r.func) == 'self._do_calculate_ro']
        if len(calls) != 1:
            probs.append('ro computed %d times' % len(calls))
            continue
        S = nt(calls[0].r)
        ret = nt(ps.ret)
        rootnone = ps.fact('self._ROOT is None')
        nonempty = ps.fact(S)
        lastroot = ps.fact('%s[-1] is self._ROOT' % S)
        if lastroot is None:
            lastroot = ps.fact('self._ROOT is %s[-1]' % S)
        needs_fix = (rootnone is False) and (nonempty is True) and (lastroot is False)
        if needs_fix:
            fixed += 1
            aps = [e for e in ps.events if e.kind == 'call' and
                   isinstance(e.r.func, ast.Attribute) and e.r.func.attr == 'append']
            if not aps or nt(aps[-1].r.args[0]) != 'self._ROOT':
                probs.append('the root is not appended last on the repair path')
                continue
            lst = nt(aps[-1].r.func.value)
            if ret != lst:
                probs.append('repair path returns `%s`' % ret[:60])
            comp = aps[-1].r.func.value
            if match('[$x for $x in %s if $x is not self._ROOT]' % S, comp) is not None:
                pass
            elif nt(comp) in ('[]', 'list()'):
                each = 'EACH(%s)' % S
                for c, t, pos in ps.order:
                    if each in c and ' is ' in c and 'self._ROOT' in c:
                        has = any(nt(a.r.args[0]) == each for a in aps[:-1])
                        if has == t:
                            probs.append('members kept/dropped against the `is root` test')
            else:
                probs.append('repair builds `%s`' % nt(comp)[:60])
        else:
            plain += 1
            if ret != S:
                probs.append('returns `%s` although no repair is needed' % ret[:60])
    if not fixed or not plain:
        probs.append('repair paths %d, plain paths %d' % (fixed, plain))
    rep.check(rule, site, not probs,
              'when the root is not already last it is removed wherever it is and '
              'appended; otherwise the computed order is returned unchanged'
              if not probs else {'problems': sorted(set(probs))[:4]},
              construct='root-last', node=f)


def subscription_counting(rep, mod, rule):
    sub = find_def(mod, 'Specification.subscribe')
    d = sub.args.args[1].arg
    ss = normal(summaries(sub))
    probs = []
    for ps in ss:
        st = [e for e in ps.events if e.kind == 'store' and isinstance(e.r, ast.Subscript)
              and nt(e.r.slice) == d]
        okc = len(st) == 1 and nt(st[0].r.value) in ('self._dependents', 'self.dependents') \
            and nt(st[0].val) in ('self.dependents.get(%s, 0) + 1' % d,
                                  'self._dependents.get(%s, 0) + 1' % d,
                                  '1 + self.dependents.get(%s, 0)' % d)
        # the table must exist: self.dependents (property) evaluated before a
        # store through self._dependents
        if okc and nt(st[0].r.value) == 'self._dependents':
            okc = 'self.dependents' in nt(st[0].val)
        if not okc:
            probs.append('stores %s' % [repr(e)[:80] for e in st])
    rep.check(rule, 'Specification.subscribe', not probs and bool(ss),
              'counts one more subscription of the dependent' if not probs else
              {'problems': probs[:3]}, construct='count', node=sub)
    un = find_def(mod, 'Specification.unsubscribe')
    d = un.args.args[1].arg
    cfg = cfg_of(un)
    dels = [n for n in cfg.nodes if isinstance(n.ast, ast.Delete) and any(
        match('self.dependents[%s]' % d, t) is not None or
        match('self._dependents[%s]' % d, t) is not None for t in n.ast.targets)]
    stores = [n for n in cfg.nodes if isinstance(n.ast, ast.Assign) and any(
        match('self.dependents[%s]' % d, t) is not None or
        match('self._dependents[%s]' % d, t) is not None for t in n.ast.targets)]
    ok = len(dels) == 1 and len(stores) == 1
    detail = 'delete %d / store %d' % (len(dels), len(stores))
    if ok:
        v = resolve(cfg, stores[0], stores[0].ast.value, depth=1)
        cnt = None
        # the count variable: n = self._dependents[d]; n -= 1
        ss = normal(summaries(un))
        okp = True
        for ps in ss:
            ds = [e for e in ps.events if e.kind == 'del']
            st = [e for e in ps.events if e.kind == 'store']
            cur = 'self._dependents[%s] - 1' % d
            z = ps.fact('not %s' % cur)
            zero = None
            for c, t, p in ps.order:
                if c in (cur, '%s == 0' % cur, '(%s)' % cur):
                    zero = (not t) if c in (cur, '(%s)' % cur) else t
            if zero is True and not (len(ds) == 1 and not st):
                okp = False
            if zero is False and not (len(st) == 1 and nt(st[0].val) == cur and not ds):
                okp = False
            if zero is None:
                okp = False
        ok = okp
        detail = 'decrements the count; removes the dependent exactly at zero (%s)' % okp
    rep.check(rule, 'Specification.unsubscribe', ok, detail, construct='count', node=un)


def extends_table(rep, mod, rule):
    f = find_def(mod, 'Specification.extends')
    i, s = f.args.args[1].arg, f.args.args[2].arg
    ss = normal(summaries(f))
    probs = []
    for ps in ss:
        member = ps.fact('%s in self._implied' % i)
        strict = ps.fact(s)
        ret = nt(ps.ret)
        full = ret in ('%s in self._implied and (not %s or self != %s)' % (i, s, i),)
        if full:
            continue
        if member is False:
            if ret not in ('False', '%s in self._implied' % i):
                probs.append('non-member returns `%s`' % ret)
        elif member is True:
            if strict is False:
                if ret not in ('True', 'not %s' % s):
                    probs.append('non-strict member returns `%s`' % ret)
            elif strict is True:
                if ret != 'self != %s' % i:
                    probs.append('strict member returns `%s`' % ret)
            else:
                if ret not in ('not %s or self != %s' % (s, i),):
                    probs.append('member returns `%s`' % ret)
        else:
            probs.append('membership in the implied set not tested on a path (`%s`)' % ret[:50])
    dflt = [norm_src(d) for d in f.args.defaults]
    rep.check(rule, 'Specification.extends', not probs and dflt == ['True'],
              'interface in self._implied and (not strict or self != interface); '
              'strict defaults to True' if not probs else {'problems': sorted(set(probs))},
              construct='table', node=f)


def spec_get(rep, mod, rule_polarity, rule_memo):
    f = find_def(mod, 'Specification.get')
    ss = normal(summaries(f))
    probs, memo = [], []
    hit = 0
    IRO = 'self.__iro__'
    for ps in ss:
        ret = nt(ps.ret)
        each = 'EACH(%s)' % IRO
        direct = '%s.direct(name)' % each
        looped = any(t and c == 'ITER(%s)' % IRO for c, t, p in ps.order)
        stores = [e for e in ps.events if e.kind == 'store' and isinstance(e.r, ast.Subscript)
                  and nt(e.r.slice) == 'name']
        if looped:
            dn = fact_about(ps, direct)
            if dn is False:
                hit += 1
                if ret != direct:
                    probs.append('a direct definition found but returns `%s`' % ret[:50])
                if not (len(stores) == 1 and nt(stores[0].val) == direct):
                    memo.append('found description not memoized under the name')
            elif dn is True:
                if stores:
                    memo.append('a missing (None) description is memoized')
            else:
                probs.append('direct(name) result not tested for None')
        else:
            if stores:
                memo.append('store without a lookup')
    for lp in walk_local(f):
        if isinstance(lp, ast.For) and nt(iter_polarity(lp.iter, f)[0]) == IRO:
            if iter_polarity(lp.iter, f)[1] != 'fwd':
                probs.append('__iro__ walked backwards')
    rets = {nt(ps.ret) for ps in ss}
    if 'default' not in rets:
        probs.append('no path returns the default')
    if not hit:
        probs.append('no path returns a direct definition')
    rep.check(rule_polarity, 'Specification.get', not probs,
              'walks __iro__ forward, returns the first non-None iface.direct(name), '
              'else the default' if not probs else {'problems': sorted(set(probs))[:4]},
              construct='first-definer', node=f)
    owner = [n for n in ast.walk(f) if isinstance(n, ast.Attribute) and n.attr == '_v_attrs']
    okown = bool(owner) and all(isinstance(m.value, ast.Name) and m.value.id == 'self'
                                for m in owner)
    rep.check(rule_memo, 'Specification.get', not memo and okown,
              'memo entries are stored only for found descriptions, keyed by the '
              'name, on the specification itself' if not memo else
              {'problems': sorted(set(memo))}, construct='memo-store', node=f)
