"""C01 - providedBy/implementedBy report exactly the declared and inherited
interfaces."""
import ast

from ..core import AnalysisError, norm_src
from ..pyfront import (find_def, find_all, match, walk_local, methods_of, dotted,
                       class_attr_assign, FUNC, qualname)
from ..flowq import (iter_polarity, resolve_local, loops_over, pred_of,
                     witness_path, nodes_with, any_pred, reaching_defs, def_value)
from ..cfg import cfg_of, header_expr
from ..sympath import summaries, normal
from ..pyfront import inlined
from .sem import nt
from ..peval import Interp, Opaque, outcome, Raised
from ..ceval import CInterp, Sym
from ..cfront import ccfg, show, node_calls
from . import shared, cside
from .cside import ccheck

TIME_DEPENDENT = ('isOrExtends', 'extends', 'providedBy', 'implementedBy',
                  'isEqualOrExtendedBy')


def filters_on_time_dependent_predicate(func):
    """comprehension filters / if tests in func that call a predicate whose
    answer changes when declarations change."""
    out = []
    for n in walk_local(func):
        tests = []
        if isinstance(n, ast.comprehension):
            tests = n.ifs
        elif isinstance(n, ast.If):
            tests = [n.test]
        for t in tests:
            for c in ast.walk(t):
                if isinstance(c, ast.Call) and isinstance(c.func, ast.Attribute) \
                        and c.func.attr in TIME_DEPENDENT:
                    out.append(c)
    return out


def memo_sites(mod):
    """functions that store into a table they also read under the same key
    (over path summaries: `T.get(k)` / `T[k]` read and `T[k] = v` store)"""
    out = []
    for f in ast.walk(mod):
        if not isinstance(f, FUNC):
            continue
        try:
            ss = normal(summaries(inlined(f)))
        except AnalysisError:
            continue
        for ps in ss:
            for e in ps.stores():
                if not isinstance(e.r, ast.Subscript) or \
                        not isinstance(e.r.value, (ast.Name, ast.Attribute)):
                    continue
                tbl, key = nt(e.r.value), nt(e.r.slice)
                reads = [c for c in ps.events if c.kind == 'call' and
                         nt(c.r) == '%s.get(%s)' % (tbl, key)]
                if reads and (qualname(f), tbl) not in [(q, t) for q, t, _ in out]:
                    out.append((qualname(f), tbl, f))
    return out


def _calls_named(func, attr):
    out = []
    for ps in normal(summaries(func)):
        out += [e for e in ps.events if e.kind == 'call' and
                isinstance(e.r.func, ast.Attribute) and e.r.func.attr == attr]
    return out


def changed_drops_entry(ch):
    """ProvidesClass.changed over path summaries: super().changed is always
    called; the memo entry under self.__args is deleted unless the change is
    the object's own construction or the entry is not this object."""
    OWN = ('originally_changed is self', 'self is originally_changed')
    GET = 'InstanceDeclarations.get(self.__args)'
    ISME = ('%s is self' % GET, 'self is %s' % GET)
    probs = []
    dropping = 0
    for ps in normal(summaries(ch)):
        if not [e for e in ps.events if e.kind == 'call' and
                nt(e.r) == 'super().changed(originally_changed)']:
            probs.append('a path does not delegate to super().changed')
        dels = [e for e in ps.dels() if nt(e.r) == 'InstanceDeclarations[self.__args]'] + \
            [e for e in ps.events if e.kind == 'call' and
             nt(e.r).startswith('InstanceDeclarations.pop(self.__args')]
        own = [ps.facts.get(c) for c in OWN if c in ps.facts]
        isme = [ps.facts.get(c) for c in ISME if c in ps.facts]
        other = [c for c, t, p in ps.order if c not in OWN + ISME
                 and not c.startswith('EXCEPT(')]
        if dels:
            dropping += 1
            # `del d[k]` raises KeyError when the entry is gone (it is, after the
            # first change): the path must have established that the entry is this
            # object, or use pop() with a default
            hard = [e for e in ps.dels() if nt(e.r) == 'InstanceDeclarations[self.__args]'] + \
                [e for e in ps.events if e.kind == 'call' and
                 nt(e.r) == 'InstanceDeclarations.pop(self.__args)']
            if hard and True not in isme and not any(
                    c.startswith('EXCEPT(KeyError') for c, t, p in ps.order):
                probs.append('the entry is deleted without having established that it is '
                             '(still) there: the next change raises KeyError out of the '
                             'declaration call that caused it')
            continue
        if True in own or False in isme:
            continue
        probs.append('the entry survives a change (path facts %s)'
                     % ([(c, t) for c, t, p in ps.order][:3]))
    if not dropping:
        probs.append('no path deletes the memo entry')
    return sorted(set(probs))


def r01_1(rep, mod, rule='R01.1'):
    from . import picklesem
    sites = memo_sites(mod)
    names = sorted({(q, t) for q, t, f in sites})
    rep.note('memo sites in declarations.py: %s' % names)
    prov = [x for x in sites if x[1] == 'InstanceDeclarations']
    rep.require(bool(prov), 'memo site InstanceDeclarations vanished')
    f = picklesem.provides_function(mod)
    pcls = picklesem.provides_class(mod)
    init = methods_of(pcls)['__init__']
    helper = find_def(mod, 'Declaration._add_interfaces_to_cls')
    uses_helper = bool(_calls_named(init, '_add_interfaces_to_cls'))
    preds = filters_on_time_dependent_predicate(helper) if uses_helper else []
    preds += filters_on_time_dependent_predicate(init)
    if not preds:
        rep.check(rule, 'declarations.Provides', True,
                  'the memoized constructor does not depend on the class\'s '
                  'current declarations', construct='memo:InstanceDeclarations',
                  node=f)
        return
    # accepted repairs
    # (a) validation on a hit
    hit_validates = bool(_calls_named(f, '_add_interfaces_to_cls'))
    # (b) entry dropped on the subject's changed() path
    ch = methods_of(pcls).get('changed')
    dropped = False
    dd = 'ProvidesClass has no changed() override'
    if ch is not None:
        dp = changed_drops_entry(ch)
        dropped = not dp
        dd = ('ProvidesClass.changed always delegates to super().changed and '
              'drops its memo entry unless the change is its own construction '
              'or the entry is another object') if dropped else {'problems': dp[:3]}
    # the subject is among the bases (so its changed() reaches the memoized object)
    rets = [ps.ret for ps in normal(summaries(helper))]
    subj = bool(rets) and all(
        r is not None and picklesem.tuple_elems(r)[-1:] == ['implementedBy(cls)']
        for r in rets)
    # key of the memo entry = the constructor arguments recorded on the object
    fp = picklesem.provides_factory_problems(f)
    cap = []
    for ps in normal(summaries(init)):
        sts = [e for e in ps.stores() if isinstance(e.r, ast.Attribute)
               and e.r.attr.endswith('__args')]
        cap.append(len(sts) == 1 and
                   picklesem.tuple_elems(sts[0].val) == ['cls', '*interfaces'])
    keyok = not fp and bool(cap) and all(cap)
    ok = hit_validates or (dropped and subj and keyok)
    rep.check(rule, 'declarations.Provides', ok,
              {'memo': 'InstanceDeclarations keyed by (cls, *interfaces)',
               'frozen_decision': [norm_src(p) for p in preds][:3],
               'hit_path_revalidates': hit_validates,
               'dropped_on_change': dd,
               'class_spec_is_a_base_of_the_memoized_object': subj,
               'memo_key_equals_recorded_args': keyok if keyok else fp[:2] + [cap],
               'why': 'the interfaces left out as redundant are decided when the '
                      'shared object is created; a declaration made after the '
                      'class was narrowed must not get that old object'},
              construct='memo:InstanceDeclarations', node=f)
    # the other memo sites of this module
    sup = find_def(mod, '_implementedBy_super')
    ic = find_def(mod, 'Implements.changed')
    from .declsem import drops_super_cache
    drops = all(bool(drops_super_cache(ps))
                or ps.facts.get('EXCEPT(AttributeError)') is True
                for ps in normal(summaries(ic))) and any(
        bool(drops_super_cache(ps)) for ps in normal(summaries(ic)))
    rep.check(rule, 'declarations._implementedBy_super',
              drops and not filters_on_time_dependent_predicate(sup),
              '_super_cache holds specs built from live, unfiltered bases and is '
              'dropped by Implements.changed', construct='memo:_super_cache',
              node=sup)
    ib = find_def(mod, 'implementedBy')
    rep.check(rule, 'declarations.implementedBy',
              ('implementedBy', 'BuiltinImplementationSpecifications') in names,
              'BuiltinImplementationSpecifications memoizes the live class '
              'specification itself (recomputed through its own __bases__ stores)',
              construct='memo:Builtin', node=ib)


def descr_tables(rep, mod, u):
    # ProvidesClass.__get__ / ClassProvidesBase.__get__ (PY)
    pcls = [n for n in mod.body if isinstance(n, ast.ClassDef) and n.name == 'Provides'][0]
    cpb = find_def(mod, 'ClassProvidesBase')
    for cls, site, want in (
            (pcls, 'ProvidesClass.__get__',
             {(True, True): 'self', (True, False): 'raise AttributeError',
              (False, True): 'raise AttributeError', (False, False): 'raise AttributeError'}),
            (cpb, 'ClassProvidesBase.__get__',
             {(True, True): 'self', (True, False): 'raise AttributeError',
              (False, True): 'implements', (False, False): 'raise AttributeError'})):
        f = methods_of(cls)['__get__']
        table = {}
        for inst_none in (True, False):
            for same_cls in (True, False):
                thecls = Opaque('cls', label='cls')
                other = Opaque('othercls', label='othercls')
                impl = Opaque('implements', label='implements')
                selfo = Opaque('self', attrs={'_cls': thecls, '_implements': impl},
                               label='self')
                inst = None if inst_none else Opaque('inst', label='inst')
                it = Interp()
                try:
                    o = outcome(it, f, [selfo, inst, thecls if same_cls else other])
                    table[(inst_none, same_cls)] = o[1] if o[0] == 'return' else 'raise ' + o[1]
                except AnalysisError as e:
                    table[(inst_none, same_cls)] = 'UNDECIDED ' + str(e)
        rep.check('R01.2', site, table == want,
                  'table over (inst is None, cls is self._cls): %s' % table
                  if table == want else {'code': {str(k): v for k, v in table.items()},
                                         'spec': {str(k): v for k, v in want.items()}},
                  construct='table', node=f)
    cp = find_def(mod, 'ClassProvides')
    v = class_attr_assign(cp, '__get__')
    rep.check('R01.2', 'ClassProvides.__get__',
              v is not None and dotted(v) == 'ClassProvidesBase.__get__',
              'ClassProvides uses the guarded __get__ of ClassProvidesBase',
              construct='alias', node=cp)
    # C twin
    f = u.func('CPB_descr_get')

    class M:
        def __init__(s, inst_none, same):
            s.selfo, s.cls, s.other = Sym('self'), Sym('cls'), Sym('othercls')
            s.impl = Sym('implements')
            s.inst = None if inst_none else Sym('inst')
            s.arg = s.cls if same else s.other
            s.err = None

        def glob(s, n):
            return Sym(n)

        def field(s, base, name):
            return {'_cls': s.cls, '_implements': s.impl}[name]

        def setfield(s, *a):
            raise AnalysisError('store')

        def call(s, name, args, interp, env):
            if name in ('Py_INCREF', 'Py_XINCREF'):
                return None
            if name == 'PyErr_SetString':
                s.err = args[0].name[6:]
                return None
            raise AnalysisError('call %s outside model' % name)
    table = {}
    for inst_none in (True, False):
        for same in (True, False):
            m = M(inst_none, same)
            try:
                v = CInterp(m).run(f, [m.selfo, m.inst, m.arg])
                table[(inst_none, same)] = ('raise ' + (m.err or '?')) if v is None \
                    else v.name
            except AnalysisError as e:
                table[(inst_none, same)] = 'UNDECIDED ' + str(e)
    want = {(True, True): 'self', (True, False): 'raise AttributeError',
            (False, True): 'implements', (False, False): 'raise AttributeError'}
    ccheck(rep, 'R01.2', 'CPB_descr_get', table == want,
           'table %s' % table if table == want else
           {'code': {str(k): v for k, v in table.items()}}, construct='table')


def osd_tables(rep, mod, u):
    """__providedBy__ descriptor: class access -> the class's own spec;
    instance -> its __provides__; AttributeError (only) -> implementedBy(cls)."""
    want = {'class': 'getObjectSpecification(cls)', 'has': 'PROVIDES',
            'missing': 'implementedBy(cls)', 'error': 'raise ValueError'}
    f = find_def(mod, 'ObjectSpecificationDescriptor.__get__')
    table = {}
    for case in want:
        prov = Opaque('PROVIDES', label='PROVIDES')
        attrs = {}
        if case == 'has':
            attrs['__provides__'] = prov
        elif case == 'error':
            attrs['__provides__'] = Raised('ValueError')
        inst = None if case == 'class' else Opaque('inst', attrs=attrs, label='inst')
        cls = Opaque('cls', label='cls')

        def hook(n, env, interp):
            d = dotted(n.func)
            if d in ('getObjectSpecification', 'implementedBy') and len(n.args) == 1 \
                    and isinstance(n.args[0], ast.Name) and n.args[0].id == 'cls':
                return Opaque(d, label='%s(cls)' % d)
            raise AnalysisError('call outside model: %s' % norm_src(n))
        it = Interp(hooks={'call': hook})
        try:
            o = outcome(it, f, [Opaque('self', label='self'), inst, cls])
            table[case] = o[1] if o[0] == 'return' else 'raise ' + o[1]
        except AnalysisError as e:
            table[case] = 'UNDECIDED ' + str(e)
    rep.check('R01.2', 'ObjectSpecificationDescriptor.__get__', table == want,
              'table %s' % table if table == want else {'code': table, 'spec': want},
              construct='table', node=f)
    cf = u.func('OSD_descr_get')

    class M:
        def __init__(s, case):
            s.case = case
            s.err = None
            s.prov = Sym('PROVIDES')
            s.inst = None if case == 'class' else Sym('inst')
            s.cls = Sym('cls')

        def glob(s, n):
            return Sym(n)

        def field(s, base, name):
            raise AnalysisError('field %s' % name)

        def setfield(s, *a):
            raise AnalysisError('store')

        def call(s, name, args, interp, env):
            if name in ('_get_module', 'Py_TYPE'):
                return Sym(name)
            if name == 'getObjectSpecification':
                return Sym('getObjectSpecification(%s)' % args[1].name)
            if name == 'implementedBy':
                return Sym('implementedBy(%s)' % args[1].name)
            if name == 'PyObject_GetAttr':
                if args[0] is not s.inst or getattr(args[1], 'name', '') != 'str__provides__':
                    raise AnalysisError('unexpected probe')
                if s.case == 'has':
                    return s.prov
                s.err = 'AttributeError' if s.case == 'missing' else 'ValueError'
                return None
            if name == 'PyErr_ExceptionMatches':
                return 1 if s.err == getattr(args[0], 'name', '')[6:] else 0
            if name == 'PyErr_Clear':
                s.err = None
                return None
            raise AnalysisError('call %s outside model' % name)
    table = {}
    for case in want:
        m = M(case)
        try:
            v = CInterp(m).run(cf, [Sym('self'), m.inst, m.cls])
            table[case] = ('raise ' + (m.err or '?')) if v is None else v.name
        except AnalysisError as e:
            table[case] = 'UNDECIDED ' + str(e)
    ccheck(rep, 'R01.2', 'OSD_descr_get', table == want,
           'table %s' % table if table == want else {'code': table, 'spec': want},
           construct='table')


def shared_no_mutate(rep, mod):
    watched = ('__bases__', 'declared', 'inherit', '_bases')
    n = 0
    for f in ast.walk(mod):
        if not isinstance(f, FUNC):
            continue
        for st in walk_local(f):
            if not isinstance(st, (ast.Assign, ast.AugAssign)):
                continue
            tgts = st.targets if isinstance(st, ast.Assign) else [st.target]
            for t in tgts:
                if isinstance(t, ast.Attribute) and t.attr in watched:
                    n += 1
                    recv = t.value
                    ok = False
                    why = norm_src(recv)
                    if isinstance(recv, ast.Name) and recv.id == 'self':
                        ok = True
                        why = 'self'
                    elif isinstance(recv, ast.Name):
                        ps = [a.arg for a in f.args.args]
                        if recv.id in ps and f.name == '_classImplements_ordered':
                            ok = True
                            why = 'parameter spec of the class-declaration helper'
                        else:
                            cfg = cfg_of(f)
                            defs = reaching_defs(cfg, cfg.node_of(st), recv.id)
                            vals = [def_value(d) if d is not cfg.entry else None
                                    for d in defs]
                            okv = bool(vals) and all(
                                v is not None and (
                                    match('implementedBy($c)', v) is not None or
                                    match('Implements.named($$a)', v) is not None)
                                for v in vals)
                            ok = okv
                            why = 'bound from %s' % [
                                norm_src(v) if v is not None else 'parameter'
                                for v in vals]
                    rep.check('R01.3', qualname(f), ok,
                              'store `%s`: receiver %s (must be the class\'s own '
                              'specification, never a shared instance '
                              'declaration)' % (norm_src(st).split('\n')[0][:60], why),
                              construct='store:%s.%s' % (norm_src(recv), t.attr),
                              node=st)
    rep.require_soft(n >= 9, 'R01.3: only %d stores found' % n)


def class_protocol(rep, mod):
    from . import declsem
    declsem.class_ordered(rep, mod, 'R01.4', 'R01.5')
    declsem.class_forms(rep, mod, 'R01.4', 'R01.5')


def install(rep, mod):
    from . import declsem
    declsem.implementedby_install(rep, mod, 'R01.6')
    declsem.directly_provides_dispatch(rep, mod, 'R01.7')


def run(rep):
    repo = rep.repo
    mod = repo.module('declarations.py')
    rep.rule('R01.1', 'memo freshness: no memoized declaration freezes a '
             'decision that depends on the class\'s current declarations '
             'without being revalidated on a hit or dropped when the class '
             'changes (InstanceDeclarations, _super_cache, builtins)', floor=2)
    rep.rule('R01.2', 'descriptor guards: a class\'s __provides__ is visible '
             'only on that class (not on instances/subclasses): decision tables '
             'of ProvidesClass.__get__, ClassProvidesBase.__get__ and the C twin',
             floor=4)
    rep.rule('R01.3', 'no in-place mutation of a shared declaration: every '
             'store to __bases__/declared/inherit has the class\'s own '
             'specification (or self) as receiver', floor=9)
    rep.rule('R01.4', 'class-declaration protocol: declared stored, then the '
             '__bases__ store last; bases = declared + inherited specs; the '
             '*only* forms reset first; decorators dispatch on isinstance(ob, '
             'type)', floor=8)
    rep.rule('R01.5', 'only declarations already implied by the class are '
             'elided (isOrExtends, with the documented root exception)', floor=3)
    rep.rule('R01.6', 'implementedBy creates, installs and returns one live '
             'specification per class, inheriting from cls.__bases__', floor=3)
    rep.rule('R01.7', 'directlyProvides dispatch and the __providedBy__ '
             'descriptor', floor=2)
    rep.rule('R01.8', 'removal and super views used by the declaration API: '
             'noLongerProvides removes exactly the sub-interfaces (C20 R20.1); '
             'the super-spec cache belongs to the concrete type (C19 R19.4)',
             floor=2)
    rep.decline('equality of the reported set with declared + inherited for '
                'every history (needs the result of C3 merging and every '
                'interleaving)')
    u = cside.cu(rep)
    r01_1(rep, mod)
    descr_tables(rep, mod, u)
    osd_tables(rep, mod, u)
    shared_no_mutate(rep, mod)
    class_protocol(rep, mod)
    install(rep, mod)
    # R01.8: shared obligations
    from . import declsem
    declsem.decl_sub(rep, mod, 'R01.8')
    declsem.provides_users(rep, mod, 'R01.7')
    cside.sb_queries(rep, 'R01.7', only='decl')
    declsem.super_cache_owner(rep, mod, 'R01.8')
