"""C01 - providedBy/implementedBy report exactly the declared and inherited
interfaces."""
import ast

from ..core import AnalysisError, norm_src
from ..pyfront import (find_def, find_all, match, walk_local, methods_of, dotted,
                       class_attr_assign, FUNC, qualname)
from ..flowq import (iter_polarity, resolve_local, loops_over, pred_of,
                     witness_path, nodes_with, any_pred, reaching_defs, def_value)
from ..cfg import cfg_of, header_expr
from ..peval import Interp, Opaque, outcome, Raised
from ..ceval import CInterp, Sym
from ..cfront import ccfg, show, node_calls
from . import shared, cside
from .cside import ccheck

TIME_DEPENDENT = ('isOrExtends', 'extends', 'providedBy', 'implementedBy',
                  'isEqualOrExtendedBy')


def filters_on_time_dependent_predicate(func):
    """comprehension filters / if tests in func that call a predicate whose
    answer changes when declarations change."""
    out = []
    for n in walk_local(func):
        tests = []
        if isinstance(n, ast.comprehension):
            tests = n.ifs
        elif isinstance(n, ast.If):
            tests = [n.test]
        for t in tests:
            for c in ast.walk(t):
                if isinstance(c, ast.Call) and isinstance(c.func, ast.Attribute) \
                        and c.func.attr in TIME_DEPENDENT:
                    out.append(c)
    return out


def memo_sites(mod):
    """functions with the shape: x = T.get(k)/T[k]; miss -> construct; T[k] = x"""
    out = []
    for f in ast.walk(mod):
        if not isinstance(f, FUNC):
            continue
        for st in walk_local(f):
            if isinstance(st, ast.Assign) and isinstance(st.targets[0], ast.Subscript) \
                    and isinstance(st.value, ast.Name):
                tbl = st.targets[0].value
                key = st.targets[0].slice
                reads = find_all(f, '%s.get(%s)' % (norm_src(tbl), norm_src(key))) + \
                    find_all(f, '%s[%s]' % (norm_src(tbl), norm_src(key)))
                reads = [r for r, _ in reads if r is not st.targets[0]]
                if reads and isinstance(tbl, (ast.Name, ast.Attribute)):
                    out.append((f, norm_src(tbl), st))
    return out


def r01_1(rep, mod):
    sites = memo_sites(mod)
    names = sorted({(qualname(f), t) for f, t, st in sites})
    rep.note('memo sites in declarations.py: %s' % names)
    prov = [x for x in sites if x[1] == 'InstanceDeclarations']
    rep.require(bool(prov), 'memo site InstanceDeclarations vanished')
    f, tbl, st = prov[0]
    # what is memoized: ProvidesClass(*interfaces); does its construction
    # depend on a time-dependent predicate?
    pc = find_def(mod, 'Provides')         # the class (first definition)
    pcls = None
    for n in mod.body:
        if isinstance(n, ast.ClassDef) and n.name == 'Provides':
            pcls = n
    rep.require(pcls is not None, 'class Provides (ProvidesClass) vanished')
    init = methods_of(pcls)['__init__']
    helper = find_def(mod, 'Declaration._add_interfaces_to_cls')
    uses_helper = bool(find_all(init, 'self._add_interfaces_to_cls($$a)'))
    preds = filters_on_time_dependent_predicate(helper) if uses_helper else []
    preds += filters_on_time_dependent_predicate(init)
    if not preds:
        rep.check('R01.1', 'declarations.Provides', True,
                  'the memoized constructor does not depend on the class\'s '
                  'current declarations', construct='memo:InstanceDeclarations',
                  node=f)
        return
    # accepted repairs
    # (a) validation on a hit
    hit_validates = bool(find_all(f, '$s._add_interfaces_to_cls($$a)')) or \
        bool(find_all(f, 'Declaration._add_interfaces_to_cls($$a)'))
    # (b) entry dropped on the subject's changed() path
    ch = methods_of(pcls).get('changed')
    dropped = False
    dd = 'ProvidesClass has no changed() override'
    if ch is not None:
        cfg = cfg_of(ch)
        dels = find_all(ch, 'del InstanceDeclarations[self.__args]', 'exec') + \
            [(c, e) for c, e in find_all(ch, 'InstanceDeclarations.pop(self.__args, $$d)')]
        okdel = bool(dels)
        # the deletion may only be skipped for the object's own construction /
        # when the entry is not this object
        guards = []
        for d, _ in dels:
            p = d if isinstance(d, ast.stmt) else shared.stmt_of(d)
            while p is not ch:
                if isinstance(p.parent, ast.If) and p in p.parent.body:
                    guards.append(p.parent.test)
                p = p.parent
        allowed = ('originally_changed is not self',
                   'InstanceDeclarations.get(self.__args) is self',
                   'originally_changed is not self and InstanceDeclarations.get(self.__args) is self',
                   'InstanceDeclarations.get(self.__args) is self and originally_changed is not self')
        okguard = all(norm_src(g) in allowed for g in guards)
        oksuper = cfg.must_pass_after(cfg.entry, pred_of('super().changed(originally_changed)'))
        dropped = okdel and okguard and oksuper
        dd = ('ProvidesClass.changed drops its memo entry (%s) unless it is '
              'its own construction / not the entry (guards %s: %s) and always '
              'delegates to super().changed (%s)'
              % (okdel, [norm_src(g) for g in guards], okguard, oksuper))
    # the subject is among the bases (so its changed() reaches the memoized object)
    subj = bool(find_all(helper, 'return interfaces + (implemented_by_cls,)', 'exec')) and \
        match('implementedBy(cls)', resolve_local(
            helper, ast.Name(id='implemented_by_cls', ctx=ast.Load()))) is not None
    # key of the memo entry = the constructor arguments recorded on the object
    keyok = bool(find_all(f, 'InstanceDeclarations[interfaces] = spec', 'exec')) and \
        bool(find_all(f, 'spec = ProvidesClass(*interfaces)', 'exec')) and \
        bool(find_all(init, 'self.__args = (cls,) + interfaces', 'exec'))
    ok = hit_validates or (dropped and subj and keyok)
    rep.check('R01.1', 'declarations.Provides', ok,
              {'memo': 'InstanceDeclarations keyed by (cls, *interfaces)',
               'frozen_decision': [norm_src(p) for p in preds][:3],
               'hit_path_revalidates': hit_validates,
               'dropped_on_change': dd,
               'class_spec_is_a_base_of_the_memoized_object': subj,
               'memo_key_equals_recorded_args': keyok,
               'why': 'the interfaces left out as redundant are decided when the '
                      'shared object is created; a declaration made after the '
                      'class was narrowed must not get that old object'},
              construct='memo:InstanceDeclarations', node=f)
    # the other memo sites of this module
    sup = find_def(mod, '_implementedBy_super')
    ic = find_def(mod, 'Implements.changed')
    rep.check('R01.1', 'declarations._implementedBy_super',
              bool(find_all(ic, 'del self._super_cache', 'exec')) and
              not filters_on_time_dependent_predicate(sup),
              '_super_cache holds specs built from live, unfiltered bases and is '
              'dropped by Implements.changed', construct='memo:_super_cache',
              node=sup)
    ib = find_def(mod, 'implementedBy')
    rep.check('R01.1', 'declarations.implementedBy',
              bool(find_all(ib, 'BuiltinImplementationSpecifications[cls] = spec', 'exec'))
              and bool(find_all(ib, 'BuiltinImplementationSpecifications.get(cls)')),
              'BuiltinImplementationSpecifications memoizes the live class '
              'specification itself (recomputed through its own __bases__ stores)',
              construct='memo:Builtin', node=ib)


def descr_tables(rep, mod, u):
    # ProvidesClass.__get__ / ClassProvidesBase.__get__ (PY)
    pcls = [n for n in mod.body if isinstance(n, ast.ClassDef) and n.name == 'Provides'][0]
    cpb = find_def(mod, 'ClassProvidesBase')
    for cls, site, want in (
            (pcls, 'ProvidesClass.__get__',
             {(True, True): 'self', (True, False): 'raise AttributeError',
              (False, True): 'raise AttributeError', (False, False): 'raise AttributeError'}),
            (cpb, 'ClassProvidesBase.__get__',
             {(True, True): 'self', (True, False): 'raise AttributeError',
              (False, True): 'implements', (False, False): 'raise AttributeError'})):
        f = methods_of(cls)['__get__']
        table = {}
        for inst_none in (True, False):
            for same_cls in (True, False):
                thecls = Opaque('cls', label='cls')
                other = Opaque('othercls', label='othercls')
                impl = Opaque('implements', label='implements')
                selfo = Opaque('self', attrs={'_cls': thecls, '_implements': impl},
                               label='self')
                inst = None if inst_none else Opaque('inst', label='inst')
                it = Interp()
                try:
                    o = outcome(it, f, [selfo, inst, thecls if same_cls else other])
                    table[(inst_none, same_cls)] = o[1] if o[0] == 'return' else 'raise ' + o[1]
                except AnalysisError as e:
                    table[(inst_none, same_cls)] = 'UNDECIDED ' + str(e)
        rep.check('R01.2', site, table == want,
                  'table over (inst is None, cls is self._cls): %s' % table
                  if table == want else {'code': {str(k): v for k, v in table.items()},
                                         'spec': {str(k): v for k, v in want.items()}},
                  construct='table', node=f)
    cp = find_def(mod, 'ClassProvides')
    v = class_attr_assign(cp, '__get__')
    rep.check('R01.2', 'ClassProvides.__get__',
              v is not None and dotted(v) == 'ClassProvidesBase.__get__',
              'ClassProvides uses the guarded __get__ of ClassProvidesBase',
              construct='alias', node=cp)
    # C twin
    f = u.func('CPB_descr_get')

    class M:
        def __init__(s, inst_none, same):
            s.selfo, s.cls, s.other = Sym('self'), Sym('cls'), Sym('othercls')
            s.impl = Sym('implements')
            s.inst = None if inst_none else Sym('inst')
            s.arg = s.cls if same else s.other
            s.err = None

        def glob(s, n):
            return Sym(n)

        def field(s, base, name):
            return {'_cls': s.cls, '_implements': s.impl}[name]

        def setfield(s, *a):
            raise AnalysisError('store')

        def call(s, name, args, interp, env):
            if name in ('Py_INCREF', 'Py_XINCREF'):
                return None
            if name == 'PyErr_SetString':
                s.err = args[0].name[6:]
                return None
            raise AnalysisError('call %s outside model' % name)
    table = {}
    for inst_none in (True, False):
        for same in (True, False):
            m = M(inst_none, same)
            try:
                v = CInterp(m).run(f, [m.selfo, m.inst, m.arg])
                table[(inst_none, same)] = ('raise ' + (m.err or '?')) if v is None \
                    else v.name
            except AnalysisError as e:
                table[(inst_none, same)] = 'UNDECIDED ' + str(e)
    want = {(True, True): 'self', (True, False): 'raise AttributeError',
            (False, True): 'implements', (False, False): 'raise AttributeError'}
    ccheck(rep, 'R01.2', 'CPB_descr_get', table == want,
           'table %s' % table if table == want else
           {'code': {str(k): v for k, v in table.items()}}, construct='table')


def osd_tables(rep, mod, u):
    """__providedBy__ descriptor: class access -> the class's own spec;
    instance -> its __provides__; AttributeError (only) -> implementedBy(cls)."""
    want = {'class': 'getObjectSpecification(cls)', 'has': 'PROVIDES',
            'missing': 'implementedBy(cls)', 'error': 'raise ValueError'}
    f = find_def(mod, 'ObjectSpecificationDescriptor.__get__')
    table = {}
    for case in want:
        prov = Opaque('PROVIDES', label='PROVIDES')
        attrs = {}
        if case == 'has':
            attrs['__provides__'] = prov
        elif case == 'error':
            attrs['__provides__'] = Raised('ValueError')
        inst = None if case == 'class' else Opaque('inst', attrs=attrs, label='inst')
        cls = Opaque('cls', label='cls')

        def hook(n, env, interp):
            d = dotted(n.func)
            if d in ('getObjectSpecification', 'implementedBy') and len(n.args) == 1 \
                    and isinstance(n.args[0], ast.Name) and n.args[0].id == 'cls':
                return Opaque(d, label='%s(cls)' % d)
            raise AnalysisError('call outside model: %s' % norm_src(n))
        it = Interp(hooks={'call': hook})
        try:
            o = outcome(it, f, [Opaque('self', label='self'), inst, cls])
            table[case] = o[1] if o[0] == 'return' else 'raise ' + o[1]
        except AnalysisError as e:
            table[case] = 'UNDECIDED ' + str(e)
    rep.check('R01.2', 'ObjectSpecificationDescriptor.__get__', table == want,
              'table %s' % table if table == want else {'code': table, 'spec': want},
              construct='table', node=f)
    cf = u.func('OSD_descr_get')

    class M:
        def __init__(s, case):
            s.case = case
            s.err = None
            s.prov = Sym('PROVIDES')
            s.inst = None if case == 'class' else Sym('inst')
            s.cls = Sym('cls')

        def glob(s, n):
            return Sym(n)

        def field(s, base, name):
            raise AnalysisError('field %s' % name)

        def setfield(s, *a):
            raise AnalysisError('store')

        def call(s, name, args, interp, env):
            if name in ('_get_module', 'Py_TYPE'):
                return Sym(name)
            if name == 'getObjectSpecification':
                return Sym('getObjectSpecification(%s)' % args[1].name)
            if name == 'implementedBy':
                return Sym('implementedBy(%s)' % args[1].name)
            if name == 'PyObject_GetAttr':
                if args[0] is not s.inst or getattr(args[1], 'name', '') != 'str__provides__':
                    raise AnalysisError('unexpected probe')
                if s.case == 'has':
                    return s.prov
                s.err = 'AttributeError' if s.case == 'missing' else 'ValueError'
                return None
            if name == 'PyErr_ExceptionMatches':
                return 1 if s.err == getattr(args[0], 'name', '')[6:] else 0
            if name == 'PyErr_Clear':
                s.err = None
                return None
            raise AnalysisError('call %s outside model' % name)
    table = {}
    for case in want:
        m = M(case)
        try:
            v = CInterp(m).run(cf, [Sym('self'), m.inst, m.cls])
            table[case] = ('raise ' + (m.err or '?')) if v is None else v.name
        except AnalysisError as e:
            table[case] = 'UNDECIDED ' + str(e)
    ccheck(rep, 'R01.2', 'OSD_descr_get', table == want,
           'table %s' % table if table == want else {'code': table, 'spec': want},
           construct='table')


def shared_no_mutate(rep, mod):
    watched = ('__bases__', 'declared', 'inherit', '_bases')
    n = 0
    for f in ast.walk(mod):
        if not isinstance(f, FUNC):
            continue
        for st in walk_local(f):
            if not isinstance(st, (ast.Assign, ast.AugAssign)):
                continue
            tgts = st.targets if isinstance(st, ast.Assign) else [st.target]
            for t in tgts:
                if isinstance(t, ast.Attribute) and t.attr in watched:
                    n += 1
                    recv = t.value
                    ok = False
                    why = norm_src(recv)
                    if isinstance(recv, ast.Name) and recv.id == 'self':
                        ok = True
                        why = 'self'
                    elif isinstance(recv, ast.Name):
                        ps = [a.arg for a in f.args.args]
                        if recv.id in ps and f.name == '_classImplements_ordered':
                            ok = True
                            why = 'parameter spec of the class-declaration helper'
                        else:
                            cfg = cfg_of(f)
                            defs = reaching_defs(cfg, cfg.node_of(st), recv.id)
                            vals = [def_value(d) if d is not cfg.entry else None
                                    for d in defs]
                            okv = bool(vals) and all(
                                v is not None and (
                                    match('implementedBy($c)', v) is not None or
                                    match('Implements.named($$a)', v) is not None)
                                for v in vals)
                            ok = okv
                            why = 'bound from %s' % [
                                norm_src(v) if v is not None else 'parameter'
                                for v in vals]
                    rep.check('R01.3', qualname(f), ok,
                              'store `%s`: receiver %s (must be the class\'s own '
                              'specification, never a shared instance '
                              'declaration)' % (norm_src(st).split('\n')[0][:60], why),
                              construct='store:%s.%s' % (norm_src(recv), t.attr),
                              node=st)
    rep.require(n >= 9, 'R01.3: only %d stores found' % n)


def class_protocol(rep, mod):
    from . import declsem
    declsem.class_ordered(rep, mod, 'R01.4', 'R01.5')
    h = find_def(mod, 'Declaration._add_interfaces_to_cls')
    d = [n.value for n in walk_local(h) if isinstance(n, ast.Assign)
         and isinstance(n.targets[0], ast.Name) and n.targets[0].id == 'interfaces']
    ok = bool(d) and match(
        'tuple([$i for $i in interfaces if not implemented_by_cls.isOrExtends($i)])',
        d[0]) is not None
    rep.check('R01.5', 'Declaration._add_interfaces_to_cls', ok,
              'instance declarations drop exactly what the class already '
              'implies', construct='elide:instance', node=h)
    # classImplementsOnly resets before delegating
    f = find_def(mod, 'classImplementsOnly')
    cfg = cfg_of(f)
    call = [n for n in cfg.nodes if n.ast is not None and header_expr(n) is not None and
            find_all(header_expr(n), '_classImplements_ordered(spec, interfaces, ())')]
    ok = len(call) == 1
    if ok:
        for p in ('spec.declared = ()', 'spec.inherit = None', 'spec.__bases__ = ()'):
            ok = ok and cfg.dominated_by(call[0], pred_of(p, 'exec'))
        sp = resolve_local(f, ast.Name(id='spec', ctx=ast.Load()))
        ok = ok and match('implementedBy(cls)', sp) is not None
    rep.check('R01.4', 'declarations.classImplementsOnly', ok,
              'clears declared, inherit and __bases__ of the class\'s own '
              'specification before re-declaring (nothing inherited survives, '
              'old bases cannot elide new declarations)', construct='only-reset',
              node=f)
    f = find_def(mod, 'classImplements')
    okc = bool(find_all(f, '_classImplements_ordered(spec, tuple(before), tuple(after))'))
    lps = [n for n in f.body if isinstance(n, ast.For)]
    if okc and lps:
        lp = lps[0]
        inner = [n for n in lp.body if isinstance(n, ast.For)]
        okc = len(inner) == 1 and match('spec.declared', inner[0].iter) is not None and \
            bool(find_all(inner[0], '%s.extends(%s)' % (lp.target.id, inner[0].target.id))) \
            and bool(find_all(inner[0], 'before.append(%s)' % lp.target.id, 'exec')) \
            and any(find_all(s, 'after.append(%s)' % lp.target.id, 'exec')
                    for s in inner[0].orelse)
    rep.check('R01.4', 'declarations.classImplements', okc,
              'new interfaces extending an already declared one go in front, '
              'the others at the end; then the ordered helper runs',
              construct='classify', node=f)
    f = find_def(mod, 'classImplementsFirst')
    rep.check('R01.4', 'declarations.classImplementsFirst',
              bool(find_all(f, '_classImplements_ordered(spec, (iface,), ())')),
              'declares the interface in front', construct='first', node=f)
    # decorators dispatch
    imp = find_def(mod, 'implementer.__call__')
    g = [n for n in imp.body if isinstance(n, ast.If)]
    ok = bool(g) and match('isinstance(ob, type)', g[0].test) is not None and \
        bool(find_all(g[0], 'classImplements(ob, *self.interfaces)'))
    rep.check('R01.4', 'declarations.implementer.__call__', ok,
              'every class (any metaclass: isinstance(ob, type)) goes through '
              'classImplements, which keeps inheritance and earlier '
              'declarations: `%s`' % (norm_src(g[0].test) if g else 'missing'),
              construct='class-branch', node=imp)
    io = find_def(mod, 'implementer_only.__call__')
    rep.check('R01.4', 'declarations.implementer_only.__call__',
              bool(find_all(io, 'classImplementsOnly(ob, *self.interfaces)')),
              'implementer_only -> classImplementsOnly', construct='only', node=io)


def install(rep, mod):
    f = find_def(mod, 'implementedBy')
    cfg = cfg_of(f)
    ok1 = bool(find_all(f, 'spec = Implements.named(spec_name, *[implementedBy($c) for $c in bases])', 'exec'))
    ok2 = bool(find_all(f, 'spec.inherit = cls', 'exec'))
    bs = [n for n in walk_local(f) if isinstance(n, ast.Assign)
          and match('bases = cls.__bases__', n, 'exec') is not None]
    rep.check('R01.6', 'declarations.implementedBy', ok1 and ok2 and bool(bs),
              'a new class specification inherits the specifications of '
              'cls.__bases__ in order and records inherit = cls',
              construct='create', node=f)
    st = find_all(f, 'cls.__implemented__ = spec', 'exec')
    okpb = bool(find_all(f, "cls.__providedBy__ = objectSpecificationDescriptor", 'exec'))
    okcp = bool(find_all(f, 'cls.__provides__ = ClassProvides($$a)', 'exec'))
    okb = bool(find_all(f, 'BuiltinImplementationSpecifications[cls] = spec', 'exec'))
    rep.check('R01.6', 'declarations.implementedBy',
              len(st) == 1 and okpb and okcp and okb,
              'the new specification is installed as cls.__implemented__ with '
              'the __providedBy__/__provides__ descriptors, or registered for '
              'builtins (%s/%s/%s/%s)' % (len(st) == 1, okpb, okcp, okb),
              construct='install', node=f)
    # lookups return the installed object
    rets = [norm_src(r.value) for r in walk_local(f) if isinstance(r, ast.Return)]
    rep.check('R01.6', 'declarations.implementedBy',
              rets.count('spec') >= 3 and '_empty' in rets,
              'returns the class\'s own live specification: %s' % rets,
              construct='returns', node=f)
    d = find_def(mod, 'directlyProvides')
    okt = False
    for n in walk_local(d):
        if isinstance(n, ast.If) and match('issubclass(cls, type)', n.test) is not None:
            a = any(find_all(s, 'object.__provides__ = ClassProvides(object, cls, *interfaces)', 'exec')
                    for s in n.body)
            b = any(find_all(s, 'object.__provides__ = Provides(cls, *interfaces)', 'exec') or
                    find_all(s, 'provides = object.__provides__ = Provides(cls, *interfaces)', 'exec')
                    for s in n.orelse)
            okt = a and b
    nm = [n for n in walk_local(d) if isinstance(n, ast.Assign)
          and match('interfaces = _normalizeargs(interfaces)', n, 'exec') is not None]
    okn = len(nm) == 1 and nm[0] in d.body
    rep.check('R01.7', 'declarations.directlyProvides', okt and okn,
              'classes get ClassProvides(object, cls, ...), instances '
              'Provides(cls, ...); arguments normalised once for both branches '
              '(%s/%s)' % (okt, okn), construct='dispatch', node=d)
    os_ = find_def(mod, 'ObjectSpecificationDescriptor.__get__')
    rets = [norm_src(r.value) for r in walk_local(os_) if isinstance(r, ast.Return)]
    rep.check('R01.7', 'ObjectSpecificationDescriptor.__get__',
              sorted(rets) == sorted(['getObjectSpecification(cls)', 'inst.__provides__',
                                      'implementedBy(cls)']),
              '__providedBy__: class access -> the class\'s own spec; instance '
              '-> its __provides__ else implementedBy(cls): %s' % rets,
              construct='descriptor', node=os_)


def run(rep):
    repo = rep.repo
    mod = repo.module('declarations.py')
    rep.rule('R01.1', 'memo freshness: no memoized declaration freezes a '
             'decision that depends on the class\'s current declarations '
             'without being revalidated on a hit or dropped when the class '
             'changes (InstanceDeclarations, _super_cache, builtins)', floor=2)
    rep.rule('R01.2', 'descriptor guards: a class\'s __provides__ is visible '
             'only on that class (not on instances/subclasses): decision tables '
             'of ProvidesClass.__get__, ClassProvidesBase.__get__ and the C twin',
             floor=4)
    rep.rule('R01.3', 'no in-place mutation of a shared declaration: every '
             'store to __bases__/declared/inherit has the class\'s own '
             'specification (or self) as receiver', floor=9)
    rep.rule('R01.4', 'class-declaration protocol: declared stored, then the '
             '__bases__ store last; bases = declared + inherited specs; the '
             '*only* forms reset first; decorators dispatch on isinstance(ob, '
             'type)', floor=8)
    rep.rule('R01.5', 'only declarations already implied by the class are '
             'elided (isOrExtends, with the documented root exception)', floor=3)
    rep.rule('R01.6', 'implementedBy creates, installs and returns one live '
             'specification per class, inheriting from cls.__bases__', floor=3)
    rep.rule('R01.7', 'directlyProvides dispatch and the __providedBy__ '
             'descriptor', floor=2)
    rep.rule('R01.8', 'removal and super views used by the declaration API: '
             'noLongerProvides removes exactly the sub-interfaces (C20 R20.1); '
             'the super-spec cache belongs to the concrete type (C19 R19.4)',
             floor=2)
    rep.decline('equality of the reported set with declared + inherited for '
                'every history (needs the result of C3 merging and every '
                'interleaving)')
    u = cside.cu(rep)
    r01_1(rep, mod)
    descr_tables(rep, mod, u)
    osd_tables(rep, mod, u)
    shared_no_mutate(rep, mod)
    class_protocol(rep, mod)
    install(rep, mod)
    # R01.8: shared obligations
    from . import declsem
    declsem.decl_sub(rep, mod, 'R01.8')
    declsem.provides_users(rep, mod, 'R01.7')
    cside.sb_queries(rep, 'R01.7', only='decl')
    sup = find_def(mod, '_implementedBy_super')
    p = shared.params(sup)[0]
    owner = resolve_local(sup, ast.Name(id='implemented_by_self', ctx=ast.Load()))
    rep.check('R01.8', 'declarations._implementedBy_super',
              match('implementedBy(%s.__self_class__)' % p, owner) is not None,
              'super-spec cache owner: %s' % norm_src(owner), construct='super-cache',
              node=sup)
